import ApdVerif.Lemmas.LnAccH
import ApdVerif.Props.TransLog
/-!
# C12 for `Context.Ln`, proved on the tape model

`lnT` (Model/TransLog.lean) sums a power series when the operand (possibly after rescaling by a power of ten)
is within 0.1 of 1, and otherwise runs Halley's iteration from the tape's `float64` estimate, calling `Exp`
(two tape entries per call).  `P = Precision`, `p = P + 2` the working precision, `u = 10^(1-p)/2 = 10^(-P-1)/2`,
`ulp = 10^(Oracle.ulpOf c result).e`, `ρ = 1/2` for the three half modes and `1` for the directed modes
(`Ln` does round its result in the caller's mode, unlike `Exp`).

Under the decidable condition `LnTapeOK c x tape` (Oracle/LnTapeOK.lean, core Lean, executable; `true` on all
6324 recorded real calls) every delivered finite result satisfies

    |result - ln x| ≤ (ρ + (N+5)/16)·ulp + 9u                                  `C12_ln_accurate`

where `N = lnTermsN c x` is the number of series terms added (0 on the Halley path; `N ≤ 0.4p + 1` on all recorded
calls).  Path by path:

* series paths (`x` or `x·10^-k` within 0.1 of 1):  `(ρ + (N+5)/16)·ulp`                   `C12_ln_accurate_series`
* Halley path:  `(ρ + 1/8)·ulp + 9u`  (`7.1u` for `P ≥ 2`)                                  `C12_ln_accurate_halley`
  - i.e. `(ρ + 23/40)·ulp` when `|result| ≥ 0.1`                                           `C12_ln_halley_ulps`
  - but `(ρ + 37/8)·ulp` when `0.01 ≤ |result| < 0.1`, which on this path means `x ∈ (1.1, e^0.1)`:
    `ln x = ln(x/10) + ln 10` cancels one digit and `P + 2` working digits are one too few.

FINDING (real code, half-even mode): `Ln(1.103146)` at `Precision 4` returns `0.09818`; `ln = 0.0981661`, so the
result is 1.39 ulp off (correctly rounded: `0.09817`).  Likewise `Ln(1.102850)` at `Precision 3` = `0.0980`
(`0.0978977`: 1.02 ulp) and `Ln(1.103923)` at `Precision 12` (1.003 ulp).  All in the cancellation zone above.

The bound needs no assumption on the `float64` estimate: the stopping rule of `loop.done` alone forces the last
iterate to be close (`C12_ln_halley_stop`, `C12_ln_halley_loop`).

Stages: L1 `C12_ln_rescale`, `C12_ln10_cert`, `C12_ln10_table_near`; L2 `C12_ln_series_arg`, `C12_ln_series_round`,
`C12_ln_series_stop`, `C12_ln_halley_stop`; L3 `C12_ln_halley_loop`; L4 `C12_ln_accurate*`.
-/
namespace Apd.Props
open Apd Apd.Oracle Apd.ExpAcc Apd.LnAcc Apd.C12IL Cond

/-! ## L1 -/

/-- L1: the rescaling `x = z·10^e`, `z ∈ [0.1, 1)`, `ln x = ln z + e·ln 10` -/
theorem C12_ln_rescale (x : Dec) (hx : PosFin x) :
    1 / 10 ≤ rv (lnZ x) ∧ rv (lnZ x) < 1 ∧
    Real.log (rv x) = Real.log (rv (lnZ x)) + (lnExpDelta x : ℝ) * Real.log 10 :=
  ⟨(lnZ_range x hx).1, (lnZ_range x hx).2, log_scale x hx⟩

/-- L1: the digit string of const.go is `ln 10` to 95 digits (kernel evaluation of the verified enclosure) -/
theorem C12_ln10_cert : |(ln10Coeff : ℝ) * (10 : ℝ) ^ ln10Exp - Real.log 10| ≤ (10 : ℝ) ^ (-(95 : ℤ)) := ln10_cert

/-- L1: the pre-rounded table entry used at working precision `3 ≤ p ≤ 90` -/
theorem C12_ln10_table_near (p : Nat) (hp1 : 3 ≤ p) (hp : p ≤ 90) :
    (ln10At p).form = .finite ∧ |rv (ln10At p) - Real.log 10| ≤ 1001 / 1000 * uR p := ln10At_near p hp1 hp

/-! ## L2 -/

/-- L2 (series): the argument `ŷ = w/(w+2)` computed with three rounded operations -/
theorem C12_ln_series_arg (zr w t3 yh δw δa δq u : ℝ) (hu : 0 ≤ u) (hu1 : u ≤ 1 / 200)
    (hδw : |δw| ≤ u) (hδa : |δa| ≤ u) (hδq : |δq| ≤ u)
    (hw : w = (zr - 1) * (1 + δw)) (ht3 : t3 = (w + 2) * (1 + δa)) (hyh : yh = w / t3 * (1 + δq))
    (hw10 : |w| ≤ 1 / 10) :
    |yh| ≤ 1 / 18 ∧ |L2 yh - Real.log zr| ≤ 338 / 100 * u * |Real.log zr| ∧ |L2 yh| ≤ 1017 / 1000 * |Real.log zr| :=
  series_arg zr w t3 yh δw δa δq u hu hu1 hδw hδa hδq hw ht3 hyh hw10

/-- L2 (series): one round of `tmp3 *= y²; tmp4 = tmp3/(2n+1); tmp1 += tmp4` with perturbed operations keeps
`|ŝ - S_{m+2}| ≤ u·|2 atanh y|·(1+u)^(m+1)·(m + 2 + c_{m+1})`, `c_k = Σ_{j≤k} 100^-j` -/
theorem C12_ln_series_round (y u Th sh α β γ ε : ℝ) (m : ℕ) (hy : |y| ≤ 1 / 18) (hu : 0 ≤ u) (hu1 : u ≤ 1 / 200)
    (hα : |α| ≤ u) (hβ : |β| ≤ u) (hγ : |γ| ≤ u) (hε : |ε| ≤ u)
    (hT : RelW (((2 * m + 1 : ℕ) : ℝ) * (u / (1 - u))) (2 * y ^ (2 * m + 1)) Th)
    (hs : |sh - lsum y (m + 1)| ≤ u * |L2 y| * (1 + u) ^ m * ((m : ℝ) + 1 + cc m)) :
    RelW (((2 * m + 3 : ℕ) : ℝ) * (u / (1 - u))) (2 * y ^ (2 * m + 3)) (Th * y * (1 + α) * y * (1 + β)) ∧
    RelW (((2 * m + 4 : ℕ) : ℝ) * (u / (1 - u))) (lterm y (m + 1))
      (Th * y * (1 + α) * y * (1 + β) / ((2 * (m + 1) + 1 : ℕ) : ℝ) * (1 + γ)) ∧
    |(sh + Th * y * (1 + α) * y * (1 + β) / ((2 * (m + 1) + 1 : ℕ) : ℝ) * (1 + γ)) * (1 + ε) - lsum y (m + 2)| ≤
      u * |L2 y| * (1 + u) ^ (m + 1) * ((m : ℝ) + 2 + cc (m + 1)) :=
  series_step y u Th sh α β γ ε m hy hu hu1 hα hβ hγ hε hT hs

/-- L2 (series): the stopping rule `|tmp4| ≤ 10^-p = u/5` -/
theorem C12_ln_series_stop (y u sh qh : ℝ) (m : ℕ) (hy : |y| ≤ 1 / 18) (hu : 0 ≤ u) (hu1 : u ≤ 1 / 200)
    (hk : ((2 * m + 4 : ℕ) : ℝ) * (u / (1 - u)) ≤ 1 / 5)
    (hq : RelW (((2 * m + 4 : ℕ) : ℝ) * (u / (1 - u))) (lterm y (m + 1)) qh)
    (hstop : |qh| ≤ u / 5)
    (hs : |sh - lsum y (m + 2)| ≤ u * |L2 y| * (1 + u) ^ (m + 1) * ((m : ℝ) + 2 + cc (m + 1))) :
    |sh - L2 y| ≤ u * |L2 y| * ((1 + u) ^ (m + 1) * ((m : ℝ) + 2 + 1 / 99) + 7 / 1000) :=
  series_final y u sh qh m hy hu hu1 hk hq hstop hs

/-- L2/L3 (Halley): the last round under the stopping rule, as a statement about real numbers.  `E` is the
inner `Exp` result (`e^{-ω} ≤ E/exp a ≤ e^{ω}`), the five operations of the round are perturbed by `(1+δᵢ)`,
the test `|rnd(a - a')| ≤ 10^-P |a'| = 20u|a'|` passed and `|a'| ≤ 3`: then `a'` is within
`ω + u(1.00503|a'| + 266u + 23300u²)` of `ln z` — no assumption on `a` -/
theorem C12_ln_halley_stop (z a E ω δ1 δ2 δ3 δ4 δ5 δ6 u : ℝ) (hz : 0 < z) (hu : 0 ≤ u) (hu1 : u ≤ 1 / 200)
    (hE : LogNear ω (Real.exp a) E)
    (h1 : |δ1| ≤ u) (h2 : |δ2| ≤ u) (h3 : |δ3| ≤ u) (h4 : |δ4| ≤ u) (h5 : |δ5| ≤ u) (h6 : |δ6| ≤ u)
    (a' : ℝ)
    (ha' : a' = (a - ((E - z) * (1 + δ1) + (E - z) * (1 + δ1)) * (1 + δ2) / ((E + z) * (1 + δ3)) * (1 + δ4)) * (1 + δ5))
    (hstop : |(a - a') * (1 + δ6)| ≤ 20 * u * |a'|) (hbound : |a'| ≤ 3) :
    |a' - Real.log z| ≤ ω + u * (100503 / 100000 * |a'| + 266 * u + 23300 * u ^ 2) :=
  halley_stop z a E ω δ1 δ2 δ3 δ4 δ5 δ6 u hz hu hu1 hE h1 h2 h3 h4 h5 h6 a' ha' hstop hbound

/-! ## L3 -/

/-- L3 on the model: an adequate run of `lnHalley` that ends with `loop.done` returns an iterate `t`, `|t| ≤ 3`,
within `halB p t = omegaE p + u(1.00503|t| + 266u + 23300u²)` of `ln z`, whatever the starting estimate -/
theorem C12_ln_halley_loop (nc : Ctx) (hw : Wide nc) (hm : nc.mode = .halfEven) (hp : 3 ≤ nc.prec)
    (prec : Int) (hprec : prec = (nc.prec : Int) - 1) (maxIter : Nat) (z : Dec) (hzf : z.form = .finite)
    (hz0 : 0 < rv z) (fuel : Nat) (e : ED) (tmp1 : Dec) (l : LoopSt) (tape : Tape) (hc : e.c = nc)
    (hl : 1 ≤ l.i → l.prevZ = tmp1) (hok : lnHalleyOK nc prec maxIter z fuel e tmp1 l tape = true)
    (e' : ED) (t : Dec) (tape' : Tape)
    (h : lnHalley nc prec maxIter z fuel e tmp1 l tape = some (e', .inr t, tape')) (hnf : e'.failed = false) :
    e'.c = nc ∧ t.form = .finite ∧ |rv t| ≤ 3 ∧ |rv t - Real.log (rv z)| ≤ halB nc.prec (rv t) :=
  halley_loop nc hw hm hp prec hprec maxIter z hzf hz0 fuel e tmp1 l tape hc hl hok e' t tape' h hnf

/-! ## L4 -/

theorem posFin_of_ok (c : Ctx) (x : Dec) (tape : Tape) (hok : LnTapeOK c x tape = true) :
    PosFin x ∧ 1 ≤ c.prec ∧ c.prec + 2 ≤ 100000 := by
  unfold LnTapeOK at hok
  simp only [Bool.and_eq_true, beq_iff_eq, Bool.not_eq_true', bne_iff_ne, ne_eq, decide_eq_true_eq] at hok
  obtain ⟨⟨⟨⟨⟨h1, h2⟩, h3⟩, h4⟩, h5⟩, _⟩ := hok
  exact ⟨⟨h1, h2, h3⟩, h4, h5⟩

/-- L4, the series paths: `(ρ + (N+5)/16)` units in the last place, `N = lnTermsN c x` -/
theorem C12_ln_accurate_series (c : Ctx) (hc : c.WF) (x : Dec) (tape r' : Tape) (o : Out)
    (hok : LnTapeOK c x tape = true) (hsp : logSpecials c x = none)
    (hser : (lnA1 c x).2.absD.cmp lnTenth ≤ 0 ∨ (lnA3 c x).2.absD.cmp lnTenth ≤ 0)
    (h : lnT c x tape = some (o, r')) (hd : DeliveredT c o) (hf : o.d.form = .finite) :
    |rv o.d - Real.log (rv x)| ≤
      (((rhoMode c.mode : ℚ) : ℝ) + ((lnTermsN c x : ℕ) + 5 : ℝ) / 16) * (10 : ℝ) ^ (ulpOf c o.d).e := by
  obtain ⟨hx, _, hp2⟩ := posFin_of_ok c x tape hok
  unfold lnTermsN
  by_cases h0 : (lnA1 c x).2.absD.cmp lnTenth ≤ 0
  · rw [if_pos h0]
    exact ln_path_S0 c hc x hx hp2 hsp h0 tape r' o h hd hf
  · rw [if_neg h0]
    have h1 : (lnA3 c x).2.absD.cmp lnTenth ≤ 0 := by
      rcases hser with h | h
      · exact absurd h h0
      · exact h
    rw [if_pos h1]
    have hp90 : lnExpDelta x = 0 ∨ c.prec + 2 ≤ 90 := by
      unfold LnTapeOK at hok
      simp only [Bool.and_eq_true] at hok
      have := hok.2
      rw [if_neg h0] at this
      simp only [Bool.and_eq_true, Bool.or_eq_true, beq_iff_eq, decide_eq_true_eq] at this
      exact this.1
    exact ln_path_S1 c hc x hx hp2 hp90 hsp h0 h1 tape r' o h hd hf

/-- L4, the Halley path: `(ρ + 1/8)·ulp + 9u`, `u = 10^(-P-1)/2` -/
theorem C12_ln_accurate_halley (c : Ctx) (hc : c.WF) (x : Dec) (tape r' : Tape) (o : Out)
    (hok : LnTapeOK c x tape = true) (hsp : logSpecials c x = none)
    (h0 : ¬ (lnA1 c x).2.absD.cmp lnTenth ≤ 0) (h1 : ¬ (lnA3 c x).2.absD.cmp lnTenth ≤ 0)
    (h : lnT c x tape = some (o, r')) (hd : DeliveredT c o) (hf : o.d.form = .finite) :
    |rv o.d - Real.log (rv x)| ≤
      (((rhoMode c.mode : ℚ) : ℝ) + 1 / 8) * (10 : ℝ) ^ (ulpOf c o.d).e + 9 * uR (c.prec + 2) ∧
    (2 ≤ c.prec → |rv o.d - Real.log (rv x)| ≤
      (((rhoMode c.mode : ℚ) : ℝ) + 1 / 8) * (10 : ℝ) ^ (ulpOf c o.d).e + 71 / 10 * uR (c.prec + 2)) := by
  obtain ⟨hx, hc1, hp2⟩ := posFin_of_ok c x tape hok
  unfold LnTapeOK at hok
  simp only [Bool.and_eq_true] at hok
  have hrest := hok.2
  rw [if_neg h0] at hrest
  simp only [Bool.and_eq_true, Bool.or_eq_true, beq_iff_eq, decide_eq_true_eq] at hrest
  obtain ⟨hp90, hH⟩ := hrest
  rw [if_neg h1] at hH
  match tape, hH, h with
  | .est d :: tape', hH, h =>
    have hu1 : uR (c.prec + 2) ≤ 1 / 200 := uR_small _ (by omega)
    have hu0 := uR_pos (c.prec + 2)
    constructor
    · refine ln_path_H c hc x hx hp2 hp90 hsp h0 h1 d tape' r' o hH h hd hf (19125 / 10000) 9 ?_ (by norm_num) (by norm_num)
      nlinarith
    · intro hP2
      have hu2 : uR (c.prec + 2) ≤ 1 / 2000 := by
        rw [uR_eq]
        have : (10 : ℝ) ^ 4 ≤ (10 : ℝ) ^ (c.prec + 2) := pow_le_pow_right₀ (by norm_num) (by omega)
        rw [div_le_div_iff₀ (by positivity) (by norm_num)]
        nlinarith
      refine ln_path_H c hc x hx hp2 hp90 hsp h0 h1 d tape' r' o hH h hd hf (139 / 1000) (71 / 10) ?_ (by norm_num) (by norm_num)
      nlinarith
  | [], hH, _ => simp at hH
  | .cp _ :: _, hH, _ => simp at hH
  | .n _ :: _, hH, _ => simp at hH

/-- when the result is at least `0.1` in magnitude, `u ≤ ulp/20` -/
theorem u_le_ulp (c : Ctx) (d : Dec) (hadj : -1 ≤ (ndigits d.coeff : Int) - 1 + d.exp) :
    uR (c.prec + 2) ≤ 1 / 20 * (10 : ℝ) ^ (ulpOf c d).e := by
  have h1 : (-(c.prec : ℤ)) ≤ (ulpOf c d).e := by
    show (-(c.prec : ℤ)) ≤ max ((ndigits d.coeff : Int) - 1 + d.exp - (c.prec : Int) + 1) (c.emin - (c.prec : Int) + 1)
    apply le_trans _ (le_max_left _ _); omega
  have h2 : (10 : ℝ) ^ (-(c.prec : ℤ)) ≤ (10 : ℝ) ^ (ulpOf c d).e := zpow_le_zpow_right₀ (by norm_num) h1
  have h3 : uR (c.prec + 2) = 1 / 20 * (10 : ℝ) ^ (-(c.prec : ℤ)) := by
    rw [uR_eq, zpow_neg, zpow_natCast, pow_add]; field_simp; norm_num
  rw [h3]; linarith

/-- Halley path, result of magnitude at least `0.1`: `(ρ + 23/40)` ulp (1.075 ulp in the half modes) -/
theorem C12_ln_halley_ulps (c : Ctx) (hc : c.WF) (x : Dec) (tape r' : Tape) (o : Out)
    (hok : LnTapeOK c x tape = true) (hsp : logSpecials c x = none)
    (h0 : ¬ (lnA1 c x).2.absD.cmp lnTenth ≤ 0) (h1 : ¬ (lnA3 c x).2.absD.cmp lnTenth ≤ 0)
    (h : lnT c x tape = some (o, r')) (hd : DeliveredT c o) (hf : o.d.form = .finite)
    (hadj : -1 ≤ (ndigits o.d.coeff : Int) - 1 + o.d.exp) :
    |rv o.d - Real.log (rv x)| ≤ (((rhoMode c.mode : ℚ) : ℝ) + 23 / 40) * (10 : ℝ) ^ (ulpOf c o.d).e := by
  have := (C12_ln_accurate_halley c hc x tape r' o hok hsp h0 h1 h hd hf).1
  have hu := u_le_ulp c o.d hadj
  linarith

/-- … and of magnitude in `[0.01, 0.1)` (`x ∈ (1.1, e^0.1)`: one digit is lost to cancellation): `(ρ + 37/8)` ulp -/
theorem C12_ln_halley_ulps_small (c : Ctx) (hc : c.WF) (x : Dec) (tape r' : Tape) (o : Out)
    (hok : LnTapeOK c x tape = true) (hsp : logSpecials c x = none)
    (h0 : ¬ (lnA1 c x).2.absD.cmp lnTenth ≤ 0) (h1 : ¬ (lnA3 c x).2.absD.cmp lnTenth ≤ 0)
    (h : lnT c x tape = some (o, r')) (hd : DeliveredT c o) (hf : o.d.form = .finite)
    (hadj : -2 ≤ (ndigits o.d.coeff : Int) - 1 + o.d.exp) :
    |rv o.d - Real.log (rv x)| ≤ (((rhoMode c.mode : ℚ) : ℝ) + 37 / 8) * (10 : ℝ) ^ (ulpOf c o.d).e := by
  have := (C12_ln_accurate_halley c hc x tape r' o hok hsp h0 h1 h hd hf).1
  have h1' : (-(c.prec : ℤ)) - 1 ≤ (ulpOf c o.d).e := by
    show (-(c.prec : ℤ)) - 1 ≤ max ((ndigits o.d.coeff : Int) - 1 + o.d.exp - (c.prec : Int) + 1) (c.emin - (c.prec : Int) + 1)
    apply le_trans _ (le_max_left _ _); omega
  have h2 : (10 : ℝ) ^ ((-(c.prec : ℤ)) - 1) ≤ (10 : ℝ) ^ (ulpOf c o.d).e := zpow_le_zpow_right₀ (by norm_num) h1'
  have h3 : uR (c.prec + 2) = 1 / 2 * (10 : ℝ) ^ ((-(c.prec : ℤ)) - 1) := by
    rw [uR_eq, zpow_sub₀ (by norm_num : (10 : ℝ) ≠ 0), zpow_neg, zpow_natCast, pow_add]; field_simp; norm_num
  rw [h3] at this; linarith

/-- L4. `Context.Ln` on the tape model, every operand, context and rounding mode, every tape with `LnTapeOK`:
a delivered finite result is within `(ρ + (N+5)/16)·ulp + 9u` of `ln x` -/
theorem C12_ln_accurate (c : Ctx) (hc : c.WF) (x : Dec) (tape r' : Tape) (o : Out)
    (hok : LnTapeOK c x tape = true)
    (h : lnT c x tape = some (o, r')) (he : o.err = .none) (hf : o.d.form = .finite) :
    |((o.d.toRat : ℚ) : ℝ) - Real.log ((x.toRat : ℚ) : ℝ)| ≤
      (((rhoMode c.mode : ℚ) : ℝ) + ((lnTermsN c x : ℕ) + 5 : ℝ) / 16) * (10 : ℝ) ^ (ulpOf c o.d).e +
        9 * ((10 : ℝ) ^ (-(c.prec : ℤ) - 1) / 2) := by
  obtain ⟨hx, hc1, hp2⟩ := posFin_of_ok c x tape hok
  have hd : DeliveredT c o := Or.inl he
  have hu9 : (0 : ℝ) ≤ 9 * ((10 : ℝ) ^ (-(c.prec : ℤ) - 1) / 2) := by positivity
  have hρ := rhoMode_nonneg c.mode
  cases hsp : logSpecials c x with
  | some o' =>
    -- a positive finite operand: only `x = 1`, result `0`
    unfold lnT at h
    rw [hsp] at h
    simp only [Option.some.injEq, Prod.mk.injEq] at h
    obtain ⟨rfl, _⟩ := h
    unfold logSpecials at hsp
    have n1 : shouldSetAsNaN x none = false := by simp [shouldSetAsNaN, Dec.isNaN, hx.fin]
    have hs : ¬ x.sign < 0 := by
      unfold Dec.sign; rw [hx.fin, hx.pos]; simp; split <;> omega
    have n3 : (x.form == Form.infinite) = false := by rw [hx.fin]; rfl
    simp only [n1, hs, n3, Bool.false_eq_true, if_false] at hsp
    split_ifs at hsp with a b
    · simp only [Option.some.injEq] at hsp; subst hsp; simp [decInf] at hf
    · simp only [Option.some.injEq] at hsp; subst hsp
      have hb : x.cmp decOne = 0 := by simpa using b
      have hone := cmp_zero_toRat x decOne hx.fin rfl hb
      have e1 : ((x.toRat : ℚ) : ℝ) = 1 := by
        rw [hone]; unfold Dec.toRat decOne; simp
      have e0 : (((decZero : Dec).toRat : ℚ) : ℝ) = 0 := by unfold Dec.toRat decZero; simp
      show |(((decZero : Dec).toRat : ℚ) : ℝ) - _| ≤ _
      rw [e1, e0, Real.log_one, sub_zero, abs_zero]
      positivity
  | none =>
    have huR : uR (c.prec + 2) = (10 : ℝ) ^ (-(c.prec : ℤ) - 1) / 2 := by
      unfold uR; congr 2; push_cast; ring
    by_cases hser : (lnA1 c x).2.absD.cmp lnTenth ≤ 0 ∨ (lnA3 c x).2.absD.cmp lnTenth ≤ 0
    · have := C12_ln_accurate_series c hc x tape r' o hok hsp hser h hd hf
      show |rv o.d - Real.log (rv x)| ≤ _
      linarith
    · have hs1 : ¬ (lnA1 c x).2.absD.cmp lnTenth ≤ 0 := fun hh => hser (Or.inl hh)
      have hs2 : ¬ (lnA3 c x).2.absD.cmp lnTenth ≤ 0 := fun hh => hser (Or.inr hh)
      have hH := (C12_ln_accurate_halley c hc x tape r' o hok hsp hs1 hs2 h hd hf).1
      show |rv o.d - Real.log (rv x)| ≤ _
      rw [← huR]
      have hN : (0 : ℝ) ≤ ((lnTermsN c x : ℕ) : ℝ) := by positivity
      have hpow : (0 : ℝ) < (10 : ℝ) ^ (ulpOf c o.d).e := zpow_pos (by norm_num) _
      have : (((rhoMode c.mode : ℚ) : ℝ) + 1 / 8) * (10 : ℝ) ^ (ulpOf c o.d).e ≤
          (((rhoMode c.mode : ℚ) : ℝ) + ((lnTermsN c x : ℕ) + 5 : ℝ) / 16) * (10 : ℝ) ^ (ulpOf c o.d).e := by
        apply mul_le_mul_of_nonneg_right _ hpow.le
        linarith
      linarith

/-! ## `LnTapeOK` on real tapes, and the finding

`LnTapeOK` was evaluated (scratch/LnTapeOK_recorded.lean) on all 6324 `ln` calls recorded by the harness in
`/verif/work/lines_C12_translog.txt` with a nil error and a finite result: `true` for all (2725 series, 3599 Halley);
the number of series terms never exceeded `0.4·(P+2) + 1`.  Kernel-checked instances, with the tapes the Go code
really produced (hook `VerifTape`): -/

def lnCtx (p : Nat) : Ctx := { prec := p, emax := 100000, emin := -100000, mode := .halfEven }

/-- `ln 2` at 5 digits -/
example : LnTapeOK (lnCtx 5) { coeff := 2 }
    [.est { neg := true, coeff := 16094379124341003, exp := -16 }, .cp 7, .n 8, .cp 7, .n 8] = true := by decide +kernel
example : (lnT (lnCtx 5) { coeff := 2 }
    [.est { neg := true, coeff := 16094379124341003, exp := -16 }, .cp 7, .n 8, .cp 7, .n 8]).map
    (fun p => (p.1.d, p.1.err, p.2.length)) = some ({ coeff := 69315, exp := -5 }, .none, 0) := by decide +kernel
/-- a series call: `ln 1.05` at 7 digits adds 3 terms -/
example : LnTapeOK (lnCtx 7) { coeff := 105, exp := -2 } [] = true ∧ lnTermsN (lnCtx 7) { coeff := 105, exp := -2 } = 3 := by
  decide +kernel
/-- THE FINDING, on the model with the real tape: `Ln(1.103146)` at `Precision 4`, half-even, is `0.09818`;
`ln 1.103146 = 0.09816609778…`, one ulp is `0.00001`: 1.39 ulp off.  The tape is adequate (`LnTapeOK`), the result
`0.09818` is below `0.1`, and `C12_ln_halley_ulps_small` allows up to `(1/2 + 37/8)` ulp there. -/
example : LnTapeOK (lnCtx 4) { coeff := 1103146, exp := -6 }
    [.est { neg := true, coeff := 22044189952085236, exp := -16 }, .cp 6, .n 8, .cp 6, .n 8] = true := by decide +kernel
example : (lnT (lnCtx 4) { coeff := 1103146, exp := -6 }
    [.est { neg := true, coeff := 22044189952085236, exp := -16 }, .cp 6, .n 8, .cp 6, .n 8]).map
    (fun p => (p.1.d, p.1.err, p.2.length)) = some ({ coeff := 9818, exp := -5 }, .none, 0) := by decide +kernel

end Apd.Props

#print axioms Apd.Props.C12_ln_rescale
#print axioms Apd.Props.C12_ln10_cert
#print axioms Apd.Props.C12_ln10_table_near
#print axioms Apd.Props.C12_ln_series_arg
#print axioms Apd.Props.C12_ln_series_round
#print axioms Apd.Props.C12_ln_series_stop
#print axioms Apd.Props.C12_ln_halley_stop
#print axioms Apd.Props.C12_ln_halley_loop
#print axioms Apd.Props.C12_ln_accurate_series
#print axioms Apd.Props.C12_ln_accurate_halley
#print axioms Apd.Props.C12_ln_halley_ulps
#print axioms Apd.Props.C12_ln_halley_ulps_small
#print axioms Apd.Props.C12_ln_accurate
