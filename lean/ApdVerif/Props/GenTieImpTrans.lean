import ApdVerif.Gen.ImpTrans
import ApdVerif.Imp.TransOps
import ApdVerif.Props.GenTieImp
import ApdVerif.Lemmas.C05TransLemmas
/-!
# Regenerated tie, store level, composite functions: the programs of `ApdVerif/Gen/ImpTrans.lean` (written by
harness/cmd/xlate, group `imptrans`, from the Go source) behave exactly like the hand-written programs of
`Imp/TransOps.lean`: same result and same final heap, for every heap and every aliasing of the cells.
-/
set_option linter.unusedSimpArgs false
namespace Apd.Props
open Apd Apd.Imp Apd.Cond Apd.Gen.ImpG

theorem tmod_two_eq_zero (f : Int) : (Int.tmod f 2 == 0) = (f % 2 == 0) := by
  have h1 : Int.tmod f 2 = 0 ↔ f % 2 = 0 := by
    rw [← Int.dvd_iff_tmod_eq_zero, Int.dvd_iff_emod_eq_zero]
  by_cases h : f % 2 = 0
  · rw [h1.2 h, h]
  · have : ¬ Int.tmod f 2 = 0 := fun e => h (h1.1 e)
    rw [beq_eq_false_iff_ne.2 this, beq_eq_false_iff_ne.2 h]

/-! ## `rootSpecials`, `logSpecials` -/

theorem GenTieImpT_Context_rootSpecials (c : Ctx) (d : Cell) (x : Src) (factor : Int) (h : Heap) :
    run (Context_rootSpecials c d x factor) h =
      run (rootSpecialsP c d x factor >>= fun o => pure (specialsRes o)) h := by
  unfold Context_rootSpecials rootSpecialsP
  simp only [run_bind, run_ite, run_pure, GenTieImp_Context_shouldSetAsNaN, GenTieImp_Context_setAsNaN,
    GenTieImp_Context_goError, GenTieImp_Decimal_Set, GenTieImp_Decimal_Sign, GenTieImp_Context_round,
    run_signP, run_rdNeg, run_rdForm, run_rdExp, run_wrExp, run_setDec, ite_pair_heap, run_shouldSetAsNaNP,
    Src.val_cell, Heap.set_same, Heap.set_set, decimalNaN, decNaN, Src.val_const, specialsRes, tmod_two_eq_zero]
  split_ifs <;> simp_all

theorem GenTieImpT_Context_logSpecials (c : Ctx) (d : Cell) (x : Src) (h : Heap) :
    run (Context_logSpecials c d x) h = run (logSpecialsP c d x >>= fun o => pure (specialsRes o)) h := by
  unfold Context_logSpecials logSpecialsP
  have hz : decimalZero = decZero := rfl
  have ho : decimalOne = decOne := rfl
  simp only [run_bind, run_ite, run_pure, GenTieImp_Context_shouldSetAsNaN, GenTieImp_Context_setAsNaN,
    GenTieImp_Context_goError, GenTieImp_Decimal_Set, GenTieImp_Decimal_Sign, GenTieImp_Decimal_Cmp, run_cmpP,
    run_signP, run_rdNeg, run_rdForm, run_wrNeg, run_setDec, ite_pair_heap, run_shouldSetAsNaNP,
    Src.val_cell, Heap.set_same, Heap.set_set, decimalNaN, decNaN, decimalInfinity, decInf, hz, ho, Src.val_const,
    specialsRes, decide_eq_true_eq]
  split_ifs <;> simp_all

/-! ## `sqrtSettle` (its arguments `approx`, `x` are locals of `Sqrt` at the only call site: values) -/

theorem GenTieImpT_sqrtSettle (nc : Ctx) (d : Cell) (approx x : Dec) (h : Heap) :
    run (Apd.Gen.ImpG.sqrtSettle nc d approx x) h = run (sqrtSettleP nc d approx x) h := by
  unfold Apd.Gen.ImpG.sqrtSettle sqrtSettleP sqrtSettleT
  generalize hb10 : Gen.bigTen = b10
  generalize hb5 : Gen.bigFive = b5
  generalize hb1 : Gen.bigOne = b1
  have e10 : b10 = 10 := by rw [← hb10]; rfl
  have e5 : b5 = 5 := by rw [← hb5]; rfl
  have e1 : b1 = 1 := by rw [← hb1]; rfl
  subst e10 e5 e1
  simp only [GenTieImp_Condition_Inexact, GenTieImp_Condition_Subnormal]
  generalize ctxRound { nc with mode := Mode.down } approx = dn
  have hnd : ((ndigits dn.1.coeff : Int) != (nc.prec : Int)) = (ndigits dn.1.coeff != nc.prec) := by
    by_cases e : ndigits dn.1.coeff = nc.prec
    · simp [e]
    · have : ¬ ((ndigits dn.1.coeff : Int) = (nc.prec : Int)) := by omega
      have a : ((ndigits dn.1.coeff : Int) != (nc.prec : Int)) = true := by rw [bne_iff_ne]; exact this
      have b : (ndigits dn.1.coeff != nc.prec) = true := by rw [bne_iff_ne]; exact e
      rw [a, b]
  by_cases h1 : (!dn.2.inexact || dn.1.form != Form.finite ||
      (ndigits dn.1.coeff != nc.prec && !dn.2.subnormal)) = true
  · have h1' := h1
    rw [← hnd] at h1'
    simp only [h1, h1', if_true]
  · have h1' := h1
    rw [← hnd] at h1'
    simp only [h1, h1', Bool.false_eq_true, if_false]
    by_cases h2 : (Dec.cmp { exp := 2 * (dn.1.exp - 1), coeff := (dn.1.coeff * 10 + 5) * (dn.1.coeff * 10 + 5) } x < 0 ∨
        Dec.cmp { exp := 2 * (dn.1.exp - 1), coeff := (dn.1.coeff * 10 + 5) * (dn.1.coeff * 10 + 5) } x = 0 ∧
          dn.1.coeff % 2 = 1)
    · by_cases h3 : ndigits (dn.1.coeff + 1) > nc.prec
      · have h3' : (ndigits (dn.1.coeff + 1) : Int) > (nc.prec : Int) := by omega
        simp [h2, h3, h3', GenTieImp_Decimal_Cmp, GenTieImp_Context_round, Gen.bigTen, Gen.bigFive, Gen.bigOne]
      · have h3' : ¬ (ndigits (dn.1.coeff + 1) : Int) > (nc.prec : Int) := by omega
        simp [h2, h3, h3', GenTieImp_Decimal_Cmp, GenTieImp_Context_round, Gen.bigTen, Gen.bigFive, Gen.bigOne]
    · simp [h2, GenTieImp_Decimal_Cmp, GenTieImp_Context_round, Gen.bigTen, Gen.bigFive, Gen.bigOne]

/-! ## `ErrDecimal`: the struct is a value `ED`; `Err()` stores the error it reports -/

theorem GenTieImpT_Condition_SystemOverflow (r : Cond) : Condition_SystemOverflow r = r.sysOverflow := by
  unfold Condition_SystemOverflow
  rw [cond_ne_zero_any]
  simp [HAnd.hAnd, AndOp.and, Cond.and, Cond.any, Cond.cSysOverflow]

theorem GenTieImpT_Condition_negateOverflowFlags (r : Cond) :
    Condition_negateOverflowFlags r = r.negateOverflowFlags := by
  unfold Condition_negateOverflowFlags Cond.negateOverflowFlags
  simp only [GenTieImp_Condition_Overflow, GenTieImpT_Condition_SystemOverflow]
  rcases r with ⟨b0, b1, b2, b3, b4, b5, b6, b7, b8, b9, b10, b11⟩
  cases b0 <;> cases b2 <;>
    simp [HAnd.hAnd, AndOp.and, Cond.and, HOr.hOr, OrOp.or, Cond.or, condNot, Cond.cOverflow, Cond.cUnderflow,
      Cond.cSubnormal, Cond.cSysOverflow, Cond.cSysUnderflow]

theorem GenTieImpT_MakeErrDecimal (c : Ctx) : MakeErrDecimal c = { c := c } := rfl

/-- what `Err()` leaves in the struct: the error it returned -/
def edNrm (e : ED) : ED := { e with err := e.errOf }

theorem GenTieImpT_ErrDecimal_Err (e : ED) : ErrDecimal_Err e = (e.errOf, edNrm e) := by
  unfold ErrDecimal_Err ED.errOf edNrm ED.errOf
  by_cases h : e.err = ErrKind.none
  · simp [h, GenTieImp_Context_goError]
  · simp [h]

theorem edNrm_of_not_failed (e : ED) (h : e.failed = false) : edNrm e = e := by
  unfold ED.failed at h
  unfold edNrm ED.errOf
  rw [Bool.or_eq_false_iff] at h
  have h1 : e.err = ErrKind.none := by simpa using h.1
  have h2 : goError e.c.traps e.fl = ErrKind.none := by simpa using h.2
  cases e; simp_all

theorem errOf_eq_none_iff (e : ED) : (e.errOf != ErrKind.none) = e.failed := by
  unfold ED.errOf ED.failed
  by_cases h : e.err = ErrKind.none <;> simp [h]

theorem GenTieImpT_ErrDecimal_update (e : ED) (res : Cond) (err : ErrKind) :
    ErrDecimal_update e res err = { e with fl := e.fl ||| res, err := err } := rfl

/-- `ed.Mul(d, x, y)` with a heap destination: `edStepCellP`, except that a failed `ErrDecimal` stores its error -/
theorem GenTieImpT_ErrDecimal_Mul (e : ED) (d : Cell) (x y : Src) (h : Heap) :
    run (ErrDecimal_Mul e d x y) h =
      if e.failed then (edNrm e, h) else run (edStepCellP e (fun cc => mulP cc d x y)) h := by
  unfold ErrDecimal_Mul edStepCellP
  simp only [GenTieImpT_ErrDecimal_Err, errOf_eq_none_iff, GenTieImpT_ErrDecimal_update]
  by_cases hf : e.failed = true
  · simp [hf]
  · have hf' : e.failed = false := by simpa using hf
    simp [hf', edNrm_of_not_failed e hf', GenTieImp_Context_Mul, dropAux]

theorem GenTieImpT_ErrDecimal_Quo (e : ED) (d : Cell) (x y : Src) (h : Heap) :
    run (ErrDecimal_Quo e d x y) h =
      if e.failed then (edNrm e, h) else run (edStepCellP e (fun cc => quoP cc d x y)) h := by
  unfold ErrDecimal_Quo edStepCellP
  simp only [GenTieImpT_ErrDecimal_Err, errOf_eq_none_iff, GenTieImpT_ErrDecimal_update]
  by_cases hf : e.failed = true
  · simp [hf]
  · have hf' : e.failed = false := by simpa using hf
    simp [hf', edNrm_of_not_failed e hf', GenTieImp_Context_Quo, dropAux]

theorem GenTieImpT_ErrDecimal_Abs (e : ED) (d : Cell) (x : Src) (h : Heap) :
    run (ErrDecimal_Abs e d x) h =
      if e.failed then (edNrm e, h) else run (edStepCellP e (fun cc => absP cc d x)) h := by
  unfold ErrDecimal_Abs edStepCellP
  simp only [GenTieImpT_ErrDecimal_Err, errOf_eq_none_iff, GenTieImpT_ErrDecimal_update]
  by_cases hf : e.failed = true
  · simp [hf]
  · have hf' : e.failed = false := by simpa using hf
    simp [hf', edNrm_of_not_failed e hf', GenTieImp_Context_Abs, dropAux]

/-! ## `integerPower` (the loop runs on fuel; the hand-written loop has fuel `log2 |y| + 2`) -/

theorem edNrm_fl (e : ED) : (edNrm e).fl = e.fl := rfl

theorem bigSign_false_pos (b : Nat) : (decide (bigSign false b > 0)) = (b != 0) := by
  unfold bigSign
  by_cases h : b = 0 <;> simp [h]

theorem intPow_loop (neg : Bool) (d : Cell) : ∀ (f g b : Nat) (e : ED) (n : Dec) (h : Heap),
    b < 2 ^ f → f + 1 ≤ g → e.failed = false →
    ∃ (q : ED) (h' : Heap), run (intPowLoopP (f + 1) e b d n) h = (q, h') ∧
      ((q.failed = true ∧ run (Context_integerPower_loop1 neg d g b e n false) h =
          (Sum.inl ((if neg then q.fl.negateOverflowFlags else q.fl), q.errOf), h')) ∨
       (q.failed = false ∧ ∃ n', run (Context_integerPower_loop1 neg d g b e n false) h =
          (Sum.inr (0, q, n', false), h'))) := by
  intro f
  induction f with
  | zero =>
    intro g b e n h hb hg he
    have hb0 : b = 0 := by omega
    subst hb0
    obtain ⟨g', rfl⟩ : ∃ g', g = g' + 1 := ⟨g - 1, by omega⟩
    refine ⟨e, h, by simp [intPowLoopP], Or.inr ⟨he, n, ?_⟩⟩
    simp [Context_integerPower_loop1, bigSign]
  | succ f ih =>
    intro g b e n h hb hg he
    obtain ⟨g', rfl⟩ : ∃ g', g = g' + 1 := ⟨g - 1, by omega⟩
    by_cases hb0 : b = 0
    · subst hb0
      refine ⟨e, h, by simp [intPowLoopP], Or.inr ⟨he, n, ?_⟩⟩
      simp [Context_integerPower_loop1, bigSign]
    · have hb' : b / 2 < 2 ^ f := by rw [Nat.pow_succ] at hb; omega
      have hbne : (b == 0) = false := by simp [hb0]
      -- the state after `if b.Bit(0) == 1 { ed.Mul(z, z, &n) }`, the same in both programs
      obtain ⟨e1, h1, hs1, hg1⟩ : ∃ e1 h1,
          run (if (b % 2 == 1) = true then edStepCellP e (fun cc => mulP cc d (.cell d) (.const n)) else pure e) h
            = (e1, h1) ∧
          run (if (b % 2 == 1) = true then ErrDecimal_Mul e d (Src.cell d) (Src.const n) else pure e) h = (e1, h1) := by
        by_cases hodd : (b % 2 == 1) = true
        · exact ⟨_, _, rfl, by simp only [hodd, if_true, GenTieImpT_ErrDecimal_Mul, he, Bool.false_eq_true, if_false]⟩
        · exact ⟨_, _, rfl, by simp [hodd]⟩
      -- the state after `if b.Sign() > 0 { ed.Mul(&n, &n, &n) }`
      generalize hr2 : (if b / 2 > 0 then e1.step n (fun cc => mulOp cc n n) else (e1, n)) = r2
      have hhand : run (intPowLoopP (f + 1 + 1) e b d n) h =
          if r2.1.failed then (r2.1, h1) else run (intPowLoopP (f + 1) r2.1 (b / 2) d r2.2) h1 := by
        simp only [intPowLoopP, hbne, Bool.false_eq_true, if_false, run_bind, hs1, hr2]
        split <;> simp
      have hgen : run (Context_integerPower_loop1 neg d (g' + 1) b e n false) h =
          if r2.1.failed then
            (Sum.inl ((if neg then r2.1.fl.negateOverflowFlags else r2.1.fl), r2.1.errOf), h1)
          else run (Context_integerPower_loop1 neg d g' (b / 2) r2.1 r2.2 false) h1 := by
        have hstep : run (do
              let t_3 ← ErrDecimal_Mul e d (Src.cell d) (Src.const n)
              have ed : ED := t_3
              pure ed) h = run (ErrDecimal_Mul e d (Src.cell d) (Src.const n)) h := by
          simp only [run_bind, run_pure]
        have hg1' : run (if (b % 2 == 1) = true then (do
              let t_3 ← ErrDecimal_Mul e d (Src.cell d) (Src.const n)
              have ed : ED := t_3
              pure ed) else pure e) h = (e1, h1) := by
          rw [← hg1]; simp only [run_ite, hstep]
        have hbpos : (decide (bigSign false b > 0)) = true := by rw [bigSign_false_pos]; simp [hb0]
        rw [Context_integerPower_loop1]
        simp only [hbpos, if_true, run_bind, hg1', bigRshMag, Bool.false_eq_true, if_false, Nat.pow_one]
        by_cases hp : b / 2 > 0
        · have hp' : (decide (bigSign false (b / 2) > 0)) = true := by
            rw [bigSign_false_pos]; simp; omega
          simp only [hp, if_true] at hr2
          subst hr2
          simp only [hp', if_true, run_bind, run_pure, run_ite, GenTieImpT_ErrDecimal_Err, errOf_eq_none_iff,
            GenTieImpT_Condition_negateOverflowFlags, edNrm_fl, ite_pair_heap]
          by_cases hf : (e1.step n (fun cc => mulOp cc n n)).1.failed = true
          · simp only [hf, if_true]
            cases neg <;> simp [edNrm]
          · have hf' : (e1.step n (fun cc => mulOp cc n n)).1.failed = false := by simpa using hf
            simp only [hf', Bool.false_eq_true, if_false, edNrm_of_not_failed _ hf']
        · have hz : b / 2 = 0 := by omega
          have hp' : (decide (bigSign false (b / 2) > 0)) = false := by
            rw [bigSign_false_pos]; simp [hz]
          simp only [hp, if_false] at hr2
          subst hr2
          simp only [hp', Bool.false_eq_true, if_false, run_bind, run_pure, run_ite, GenTieImpT_ErrDecimal_Err,
            errOf_eq_none_iff, GenTieImpT_Condition_negateOverflowFlags, edNrm_fl, ite_pair_heap]
          by_cases hf : e1.failed = true
          · simp only [hf, if_true]
            cases neg <;> simp [edNrm]
          · have hf' : e1.failed = false := by simpa using hf
            simp only [hf', Bool.false_eq_true, if_false, edNrm_of_not_failed _ hf']
      by_cases hf : r2.1.failed = true
      · refine ⟨r2.1, h1, by rw [hhand]; simp [hf], Or.inl ⟨hf, by rw [hgen]; simp [hf]⟩⟩
      · have hf' : r2.1.failed = false := by simpa using hf
        obtain ⟨q, h', e1', e2'⟩ := ih g' (b / 2) r2.1 r2.2 h1 hb' (by omega) hf'
        refine ⟨q, h', by rw [hhand]; simp [hf', e1'], ?_⟩
        rw [hgen]; simp only [hf', Bool.false_eq_true, if_false]
        exact e2'

theorem run_snapP (x : Src) (h : Heap) : run (snapP x) h = (x.val h, h) := by
  unfold snapP
  simp

theorem GenTieImpT_Context_integerPower (fuel : Nat) (c : Ctx) (d : Cell) (x : Src) (y : Int) (h : Heap)
    (hf : Nat.log2 y.natAbs + 2 ≤ fuel) :
    run (Context_integerPower fuel c d x y) h = run (integerPowerP c d x y) h := by
  unfold Context_integerPower integerPowerP
  have hneg : (decide (bigSign (decide (y < 0)) y.natAbs < 0)) = decide (y < 0) := by
    unfold bigSign
    by_cases hy : y < 0
    · have : y.natAbs ≠ 0 := by omega
      simp [hy, this]
    · simp only [hy, decide_false]
      split <;> simp
  have hone : decimalOne = decOne := rfl
  simp only [hneg, run_bind, run_pure, run_ite, ite_pair_heap, ite_fst, ite_snd, GenTieImp_Decimal_Set_loc0,
    GenTieImp_Decimal_Set, run_setDec, run_snapP, GenTieImpT_MakeErrDecimal, hone, Src.val_const]
  have hsg : (if decide (y < 0) = true then false else decide (y < 0)) = false := by
    by_cases hy : y < 0 <;> simp [hy]
  have hb : (if decide (y < 0) = true then y.natAbs else y.natAbs) = y.natAbs := by split <;> rfl
  simp only [hsg, hb]
  have hlt : y.natAbs < 2 ^ (Nat.log2 y.natAbs + 1) := Nat.lt_log2_self
  have he0 : ({ c := c } : ED).failed = false := by
    simp [ED.failed, goError_zero]
  obtain ⟨q, h', e1, e2⟩ := intPow_loop (decide (y < 0)) d (Nat.log2 y.natAbs + 1) fuel y.natAbs { c := c } (x.val h)
    (h.set d decOne) hlt (by omega) he0
  rw [e1]
  rcases e2 with ⟨hq, e2⟩ | ⟨hq, n', e2⟩
  · rw [e2]; simp [hq]
  · rw [e2]
    simp only [hq, Bool.false_eq_true, if_false, run_bind, run_ite, run_pure, GenTieImpT_ErrDecimal_Quo,
      GenTieImpT_ErrDecimal_Err, edNrm_fl, ite_pair_heap]
    by_cases hy : y < 0
    · simp [hy]
    · simp [hy]

/-! ## `Sqrt` (the Newton loop runs on fuel; the hand-written program uses the model's `sqrtLoop 64`) -/

theorem GenTieImpT_Decimal_SetFinite_loc0 (d0 : Dec) (v e : Int) (h : Heap) :
    run (Decimal_SetFinite_loc0 d0 v e) h =
      ({ form := .finite, neg := decide (v < 0), exp := e, coeff := v.natAbs }, h) := by
  unfold Decimal_SetFinite_loc0 Decimal_setCoefficient_loc0
  simp

theorem ED.step_c (e : ED) (cur : Dec) (op : Ctx → Out) : (e.step cur op).1.c = e.c := by
  unfold ED.step; split <;> rfl

/-- one Newton step does not depend on the previous contents of `tmp` -/
theorem sqrt_step_indep (e : ED) (f approx cur1 cur2 : Dec) :
    let A := fun cur => e.step cur (fun c => quoOp c f approx)
    let B := fun cur => (A cur).1.step (A cur).2 (fun c => addOp c (A cur).2 approx false)
    let C := fun cur => (B cur).1.step approx (fun c => mulOp c (B cur).2 decHalf)
    C cur1 = C cur2 := by
  intro A B C
  simp only [C, B, A]
  unfold ED.step
  by_cases hf : e.failed = true
  · simp [hf]
  · simp [hf]

/-- the Newton loop: `approx` and the `ErrDecimal` are those of the model's `sqrtLoop`, for every fuel of either side
that covers the doublings from `p` to `maxp` -/
theorem sqrt_loop (maxp : Nat) : ∀ (k g f' p : Nat) (approx : Dec) (ed : ED) (f : Dec) (nc : Ctx) (tmp : Dec) (h : Heap),
    3 ≤ p → p ≤ maxp → maxp - 2 ≤ (p - 2) * 2 ^ k → k + 1 ≤ g → k + 1 ≤ f' → ed.c = nc →
    ∃ (q : Nat) (tmp' : Dec), run (Context_Sqrt_loop1 maxp g approx ed f nc p tmp) h =
      (((sqrtLoop f' ed f approx p maxp).2, (sqrtLoop f' ed f approx p maxp).1, f, { nc with prec := q }, maxp, tmp'), h) ∧
      (p = maxp → q = nc.prec) := by
  intro k
  induction k with
  | zero =>
    intro g f' p approx ed f nc tmp h h3 hle hk hg hf hc
    have hp : p = maxp := by simp at hk; omega
    obtain ⟨g', rfl⟩ : ∃ g', g = g' + 1 := ⟨g - 1, by omega⟩
    obtain ⟨f'', rfl⟩ : ∃ f'', f' = f'' + 1 := ⟨f' - 1, by omega⟩
    refine ⟨nc.prec, tmp, ?_, fun _ => rfl⟩
    simp [Context_Sqrt_loop1, sqrtLoop, hp]
  | succ k ih =>
    intro g f' p approx ed f nc tmp h h3 hle hk hg hf hc
    obtain ⟨g', rfl⟩ : ∃ g', g = g' + 1 := ⟨g - 1, by omega⟩
    obtain ⟨f'', rfl⟩ : ∃ f'', f' = f'' + 1 := ⟨f' - 1, by omega⟩
    by_cases hp : p = maxp
    · refine ⟨nc.prec, tmp, ?_, fun _ => rfl⟩
      simp [Context_Sqrt_loop1, sqrtLoop, hp]
    · have hp' : (p != maxp) = true := by simp [hp]
      have hp'' : (p == maxp) = false := by simp [hp]
      have hus : usub (2 * p) 2 = 2 * p - 2 := rfl
      generalize hp1 : (if 2 * p - 2 > maxp then maxp else 2 * p - 2) = p1
      have h31 : 3 ≤ p1 := by rw [← hp1]; split <;> omega
      have hle1 : p1 ≤ maxp := by rw [← hp1]; split <;> omega
      have hk1 : maxp - 2 ≤ (p1 - 2) * 2 ^ k := by
        rw [← hp1]
        have h2k : 1 ≤ 2 ^ k := Nat.one_le_two_pow
        split
        · exact Nat.le_mul_of_pos_right _ (by omega)
        · have : 2 * p - 2 - 2 = (p - 2) * 2 := by omega
          rw [this, Nat.mul_assoc, ← Nat.pow_succ']
          exact hk
      -- the three wrapper calls
      have hind := sqrt_step_indep { ed with c := { nc with prec := p1 } } f approx tmp {}
      simp only at hind
      generalize hr3 : (((({ ed with c := { nc with prec := p1 } } : ED).step ({} : Dec) (fun c => quoOp c f approx)).1.step
          (({ ed with c := { nc with prec := p1 } } : ED).step ({} : Dec) (fun c => quoOp c f approx)).2
          (fun c => addOp c (({ ed with c := { nc with prec := p1 } } : ED).step ({} : Dec) (fun c => quoOp c f approx)).2 approx false)).1.step approx
          (fun c => mulOp c ((({ ed with c := { nc with prec := p1 } } : ED).step ({} : Dec) (fun c => quoOp c f approx)).1.step
          (({ ed with c := { nc with prec := p1 } } : ED).step ({} : Dec) (fun c => quoOp c f approx)).2
          (fun c => addOp c (({ ed with c := { nc with prec := p1 } } : ED).step ({} : Dec) (fun c => quoOp c f approx)).2 approx false)).2 decHalf)) = r3 at hind
      have hc3 : r3.1.c = { nc with prec := p1 } := by
        rw [← hr3]; simp only [ED.step_c]
      have hhand : sqrtLoop (f'' + 1) ed f approx p maxp = sqrtLoop f'' r3.1 f r3.2 p1 maxp := by
        rw [sqrtLoop]
        simp only [hp'', Bool.false_eq_true, if_false, decide_eq_true_eq, hp1, hc, hr3]
      rw [hhand]
      rw [Context_Sqrt_loop1]
      simp only [hp', if_true, hus, run_bind, run_ite, run_pure, ite_pair_heap, ite_fst, ite_snd, decide_eq_true_eq,
        hp1, show decimalHalf = decHalf from rfl]
      simp only [hind]
      generalize (ED.step _ _ _).2 = tmpN
      obtain ⟨q, tmp', e1, _⟩ := ih g' f'' p1 r3.2 r3.1 f { nc with prec := p1 } tmpN h h31 hle1 hk1 (by omega) (by omega) hc3
      exact ⟨q, tmp', by rw [e1], fun e => absurd e hp⟩

/-- when `rootSpecialsP` reports "not special" it has written nothing -/
theorem rootSpecialsP_none (c : Ctx) (d : Cell) (x : Src) (k : Int) (h : Heap)
    (hn : (run (rootSpecialsP c d x k) h).1 = none) : run (rootSpecialsP c d x k) h = (none, h) := by
  unfold rootSpecialsP at hn ⊢
  simp only [run_bind, run_ite, run_pure, run_shouldSetAsNaNP, run_rdForm, run_rdNeg, run_signP, ite_pair_heap]
    at hn ⊢
  split_ifs at hn ⊢ <;> simp_all

/-- the working precision of `Sqrt` -/
def sqrtWorkp (c : Ctx) (nd : Nat) : Nat :=
  let w := c.prec + 1
  let w := if w < nd then nd else w
  if w < 7 then 7 else w

/-- `Sqrt` after the Newton loop: from `ed.Err()` on (`nc` is the working context, whatever its precision) -/
theorem GenTieImpT_Context_Sqrt_k1 (approx : Dec) (c : Ctx) (d : Cell) (e : Int) (ed : ED) (err : ErrKind) (f : Dec)
    (q : Nat) (res : Cond) (h : Heap) :
    run (Context_Sqrt_k1 approx c d e ed err f
      { c with prec := q, mode := .halfEven, emin := -100000, emax := 100000 } res) h =
    run (dropAux (if ed.failed then retErr {} ed.errOf else sqrtFinishP c d approx e f)) h := by
  unfold Context_Sqrt_k1 dropAux
  simp only [GenTieImpT_ErrDecimal_Err, errOf_eq_none_iff]
  by_cases hf : ed.failed = true
  · simp [hf, retErr]
  · have hf' : ed.failed = false := by simpa using hf
    simp only [hf', Bool.false_eq_true, if_false]
    unfold sqrtFinishP sqrtSettleIfP sqrtExactP andFiniteP
    simp only [run_bind, run_ite, run_pure, GenTieImp_Decimal_Set, run_setDec, run_rdExp, run_wrExp, run_rdForm,
      run_rdCoeff, GenTieImp_Decimal_Set_loc0, run_snapP, GenTieImp_Context_round, GenTieImpT_sqrtSettle,
      GenTieImp_Condition_Inexact, GenTieImp_Context_goError, narrow32, retFlags, MaxExponent, MinExponent,
      Src.val_cell, Src.val_const, Heap.set_same, Heap.set_set, ite_pair_heap, ite_fst, ite_snd]
    generalize run (roundP _ d (Src.cell d) true) (h.set d _) = R1
    by_cases h1 : R1.1.inexact = true
    · by_cases h2 : ((R1.2 d).form == Form.finite) = true
      · simp only [h1, h2, if_true]
        generalize run (sqrtSettleP _ d _ _) R1.2 = S
        generalize run (roundP _ d (Src.cell d) true) S.2 = R2
        split_ifs <;> simp_all [cond_or_assoc]
      · simp only [h1, h2, if_true, if_false, Bool.false_eq_true]
        generalize run (roundP _ d (Src.cell d) true) R1.2 = R2
        split_ifs <;> simp_all [cond_or_assoc]
    · simp only [h1, if_false, Bool.false_eq_true]
      generalize run (roundP _ d (Src.cell d) true) R1.2 = R2
      split_ifs <;> simp_all [cond_or_assoc]

theorem GenTieImpT_Context_Sqrt (fuel : Nat) (c : Ctx) (d : Cell) (x : Src) (h : Heap)
    (hfuel : 64 ≤ fuel) (hw : sqrtWorkp c (ndigits (x.val h).coeff) + 5 ≤ 2 ^ 63) :
    run (Context_Sqrt fuel c d x) h = run (dropAux (sqrtP c d x)) h := by
  unfold Context_Sqrt sqrtP dropAux
  simp only [run_bind, GenTieImpT_Context_rootSpecials, run_pure]
  cases hs : (run (rootSpecialsP c d x 2) h).1 with
  | some r => simp [specialsRes]
  | none =>
    have hr := rootSpecialsP_none c d x 2 h hs
    simp only [hr, specialsRes, Bool.false_eq_true, if_false, run_bind, run_pure, run_ite, ite_pair_heap, ite_fst,
      ite_snd, GenTieImp_Decimal_NumDigits, run_numDigitsP, GenTieImp_Decimal_Set_loc0, run_snapP, run_rdExp, toU32,
      Int.toNat_natCast, narrow32, GenTieImpT_Decimal_SetFinite_loc0, GenTieImpT_MakeErrDecimal, decide_eq_true_eq]
    generalize hX : x.val h = X at hw
    unfold sqrtWorkp at hw
    simp only [] at hw
    generalize hW : (if (if c.prec + 1 < ndigits X.coeff then ndigits X.coeff else c.prec + 1) < 7 then 7
      else if c.prec + 1 < ndigits X.coeff then ndigits X.coeff else c.prec + 1) = W at hw
    have hW7 : 7 ≤ W := by rw [← hW]; split <;> split <;> omega
    have h819 : (decide ((819 : Int) < 0)) = false := by decide
    have h259 : (decide ((259 : Int) < 0)) = false := by decide
    have hn819 : Int.natAbs 819 = 819 := rfl
    have hn259 : Int.natAbs 259 = 259 := rfl
    simp only [h819, h259, hn819, hn259]
    unfold sqrtNewton
    simp only [hW, MaxExponent, MinExponent]
    by_cases hev : ((↑(ndigits X.coeff) + X.exp : Int).tmod 2 == 0) = true
    · simp only [hev, if_true]
      generalize hA : (ED.step _ _ _) = A
      have hc2 : A.1.c = { c with prec := W, mode := .halfEven, emin := -100000, emax := 100000 } := by
        rw [← hA, ED.step_c, ED.step_c]
      obtain ⟨q, tmp', e1, _⟩ := sqrt_loop (W + 5) 63 fuel 64 3 A.2 A.1
        { form := X.form, neg := X.neg, exp := -↑(ndigits X.coeff), coeff := X.coeff }
        { c with prec := W, mode := .halfEven, emin := -100000, emax := 100000 } {} h
        (by omega) (by omega) (by omega) (by omega) (by omega) hc2
      rw [e1]
      simp only [GenTieImpT_Context_Sqrt_k1, dropAux, MaxExponent, MinExponent]
      split <;> simp [retErr]
    · simp only [hev, Bool.false_eq_true, if_false]
      generalize hA : (ED.step _ _ _) = A
      have hc2 : A.1.c = { c with prec := W, mode := .halfEven, emin := -100000, emax := 100000 } := by
        rw [← hA, ED.step_c, ED.step_c]
      obtain ⟨q, tmp', e1, _⟩ := sqrt_loop (W + 5) 63 fuel 64 3 A.2 A.1
        { form := X.form, neg := X.neg, exp := -↑(ndigits X.coeff) - 1, coeff := X.coeff }
        { c with prec := W, mode := .halfEven, emin := -100000, emax := 100000 } {} h
        (by omega) (by omega) (by omega) (by omega) (by omega) hc2
      rw [e1]
      simp only [GenTieImpT_Context_Sqrt_k1, dropAux, MaxExponent, MinExponent]
      split <;> simp [retErr]

/-! ## `loop` (loop.go): the struct is a value `Loop`; the model's `LoopSt` keeps its fields `i` and `prevZ` -/

theorem GenTieImpT_Context_newLoop (c : Ctx) (name : String) (arg : Src) (precision : Nat) (k : Int) (h : Heap) :
    run (Context_newLoop c name arg precision k) h =
      (({ c := c, arg := arg.val h, precision := (precision : Int),
          maxIterations := 10 + (k * (precision : Int)).toNat } : Loop), h) := by
  unfold Context_newLoop
  simp [GenTieImp_Decimal_Set_loc0, narrow32, toU32]

/-- `loop.done(z)`: the verdict is the model's `loopDone` on `(l.i, l.prevZ)`; the context, the precision and the
iteration bound of the struct are unchanged, and on "continue" its `i` and `prevZ` are those of the model's new state -/
theorem GenTieImpT_loop_done (l : Loop) (z : Dec) (h : Heap) :
    ∃ l' : Loop, (run (loop_done l z) h).2 = h ∧ (run (loop_done l z) h).1.2.2 = l' ∧
      l'.c = l.c ∧ l'.precision = l.precision ∧ l'.maxIterations = l.maxIterations ∧
      match loopDone l.c l.precision l.maxIterations { i := l.i, prevZ := l.prevZ } z with
      | .done => (run (loop_done l z) h).1.1 = true ∧ (run (loop_done l z) h).1.2.1 = ErrKind.none
      | .error er => (run (loop_done l z) h).1.1 = false ∧ (run (loop_done l z) h).1.2.1 = er
      | .continue s => (run (loop_done l z) h).1.1 = false ∧ (run (loop_done l z) h).1.2.1 = ErrKind.none ∧
          l'.i = s.i ∧ l'.prevZ = s.prevZ := by
  refine ⟨_, ?_, rfl, ?_⟩
  · unfold loop_done
    simp only [run_bind, run_ite, run_pure, ite_pair_heap]
  · unfold loop_done loopDone
    simp only [run_bind, run_ite, run_pure, ite_pair_heap, ite_fst, ite_snd, narrow32, Gen.bigOne, decide_eq_true_eq]
    generalize addOp l.c l.prevZ z true = o
    by_cases h1 : (o.err != ErrKind.none) = true
    · simp [h1]
    · simp only [h1, Bool.false_eq_true, if_false]
      by_cases h2 : (o.d.sign == 0) = true
      · simp [h2]
      · simp only [h2, Bool.false_eq_true, if_false]
        by_cases h3 : o.d.sign < 0
        · simp only [h3, if_true]
          split_ifs <;> simp_all
        · simp only [h3, if_false]
          split_ifs <;> simp_all

/-! ## calls whose destination is a Go local (`localize`)

`Imp/TransOps.lean` runs such a call as the store-level program of the method with the local virtualised
(`localize L p v`).  By `run_localize` (Lemmas/C05TransLemmas.lean) that run is determined by the runs of `p`, so a tie
`∀ h, run p h = run p' h` between a generated and a hand-written program carries over to their localised forms. -/

theorem run_localize_congr {α : Type} (L : Cell) (p p' : Prog α) (v : Dec)
    (hpp : ∀ h, run p h = run p' h) (h : Heap) : run (localize L p v) h = run (localize L p' v) h := by
  rw [run_localize, run_localize, hpp]

/-! AXIOMS-BEGIN -/
#print axioms Apd.Props.GenTieImpT_Context_rootSpecials
#print axioms Apd.Props.GenTieImpT_Context_logSpecials
#print axioms Apd.Props.GenTieImpT_sqrtSettle
#print axioms Apd.Props.GenTieImpT_Condition_SystemOverflow
#print axioms Apd.Props.GenTieImpT_Condition_negateOverflowFlags
#print axioms Apd.Props.GenTieImpT_MakeErrDecimal
#print axioms Apd.Props.GenTieImpT_ErrDecimal_Err
#print axioms Apd.Props.GenTieImpT_ErrDecimal_update
#print axioms Apd.Props.GenTieImpT_ErrDecimal_Mul
#print axioms Apd.Props.GenTieImpT_ErrDecimal_Quo
#print axioms Apd.Props.GenTieImpT_ErrDecimal_Abs
#print axioms Apd.Props.GenTieImpT_Context_integerPower
#print axioms Apd.Props.GenTieImpT_Decimal_SetFinite_loc0
#print axioms Apd.Props.GenTieImpT_Context_Sqrt_k1
#print axioms Apd.Props.GenTieImpT_Context_Sqrt
#print axioms Apd.Props.GenTieImpT_Context_newLoop
#print axioms Apd.Props.GenTieImpT_loop_done
/-! AXIOMS-END -/

end Apd.Props
