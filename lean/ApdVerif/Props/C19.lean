import ApdVerif.Model.Conv
import ApdVerif.Lemmas.Digits
import ApdVerif.Spec.Defs
import ApdVerif.Lemmas.C19Lemmas
/-!
# C19 — Reduce and NumDigits are exact
-/
namespace Apd.Props
open Apd Apd.C19L

/-- NumDigits (table path for ≤128 bits, estimate path above) returns the exact number of
decimal digits of |b| for every integer b, positive or negative, of any size. -/
theorem C19_numDigits (b : Int) : numDigitsImpl b = ndigits b.natAbs :=
  numDigitsImpl_correct b

/-- the characterisation that makes `ndigits` "the number of decimal digits" -/
theorem C19_ndigits_spec (n : Nat) (hn : 0 < n) : 10 ^ (ndigits n - 1) ≤ n ∧ n < 10 ^ ndigits n :=
  ndigits_spec n hn

/-- Decimal.Reduce: same value, no trailing zero, zero becomes 0E0, and the count is the number
of trailing zeros of the operand's coefficient (a function of the operand only). -/
theorem C19_reduce (x : Dec) (hx : x.form = .finite) (hc : x.coeff ≠ 0) :
    let r := reduceD x
    r.1.form = .finite ∧ r.1.neg = x.neg ∧
    r.1.coeff * 10 ^ r.2 = x.coeff ∧ r.1.exp = x.exp + r.2 ∧ r.1.coeff % 10 ≠ 0 := by
  obtain ⟨a, b⟩ := stripZeros_spec x.coeff hc
  simp only [reduceD, hx]
  simp [hc, a, b]

theorem C19_reduce_zero (x : Dec) (hx : x.form = .finite) (hc : x.coeff = 0) :
    reduceD x = ({ form := .finite, neg := false, exp := 0, coeff := 0 }, 0) := by
  have h0 : ndigits 0 - 1 = 0 := by decide
  simp [reduceD, hx, hc, h0]

/-- Context.Reduce = round to the context, then strip; the operand's sign is kept; the result has
no trailing zero (or is 0E0). -/
theorem C19_ctxReduce (c : Ctx) (x : Dec) (hx : x.form = .finite) :
    let o := reduceOp c x
    let r := ctxRound c x
    o.fl = r.2 ∧ o.d.neg = x.neg ∧
    (r.1.form = .finite → r.1.coeff ≠ 0 →
       o.d.coeff * 10 ^ o.aux.toNat = r.1.coeff ∧ o.d.exp = r.1.exp + o.aux ∧ o.d.coeff % 10 ≠ 0) ∧
    (r.1.form = .finite → r.1.coeff = 0 → o.d.coeff = 0 ∧ o.d.exp = 0) := by
  have hn : shouldSetAsNaN x none = false := by
    simp [shouldSetAsNaN, Dec.isNaN, hx]
  simp only [reduceOp, hn]
  refine ⟨rfl, rfl, ?_, ?_⟩
  · intro hf hc
    have h := C19_reduce (ctxRound c x).1 hf hc
    simp only [] at h
    obtain ⟨_, _, h3, h4, h5⟩ := h
    exact ⟨by simpa using h3, by simpa using h4, by simpa using h5⟩
  · intro hf hc
    rw [C19_reduce_zero (ctxRound c x).1 hf hc]
    exact ⟨rfl, rfl⟩

example : numDigitsImpl (-(2 ^ 200)) = 61 := by decide
example : (reduceD { coeff := 12300, exp := -2 }).1 = { coeff := 123, exp := 0 } := by decide

#print axioms C19_numDigits
#print axioms C19_ndigits_spec
#print axioms C19_reduce
#print axioms C19_reduce_zero
#print axioms C19_ctxReduce

end Apd.Props
