import ApdVerif.Model.Conv
import ApdVerif.Lemmas.Digits
import ApdVerif.Spec.Defs
/-!
# C19 — Reduce and NumDigits are exact
-/
namespace Apd.Props
open Apd

/-- NumDigits (table path for ≤128 bits, estimate path above) returns the exact number of
decimal digits of |b| for every integer b, positive or negative, of any size. -/
theorem C19_numDigits (b : Int) : numDigitsImpl b = ndigits b.natAbs := by
  sorry

/-- the characterisation that makes `ndigits` "the number of decimal digits" -/
theorem C19_ndigits_spec (n : Nat) (hn : 0 < n) : 10 ^ (ndigits n - 1) ≤ n ∧ n < 10 ^ ndigits n :=
  ndigits_spec n hn

/-- Decimal.Reduce: same value, no trailing zero, zero becomes 0E0, and the count is the number
of trailing zeros of the operand's coefficient (a function of the operand only). -/
theorem C19_reduce (x : Dec) (hx : x.form = .finite) (hc : x.coeff ≠ 0) :
    let r := reduceD x
    r.1.form = .finite ∧ r.1.neg = x.neg ∧
    r.1.coeff * 10 ^ r.2 = x.coeff ∧ r.1.exp = x.exp + r.2 ∧ r.1.coeff % 10 ≠ 0 := by
  sorry

theorem C19_reduce_zero (x : Dec) (hx : x.form = .finite) (hc : x.coeff = 0) :
    reduceD x = ({ form := .finite, neg := false, exp := 0, coeff := 0 }, 0) := by
  sorry

/-- Context.Reduce = round to the context, then strip; the operand's sign is kept; the result has
no trailing zero (or is 0E0). -/
theorem C19_ctxReduce (c : Ctx) (x : Dec) (hx : x.form = .finite) :
    let o := reduceOp c x
    let r := ctxRound c x
    o.fl = r.2 ∧ o.d.neg = x.neg ∧
    (r.1.form = .finite → r.1.coeff ≠ 0 →
       o.d.coeff * 10 ^ o.aux.toNat = r.1.coeff ∧ o.d.exp = r.1.exp + o.aux ∧ o.d.coeff % 10 ≠ 0) ∧
    (r.1.form = .finite → r.1.coeff = 0 → o.d.coeff = 0 ∧ o.d.exp = 0) := by
  sorry

example : numDigitsImpl (-(2 ^ 200)) = 61 := by decide
example : (reduceD { coeff := 12300, exp := -2 }).1 = { coeff := 123, exp := 0 } := by decide

end Apd.Props
