import ApdVerif.Lemmas.CbrtConvTail
import ApdVerif.Props.C11Cbrt
/-!
# C11 — `Context.Cbrt` returns without error

`Props/C11Cbrt.lean` proves that WHENEVER `Cbrt` returns without error the result is within one unit in the last
place (and exact on perfect cubes).  This file proves the missing half: under an explicit, decidable side condition
`CbrtSide c x` (defined in `Lemmas/CbrtConvMain.lean`) the call DOES return without error:

* both scaling loops terminate (the model's fuel 400000 suffices; at most `2·|adj x| + 2` multiplications in total)
  and none of their multiplications fails (`stage_down`, `stage_up`);
* the four operations of Turkowski's polynomial estimate and the `|up - down|` halvings / doublings do not fail, and the
  cube of the first iterate is within `[0.97³/65, 1.03³·65]` of `|x|` — the polynomial is within 3 % of the cube root
  on `[0.1249, 1]` (`CbrtR.poly_bound`), and the up to `8·|adj| + 20` roundings together, each of relative size
  `ε = 5·10^(-2P-2)`, cost at most a factor 65 on the cube when `(8·|adj| + 20)·ε ≤ 4` (`CbrtR.pow_block`, `stage_est`);
* every round of the Newton loop is five non-failing operations; the first iterate is within `[0.24, 4.15]` times the
  root, seven rounds bring the ratio through `[0.997, 5.963]`, `… 3.995`, `2.692`, `1.846`, `1.332`, `1.079` to within
  `0.009` of 1 (`CbrtR.newton_wide`, `CbrtR.near_step`), from then on the relative error of the `k`-th further iterate is
  at most `0.07·10^(-k) + 0.3·10^(-2P)` (`CbrtR.newton_step`, `CbrtR.Ebound_step`), so `loop.done` answers yes at
  the latest in round `P + 9` of the `P + 11` allowed (`CbrtR.stop_ok`, `iter_fw`); whenever it answers yes the
  returned iterate is within `3·10^(-2P)` of the root (`CbrtN.newton_stop_rat`);
* the final rounding raises no system flag and the two multiplications of the exactness re-check at `3P` digits are
  exact and stay inside the package limits (`tail_fw`).

## The side condition `CbrtSide c x`, clause by clause (`P = c.prec`, `adj = x.exp + digits - 1`, `a = ⌊adj/3⌋`)

Every clause excludes a REAL failure of `Context.Cbrt` (Go results with `/repo` at HEAD, model results by `#eval`; the
kernel cannot evaluate them — 110000 scaling steps or 100000-digit operands —, `decide` was tried for 10 minutes):

1. `traps` do not contain Inexact, Rounded, Subnormal, Underflow, Overflow, Clamped: the final rounding raises them
   and `Cbrt` then returns the trap error (`C11_cbrt_traps_needed` below, by `decide`).
2. `P ≤ 24999`: at `P = 25000` the working precision is 50002 digits, the iterates have exponent `≈ -50002`, and
   the product `z·z` has exponent `< -100000` before it is rounded: `Cbrt(2)` at precision 25000 returns
   "exponent out of range" (Go), at 24999 it returns `1.2599…`.  FINDING: `Cbrt` cannot be used at all at
   precisions ≥ 25000.
3. `digits ≤ 99990`, 4. `-99988 + 2P ≤ x.exp`: operands with very many digits make the first multiplications
   (`z·0.125`, `z·c1` with exponent `-8`, `(c1·z+c2)·z`) produce an exponent below -100000 before rounding:
   `cbrtOp {prec := 1} {coeff := 5·10^99994 + 1, exp := -99995}` is a system error, with `exp := -99985` (10^99984) it
   is fine (`#eval`, 60 s); Go: `0.5000…01` (99992 digits) at precision 5 → "exponent out of range".
   (Together they also keep the exponent difference in `|x| / (z·z)` above -100000.)
   FINDING (outside the domain of this theorem): for an operand above 8 with more than `100000 + 2P + 2` digits the
   first `z·0.125` fails inside `Rounder.Round` BEFORE `z` is changed, the `ErrDecimal` then skips every further
   multiplication and `for z.Cmp(decimalOne) > 0 {…}` never ended: `Cbrt(10^149999 + 1, exponent -99000)` hung in Go
   (the model returned `none`, fuel exhausted).  REPAIRED: both scaling loops now test `ed.Err()` after every
   multiplication (`scaleLoop` has the error exit `.inl`); the call returns the error (`#eval` of the model on
   `{coeff := 10^100020 + 1, exp := -60000}` at precision 5, same mechanism: `some` with `err = .sys`), and
   `Props/C04Cbrt.lean` proves `C04_cbrt_total`: the model never runs out of fuel, for any operand.
5. `-50000 ≤ a - (2P+2)`: the square `z·z` of an iterate (`2P+2` digits, adjusted exponent `≈ a`) must not have an
   exponent below -100000 before rounding.  Go: precision 24999, `Cbrt(0.0005)` → "exponent out of range"
   (`a - (2P+2) = -50002`); `Cbrt(0.005)` is fine (`-50001`: the clause is within 1 of being tight).
6. `a ≤ 33331`: the re-check cubes the result; its cube must have adjusted exponent ≤ 100000:
   `cbrtOp {prec := 1} {coeff := 99999, exp := 99996}` = `Cbrt(9.9999E+100000)` is a system error (5E+33333 cubed is
   1.25E+100001).  FINDING: `Cbrt` fails on the largest representable operands.
7. `-100000 ≤ 3·(a - P)`: the re-check cubes the `P`-digit result, whose exponent is `≈ a - P + 1`:
   `cbrtOp {prec := 5} {exp := -100000, coeff := 1}` is a system error (4.6416E-33334 = 46416E-33338, cube exponent
   -100014).  FINDING: `Cbrt(1E-100000)` (and every operand below about `10^(3P - 100000)`) returns
   "exponent out of range" although the root is representable.  `C11_cbrt_sys` below proves this for EVERY operand: a
   call that returns a finite result without error has `3 × (exponent of the result) ≥ -100000`.  (The clause is within
   1 of tight: the result has exponent `≥ a - P`, and `= a - P + 1` when it has `P` digits.)
8. `(8·|adj| + 20)·5 ≤ 4·10^(2P+2)`: the roundings of the up to `2|adj| + 2` scaling multiplications and as many
   halvings/doublings, each of relative size `5·10^(-2P-2)`, must not move the first iterate out of the basin from which
   `P + 11` rounds suffice (a factor 65 on the cube).  For `P ≥ 2` this holds for EVERY operand (`|adj| ≤ 100000`); for
   `P = 1` it allows `|adj| ≤ 997`.  It is a worst-case bound (the true limit at `P = 1` is near `adj = -40444`), but
   SOME bound is needed for `P = 1`: precision 1 is the only precision at which `Cbrt` fails to converge.  FINDING: at precision 1
   the halvings `z·0.5` are rounded half-up at 4 digits, which rounds every odd coefficient UP; over the ≈ 45000 halvings
   needed for `x ≈ 10^-40000` the first iterate drifts to ≈ 50 times the root and the loop gives up:
   `cbrtOp {prec := 1} {coeff := 99, exp := -40445}` has `err = .other` ("did not converge after 12 iterations" in Go,
   smallest |exponent| found; 741 of 2587 sampled operands `d·10^e`, `|e| ≤ 99000`, fail at precision 1, all with
   `e < -40000`; no failure was found at precisions 2 and 3 apart from clauses 6 and 7).
-/
set_option linter.unusedVariables false

namespace Apd.Props
open Apd Apd.Oracle Apd.CbrtL Apd.CbrtC Apd.SqrtL

/-- `cbrtOp` from its named parts, forwards -/
theorem cbrtOp_eq (c : Ctx) (x : Dec) (h : rootSpecials c x 3 = none) (ed1 : ED) (z1 : Dec) (down : Nat)
    (ed2 : ED) (z2 : Dec) (up : Nat) (zf : Dec)
    (s1 : scaleLoop (fun z => decide (z.cmp decOneEighth < 0)) decEight 400000 { c := nc c } x.absD 0 =
      some (.inr (ed1, z1, down)))
    (s2 : scaleLoop (fun z => decide (z.cmp decOne > 0)) decOneEighth 400000 ed1 z1 0 = some (.inr (ed2, z2, up)))
    (s3 : cbrtIter (nc c) ((c.prec : Int) + 1) (10 + (c.prec + 1)) x.absD (10 + (c.prec + 1) + 2)
      (est ed2 z2 down up).1 (est ed2 z2 down up).2 {} = some (.inr zf)) :
    cbrtOp c x = some (tail c x (est ed2 z2 down up).1.fl zf) := by
  unfold cbrtOp
  rw [h]
  dsimp only
  split
  · rename_i h1
    exact absurd (s1.symm.trans h1) (by simp)
  · rename_i er h1
    exact absurd (s1.symm.trans h1) (by simp)
  · rename_i e1 y1 dn h1
    have e := s1.symm.trans h1
    simp only [Option.some.injEq, Sum.inr.injEq, Prod.mk.injEq] at e
    obtain ⟨rfl, rfl, rfl⟩ := e
    split
    · rename_i h2
      exact absurd (s2.symm.trans h2) (by simp)
    · rename_i er h2
      exact absurd (s2.symm.trans h2) (by simp)
    · rename_i e2 y2 un h2
      have e := s2.symm.trans h2
      simp only [Option.some.injEq, Sum.inr.injEq, Prod.mk.injEq] at e
      obtain ⟨rfl, rfl, rfl⟩ := e
      split
      · rename_i h3
        exact absurd (s3.symm.trans h3) (by simp)
      · rename_i er h3
        exact absurd (s3.symm.trans h3) (by simp)
      · rename_i zf' h3
        have e := s3.symm.trans h3
        simp only [Option.some.injEq, Sum.inr.injEq] at e
        subst e
        unfold tail est nc
        dsimp only
        split_ifs <;> rfl

/-- the side condition in the vocabulary of the stages -/
theorem side_of (c : Ctx) (hc : c.WF) (x : Dec) (hside : CbrtSide c x) :
    Side c.prec x.absD (adjX x) (adjX x / 3) := by
  obtain ⟨h1, h2, h3, h4, h5, h6, h8, h9⟩ := hside
  have hnp := ndigits_pos x.coeff
  have hP := hc.1
  exact
    { hP := hc.1, hP2 := h2, hnd := h3, hA := rfl, ha := rfl, S1 := h4, H1 := h5, H2 := h6,
      H3 := by
        show -100000 ≤ x.exp - 2 * (adjX x / 3) - 4
        unfold adjX at *
        omega
      C5 := h8, hK := side_K c.prec _ h9 }

/-- **C11, Cbrt returns**: under the explicit side condition `CbrtSide c x` the model of `Context.Cbrt` runs to
completion (none of its loops exhausts the fuel), the Newton loop stops within `Precision + 9` of the allowed
`Precision + 11` rounds, no internal operation raises a trapped condition, and the call returns with no error -/
theorem C11_cbrt_returns (c : Ctx) (hc : c.WF) (x : Dec) (hx : x.form = .finite) (h0 : x.coeff ≠ 0) (hw : x.WF)
    (hside : CbrtSide c x) : ∃ o, cbrtOp c x = some o ∧ o.err = .none := by
  have S := side_of c hc x hside
  have hax := absD_pos x hx h0
  have hwn := nc_nctx c
  obtain ⟨ed1, z1, d, s1, a1, a2, a3, a4, a5, a6, a7⟩ := stage_down (nc c) c.prec x.absD _ _ S hwn hax
  obtain ⟨ed2, z2, u, s2, b1, b2, b3, b4, b5, b6, b7⟩ :=
    stage_up (nc c) c.prec x.absD _ _ S hwn hax ed1 z1 d a1 a2 a3 a4 a6 a7
  obtain ⟨e1, e2, e3, e4, e5⟩ := stage_est (nc c) c.prec x.absD _ _ S hwn hax ed2 z1 z2 d u b1 a2 b2 b3 b4 a5 b5 b6 b7
  obtain ⟨zf, s3, f1, f2, f3, f4, f5, f6, f7⟩ := stage_iter (nc c) c.prec x.absD _ _ S hwn hax _ _ e1 e2 e3 e4 e5
  refine ⟨_, cbrtOp_eq c x (rootSpecials_none c x hx h0) ed1 z1 d ed2 z2 u zf s1 s2 s3, ?_⟩
  exact tail_fw c hc ⟨hside.1.1, hside.1.2.1, hside.1.2.2.1, hside.1.2.2.2.1, hside.1.2.2.2.2.1, hside.1.2.2.2.2.2⟩ x _ e1.flg zf _ f1 f2 f3 f4 f5 hside.2.1 S.H1 S.H2 S.C5


/-- at precisions `≥ 2` clause 8 follows from the others: **the only precision at which `Cbrt` can fail to converge
is 1** -/
theorem C11_cbrt_returns_prec2 (c : Ctx) (hc : c.WF) (x : Dec) (hx : x.form = .finite) (h0 : x.coeff ≠ 0) (hw : x.WF)
    (hP : 2 ≤ c.prec)
    (htraps : c.traps.inexact = false ∧ c.traps.rounded = false ∧ c.traps.subnormal = false ∧
      c.traps.underflow = false ∧ c.traps.overflow = false ∧ c.traps.clamped = false)
    (h2 : c.prec ≤ 24999) (h3 : ndigits x.coeff ≤ 99990) (h4 : -99988 + 2 * (c.prec : Int) ≤ x.exp)
    (h5 : -50000 ≤ adjX x / 3 - (2 * (c.prec : Int) + 2)) (h6 : adjX x / 3 ≤ 33331)
    (h7 : -100000 ≤ 3 * (adjX x / 3 - (c.prec : Int))) :
    ∃ o, cbrtOp c x = some o ∧ o.err = .none := by
  apply C11_cbrt_returns c hc x hx h0 hw
  refine ⟨htraps, h2, h3, h4, h5, h6, h7, ?_⟩
  have hA : (adjX x).natAbs ≤ 99996 := by omega
  have h10 : 10 ^ 6 ≤ 10 ^ (c.prec * 2 + 2) := Nat.pow_le_pow_right (by decide) (by omega)
  calc (8 * (adjX x).natAbs + 20) * 5 ≤ (8 * 99996 + 20) * 5 := by omega
    _ ≤ 4 * 10 ^ 6 := by norm_num
    _ ≤ 4 * 10 ^ (c.prec * 2 + 2) := by omega

/-! ## non-vacuity, and the traps clause -/

example : CbrtSide { prec := 5, emax := 10, emin := -10 } { coeff := 2 } := by decide
example : CbrtSide { prec := 16 } { coeff := 12345678901234567890, exp := -30, neg := true } := by decide
example : CbrtSide { prec := 3 } { coeff := 1, exp := 99000 } := by decide
example : CbrtSide { prec := 3 } { coeff := 7, exp := -99000 } := by decide
example : CbrtSide { prec := 2 } { coeff := 7, exp := -99000 } := by decide
example : CbrtSide { prec := 2 } { coeff := 12345, exp := 99000 } := by decide
example : CbrtSide { prec := 1 } { coeff := 7, exp := -990 } := by decide
example : ¬ CbrtSide { prec := 25000 } { coeff := 2 } := fun h => absurd h.2.1 (by decide)
example : ¬ CbrtSide { prec := 5 } { coeff := 1, exp := -100000 } := by decide
example : ¬ CbrtSide { prec := 1 } { coeff := 99, exp := -40445 } := by decide

example : ∃ o, cbrtOp { prec := 5, emax := 10, emin := -10 } { coeff := 2 } = some o ∧ o.err = .none :=
  C11_cbrt_returns _ (by decide) _ rfl (by decide) (by decide) (by decide)

/-- clause 1 is needed: with Inexact trapped `Cbrt(2)` returns the trap error (and without it, no error) -/
theorem C11_cbrt_traps_needed :
    (cbrtOp { prec := 5, traps := { inexact := true } } { coeff := 2 }).map (·.err) = some .trap ∧
    (cbrtOp { prec := 5 } { coeff := 2 }).map (·.err) = some .none := by
  constructor <;> decide


/-! ## clause 7 is needed, for every operand -/

/-- **a returned finite result has `3 × exponent ≥ -100000`** (the re-check cubes the result exactly at `3P` digits,
and the exponent of the cube passes through `setExponent`).  By `C11_cbrt_within_ulp` the result is the cube root to
`P` digits, exponent `≈ a - P + 1`: hence for every operand with `3·(a - P + 1) < -100000` — e.g. `1E-100000` at
any precision — `Cbrt` CANNOT return without error. -/
theorem C11_cbrt_sys (c : Ctx) (hc : c.WF) (hp : c.prec * 3 + 2 ≤ 100000)
    (x : Dec) (hx : x.form = .finite) (h0 : x.coeff ≠ 0) (hw : x.WF)
    (o : Out) (ho : cbrtOp c x = some o) (he : o.err = .none) (hf : o.d.form = .finite) :
    -100000 ≤ 3 * o.d.exp := by
  obtain ⟨zf, fl0, hpos, hnd, hlo', hhi', hoeq⟩ := CbrtL.last_iter c hc hp x hx h0 o ho he
  have hI : CbrtT.Iter c x zf := ⟨hpos, hnd, hlo', hhi'⟩
  rw [hoeq] at he hf ⊢
  obtain ⟨hnf, hd⟩ := CbrtT.tail_ok c x fl0 zf he
  rw [hd] at hf ⊢
  obtain ⟨hns, hA⟩ := CbrtT.final_agrees c hc hp x hx h0 hw zf hI
  have hfD : (ctxRound (CbrtT.cH c) zf).1.form = .finite := hf
  obtain ⟨-, -, -, -, -, -, -, -, -, -, hDnd, -, -⟩ := CbrtT.round_facts c hc zf hpos _ _ hA hfD
  have hw3 := CbrtE.nc3_nctx c
  have hP1 := hc.1
  have hp1 : 1 ≤ c.prec * 3 := by omega
  have hp2 : c.prec * 3 ≤ 100000 := by omega
  obtain ⟨hm1, hm2⟩ := cube_digits (CbrtT.resD c x zf).coeff c.prec hP1 hDnd
  unfold CbrtT.recheck at hnf
  dsimp only at hnf
  generalize h1' : ({ c := { nc c with prec := c.prec * 3 }, fl := fl0, err := .none } : ED).step zf
    (fun cc => mulOp cc (CbrtT.resD c x zf) (CbrtT.resD c x zf)) = q1 at hnf
  generalize h2' : q1.1.step q1.2 (fun cc => mulOp cc q1.2 (CbrtT.resD c x zf)) = q2 at hnf
  obtain ⟨f1, g2, v2, c2⟩ := step_back' h2' hnf
  obtain ⟨f0, g1, v1, c1⟩ := step_back' h1' f1
  have k1 : q1.1.c = { nc c with prec := c.prec * 3 } := c1
  rw [k1] at g2
  have g1' : (mulOp { nc c with prec := c.prec * 3 } (CbrtT.resD c x zf) (CbrtT.resD c x zf)).err = .none := g1
  have v1' : q1.2 = (mulOp { nc c with prec := c.prec * 3 } (CbrtT.resD c x zf) (CbrtT.resD c x zf)).d := v1
  obtain ⟨a1, M1⟩ := mul_err_shape _ _ hw3 hp1 hp2 _ _ hf hf hm1 g1'
  rw [M1] at v1'
  simp only [] at v1'
  obtain ⟨a2, -⟩ := mul_err_shape _ _ hw3 hp1 hp2 q1.2 (CbrtT.resD c x zf) (by rw [v1']) hf (by rw [v1']; exact hm2) g2
  rw [v1'] at a2
  simp only [] at a2
  omega

/-! the parts, under the names suggested in the task -/

/-- the polynomial first estimate is within 3 % of the cube root on `[0.1249, 1]` (on cubes) -/
theorem C11_cbrt_estimate (t : ℚ) (h0 : 1249 / 10000 ≤ t) (h1 : t ≤ 1) :
    (97 / 100) ^ 3 * t ≤ CbrtR.pc t ^ 3 ∧ CbrtR.pc t ^ 3 ≤ (103 / 100) ^ 3 * t := CbrtR.poly_bound t h0 h1

/-- one rounded Newton step squares the error: from within `E ≤ 0.073` of the root to within `1.12·E² + Θ` -/
theorem C11_cbrt_newton_contracts (a n w E Θ : ℝ) (hE : E ≤ 73 / 1000) (ha : |a - 1| ≤ E)
    (hn : 3 * a ^ 2 * n = 2 * a ^ 3 + 1) (hΘ0 : 0 ≤ Θ) (hΘ : Θ ≤ 3 / 1000) (hw : |w - n| ≤ Θ * n) :
    |w - 1| ≤ 112 / 100 * E ^ 2 + Θ := CbrtR.newton_step a n w E Θ hE ha hn hΘ0 hΘ hw

end Apd.Props

#print axioms Apd.Props.C11_cbrt_returns
#print axioms Apd.Props.C11_cbrt_returns_prec2
#print axioms Apd.Props.C11_cbrt_sys
#print axioms Apd.Props.C11_cbrt_traps_needed
#print axioms Apd.Props.C11_cbrt_estimate
#print axioms Apd.Props.C11_cbrt_newton_contracts
