import ApdVerif.Spec.Agrees
import ApdVerif.Lemmas.C09Lemmas
/-!
# C09 — Quantize and RoundToIntegral produce the requested exponent, correctly rounded
-/
namespace Apd

/-- well-formed context for Quantize: as `Ctx.WF` but without `Precision ≤ MaxExponent` -/
def Ctx.WFq (c : Ctx) : Prop :=
  1 ≤ c.prec ∧ 0 ≤ c.emax ∧ c.emax ≤ 100000 ∧ -100000 ≤ c.emin ∧ c.emin ≤ 0

instance (c : Ctx) : Decidable c.WFq := by unfold Ctx.WFq; exact inferInstance

theorem Ctx.WF.toWFq {c : Ctx} (h : c.WF) : c.WFq := by
  obtain ⟨c1, c2, c3, c4, c5⟩ := h
  exact ⟨c1, by omega, c3, c4, c5⟩

end Apd

namespace Apd.Props
open Apd Apd.Oracle Apd.C09L

/-- `x / 10^e` rounded to an integer in the context's mode: `(coefficient, digits were lost)` -/
def quantSpec (c : Ctx) (x : Dec) (e : Int) : Nat × Bool := roundAt c.mode x.neg x.coeff 1 x.exp e

/-- Quantize: exponent exactly `e`, coefficient `x/10^e` rounded in the context's mode, for every
magnitude of `x` relative to `10^e`; Inexact/Rounded iff digits were lost; never Underflow or
Overflow; InvalidOperation + NaN exactly when the coefficient needs more than Precision digits or
`e` (or the result's adjusted exponent) is outside the context's exponent range. -/
theorem quantizeOp_eq (c : Ctx) (x : Dec) (hx : x.form = .finite) (e : Int) :
    quantizeOp c x e =
      if e < c.emin - (c.prec : Int) + 1 then invalidNaN c
      else if (ndigits (quantizeCore c x e).1.coeff : Int) > (c.prec : Int) ∨ e > c.emax then invalidNaN c
      else if ((quantizeCore c x e).2 ||| (ctxRound c (quantizeCore c x e).1).2).overflow = true ∨
              ((quantizeCore c x e).2 ||| (ctxRound c (quantizeCore c x e).1).2).underflow = true
        then invalidNaN c
      else finish c ((ctxRound c (quantizeCore c x e).1).1,
                     (quantizeCore c x e).2 ||| (ctxRound c (quantizeCore c x e).1).2) := by
  have hnan : shouldSetAsNaN x none = false := by simp [shouldSetAsNaN, Dec.isNaN, hx]
  have hinf : (x.form == Form.infinite) = false := by simp [hx]
  unfold quantizeOp
  simp only [hnan, hinf, Bool.false_or, Bool.or_eq_true, decide_eq_true_eq]
  rw [if_neg (by simp)]

theorem quantize_main (c : Ctx) (hc : c.WFq) (x : Dec) (hx : x.form = .finite) (e : Int)
    (he : -100000 ≤ e ∧ e ≤ 100000) (hgap : x.coeff = 0 ∨ x.exp - e ≤ 100000)
    (hgap2 : (ndigits x.coeff : Int) < e - x.exp ∨ e - x.exp < 100000 ∨
      (e - x.exp = 100000 ∧ ndigits (quantSpec c x e).1 ≤ ndigits (x.coeff / 10 ^ 100000)))
    (hprec : c.prec ≤ 100001 ∨ ndigits (quantSpec c x e).1 ≤ 100001) :
    if e < c.emin - (c.prec : Int) + 1 ∨ e > c.emax ∨ ndigits (quantSpec c x e).1 > c.prec ∨
        ((quantSpec c x e).1 ≠ 0 ∧ e + (ndigits (quantSpec c x e).1 : Int) - 1 > c.emax) then
      quantizeOp c x e = invalidNaN c
    else
      (quantizeOp c x e).d = { form := .finite, neg := x.neg, exp := e, coeff := (quantSpec c x e).1 } ∧
      (quantizeOp c x e).fl.inexact = (quantSpec c x e).2 ∧
      ((quantSpec c x e).2 = true → (quantizeOp c x e).fl.rounded = true) ∧
      (quantizeOp c x e).fl.underflow = false ∧ (quantizeOp c x e).fl.overflow = false ∧
      (quantizeOp c x e).fl.invalidOp = false ∧
      (quantizeOp c x e).fl.sysOverflow = false ∧ (quantizeOp c x e).fl.sysUnderflow = false := by
  obtain ⟨c1, c0, c3, c4, c5⟩ := hc
  rw [quantizeOp_eq c x hx e]
  by_cases h1 : e < c.emin - (c.prec : Int) + 1
  · rw [if_pos (Or.inl h1), if_pos h1]
  · have key := quantizeCore_spec c x hx e hgap hgap2
    change QGood x e (quantSpec c x e) (quantizeCore c x e) ∨
      ((quantizeCore c x e).2.overflow = true ∧
        ((ndigits (quantSpec c x e).1 : Int) - 1 > 100000 ∨
         ((quantSpec c x e).1 ≠ 0 ∧ e + (ndigits (quantSpec c x e).1 : Int) - 1 > c.emax))) at key
    generalize quantizeCore c x e = q at key ⊢
    generalize quantSpec c x e = R at key hprec ⊢
    rw [if_neg h1]
    rcases key with ⟨g1, g2, g3, g4, g5, g6, g7, g8, g9⟩ | ⟨b1, b2⟩
    · obtain ⟨q1, q2⟩ := q
      simp only [] at g1 g2 g3 g4 g5 g6 g7 g8 g9 ⊢
      subst g1
      simp only []
      by_cases h2 : ndigits R.1 > c.prec ∨ e > c.emax
      · have hcond : e < c.emin - (c.prec : Int) + 1 ∨ e > c.emax ∨ ndigits R.1 > c.prec ∨
            (R.1 ≠ 0 ∧ e + (ndigits R.1 : Int) - 1 > c.emax) := by omega
        rw [if_pos hcond, if_pos (by omega)]
      · have fit := ctxRound_fit c c1 c0 c3 c4 c5 { x with coeff := R.1, exp := e } hx (by simp only []; omega)
          (by simp only []; omega) (by simp only []; omega) (by simp only []; omega)
        rw [← ctxRound_finite c { x with coeff := R.1, exp := e } hx] at fit
        simp only [] at fit
        by_cases h3 : R.1 ≠ 0 ∧ e + (ndigits R.1 : Int) - 1 > c.emax
        · have hcond : e < c.emin - (c.prec : Int) + 1 ∨ e > c.emax ∨ ndigits R.1 > c.prec ∨
              (R.1 ≠ 0 ∧ e + (ndigits R.1 : Int) - 1 > c.emax) := by omega
          rw [if_pos h3] at fit
          rw [if_pos hcond, if_neg (by omega), if_pos (Or.inl (by simp [fit]))]
        · have hcond : ¬ (e < c.emin - (c.prec : Int) + 1 ∨ e > c.emax ∨ ndigits R.1 > c.prec ∨
              (R.1 ≠ 0 ∧ e + (ndigits R.1 : Int) - 1 > c.emax)) := by omega
          rw [if_neg h3] at fit
          obtain ⟨t1, t2, t3, t4, t5, t6, t7⟩ := fit
          rw [if_neg hcond, if_neg (by omega), if_neg (by simp [g4, g5, t3, t4]), t1]
          simp only [hx] at t2 t3 t4 t5 t6 t7
          simp [finish, hx, g2, g4, g5, g6, g7, g8, t2, t3, t4, t5, t6, t7]
          exact fun h => Or.inl (g3 h)
    · have hcond : e < c.emin - (c.prec : Int) + 1 ∨ e > c.emax ∨ ndigits R.1 > c.prec ∨
          (R.1 ≠ 0 ∧ e + (ndigits R.1 : Int) - 1 > c.emax) := by omega
      rw [if_pos hcond]
      by_cases h2 : (ndigits q.1.coeff : Int) > (c.prec : Int) ∨ e > c.emax
      · rw [if_pos h2]
      · rw [if_neg h2, if_pos (Or.inl (by simp [b1]))]

/- ORIGINAL STATEMENT (false, see the counterexamples below and in the report):
theorem C09_quantize (c : Ctx) (hc : c.WF) (x : Dec) (hx : x.form = .finite) (hxw : x.WF) (e : Int)
    (he : -100000 ≤ e ∧ e ≤ 100000) (hgap : x.exp - e ≤ 100000) :
    let o := quantizeOp c x e
    let r := quantSpec c x e
    let etiny : Int := c.emin - (c.prec : Int) + 1
    if e < etiny ∨ e > c.emax ∨ ndigits r.1 > c.prec ∨ (r.1 ≠ 0 ∧ e + (ndigits r.1 : Int) - 1 > c.emax) then
      o.d = decNaN ∧ o.fl = Cond.cInvalidOp ∧ o.err = goError c.traps Cond.cInvalidOp
    else
      o.d = { form := .finite, neg := x.neg, exp := e, coeff := r.1 } ∧
      o.fl.inexact = r.2 ∧ (r.2 = true → o.fl.rounded = true) ∧
      o.fl.underflow = false ∧ o.fl.overflow = false ∧ o.fl.invalidOp = false ∧
      o.fl.sysOverflow = false ∧ o.fl.sysUnderflow = false
Counterexamples (checked with #eval, see scratch/Cex.lean):
  c = {prec := 5, emax := 100000, emin := -100000, mode := halfUp}
  (a) x = (10^100001 - 1)·10^-100000, e = 0: the specification gives 10·10^0 (2 digits), the model
      (Round's `setExponent(…, -100000, 100001)`) raises SystemOverflow and Quantize returns NaN/InvalidOperation.
  (b) x = 10^149999·10^-100000, e = 50000: the specification gives 0·10^50000, the model's Round hits
      `diff > MaxExponent` and Quantize returns NaN/InvalidOperation.
Since the repair of finding F6 (a zero coefficient is never rescaled) the hypothesis `hgap` of the variants below
is `x.coeff = 0 ∨ x.exp - e ≤ 100000`: zeros are covered whatever the distance between the exponents.
The variant below adds the hypothesis `hgap2`: the number of discarded digits `e - x.exp` is below 100000,
or all digits are discarded, or it is exactly 100000 and rounding up does not carry into a new digit. -/
theorem C09_quantize_partial (c : Ctx) (hc : c.WF) (x : Dec) (hx : x.form = .finite) (hxw : x.WF) (e : Int)
    (he : -100000 ≤ e ∧ e ≤ 100000) (hgap : x.coeff = 0 ∨ x.exp - e ≤ 100000)
    (hgap2 : (ndigits x.coeff : Int) < e - x.exp ∨ e - x.exp < 100000 ∨
      (e - x.exp = 100000 ∧ ndigits (quantSpec c x e).1 ≤ ndigits (x.coeff / 10 ^ 100000))) :
    let o := quantizeOp c x e
    let r := quantSpec c x e
    let etiny : Int := c.emin - (c.prec : Int) + 1
    if e < etiny ∨ e > c.emax ∨ ndigits r.1 > c.prec ∨ (r.1 ≠ 0 ∧ e + (ndigits r.1 : Int) - 1 > c.emax) then
      o.d = decNaN ∧ o.fl = Cond.cInvalidOp ∧ o.err = goError c.traps Cond.cInvalidOp
    else
      o.d = { form := .finite, neg := x.neg, exp := e, coeff := r.1 } ∧
      o.fl.inexact = r.2 ∧ (r.2 = true → o.fl.rounded = true) ∧
      o.fl.underflow = false ∧ o.fl.overflow = false ∧ o.fl.invalidOp = false ∧
      o.fl.sysOverflow = false ∧ o.fl.sysUnderflow = false := by
  intro o r etiny
  have main := quantize_main c hc.toWFq x hx e he hgap hgap2 (Or.inl (by have := hc.2.1; have := hc.2.2.1; omega))
  by_cases hcond : e < etiny ∨ e > c.emax ∨ ndigits r.1 > c.prec ∨ (r.1 ≠ 0 ∧ e + (ndigits r.1 : Int) - 1 > c.emax)
  · rw [if_pos hcond]
    rw [if_pos hcond] at main
    simp only [o, main, invalidNaN, and_self]
  · rw [if_neg hcond]
    rw [if_neg hcond] at main
    exact main

/- REQUESTED STATEMENT `C09_quantize_allctx` (exactly `C09_quantize_partial` with `hc : c.WFq`): false when
   Precision exceeds 100001.  Counterexample (checked with #eval, scratch/Cex2.lean):
     c = {prec := 100002, emax := 100000, emin := -100000, mode := halfUp},
     x = 10^100002 · 10^-100000 (100003 digits, x.WF holds), e = -99999 (one digit dropped).
   The specification's coefficient 10^100001 has 100002 ≤ prec digits and e + 100002 - 1 = 2 ≤ emax, so the
   finite branch applies; in the model the frame's adjusted exponent 100001 exceeds the *package* limit
   MaxExponent, Round raises SystemOverflow and Quantize returns NaN/InvalidOperation.
   The variant below adds `hprec`: Precision ≤ 100001, or the result has at most 100001 digits.  Everything
   about `prec` versus `emax` is unrestricted. -/
theorem C09_quantize_allctx_partial (c : Ctx) (hc : c.WFq) (x : Dec) (hx : x.form = .finite) (hxw : x.WF)
    (e : Int) (he : -100000 ≤ e ∧ e ≤ 100000) (hgap : x.coeff = 0 ∨ x.exp - e ≤ 100000)
    (hgap2 : (ndigits x.coeff : Int) < e - x.exp ∨ e - x.exp < 100000 ∨
      (e - x.exp = 100000 ∧ ndigits (quantSpec c x e).1 ≤ ndigits (x.coeff / 10 ^ 100000)))
    (hprec : c.prec ≤ 100001 ∨ ndigits (quantSpec c x e).1 ≤ 100001) :
    let o := quantizeOp c x e
    let r := quantSpec c x e
    let etiny : Int := c.emin - (c.prec : Int) + 1
    if e < etiny ∨ e > c.emax ∨ ndigits r.1 > c.prec ∨ (r.1 ≠ 0 ∧ e + (ndigits r.1 : Int) - 1 > c.emax) then
      o.d = decNaN ∧ o.fl = Cond.cInvalidOp ∧ o.err = goError c.traps Cond.cInvalidOp
    else
      o.d = { form := .finite, neg := x.neg, exp := e, coeff := r.1 } ∧
      o.fl.inexact = r.2 ∧ (r.2 = true → o.fl.rounded = true) ∧
      o.fl.underflow = false ∧ o.fl.overflow = false ∧ o.fl.invalidOp = false ∧
      o.fl.sysOverflow = false ∧ o.fl.sysUnderflow = false := by
  intro o r etiny
  have main := quantize_main c hc x hx e he hgap hgap2 hprec
  by_cases hcond : e < etiny ∨ e > c.emax ∨ ndigits r.1 > c.prec ∨ (r.1 ≠ 0 ∧ e + (ndigits r.1 : Int) - 1 > c.emax)
  · rw [if_pos hcond]
    rw [if_pos hcond] at main
    simp only [o, main, invalidNaN, and_self]
  · rw [if_neg hcond]
    rw [if_neg hcond] at main
    exact main

/-- the requested `C09_quantize_allctx` statement, for every context with `Precision ≤ 100001` (in particular every
context with `Precision > MaxExponent + 1`, which the `WF` version excludes) -/
theorem C09_quantize_allctx_prec (c : Ctx) (hc : c.WFq) (hp : c.prec ≤ 100001) (x : Dec) (hx : x.form = .finite)
    (hxw : x.WF) (e : Int) (he : -100000 ≤ e ∧ e ≤ 100000) (hgap : x.coeff = 0 ∨ x.exp - e ≤ 100000)
    (hgap2 : (ndigits x.coeff : Int) < e - x.exp ∨ e - x.exp < 100000 ∨
      (e - x.exp = 100000 ∧ ndigits (quantSpec c x e).1 ≤ ndigits (x.coeff / 10 ^ 100000))) :
    let o := quantizeOp c x e
    let r := quantSpec c x e
    let etiny : Int := c.emin - (c.prec : Int) + 1
    if e < etiny ∨ e > c.emax ∨ ndigits r.1 > c.prec ∨ (r.1 ≠ 0 ∧ e + (ndigits r.1 : Int) - 1 > c.emax) then
      o.d = decNaN ∧ o.fl = Cond.cInvalidOp ∧ o.err = goError c.traps Cond.cInvalidOp
    else
      o.d = { form := .finite, neg := x.neg, exp := e, coeff := r.1 } ∧
      o.fl.inexact = r.2 ∧ (r.2 = true → o.fl.rounded = true) ∧
      o.fl.underflow = false ∧ o.fl.overflow = false ∧ o.fl.invalidOp = false ∧
      o.fl.sysOverflow = false ∧ o.fl.sysUnderflow = false :=
  C09_quantize_allctx_partial c hc x hx hxw e he hgap hgap2 (Or.inl hp)

/-- the complement of `hgap2`: when at least 100000 digits are discarded (and not all of them), with a
carry in the boundary case of exactly 100000, the model's Quantize hits a system limit inside `Round` and
returns NaN with InvalidOperation — whatever the specification says. -/
theorem C09_quantize_syslimit (c : Ctx) (hc : c.WF) (x : Dec) (hx : x.form = .finite) (e : Int)
    (hk : e - x.exp ≥ 100000) (hnd : e - x.exp ≤ (ndigits x.coeff : Int))
    (hcarry : e - x.exp = 100000 → ndigits (quantSpec c x e).1 > ndigits (x.coeff / 10 ^ 100000)) :
    let o := quantizeOp c x e
    o.d = decNaN ∧ o.fl = Cond.cInvalidOp ∧ o.err = goError c.traps Cond.cInvalidOp := by
  intro o
  obtain ⟨c1, c2, c3, c4, c5⟩ := hc
  have key := quantizeCore_sys c x hx e hk hnd hcarry
  have ho : o = invalidNaN c := by
    simp only [o]
    rw [quantizeOp_eq c x hx e]
    by_cases h1 : e < c.emin - (c.prec : Int) + 1
    · rw [if_pos h1]
    · rw [if_neg h1]
      by_cases h2 : (ndigits (quantizeCore c x e).1.coeff : Int) > (c.prec : Int) ∨ e > c.emax
      · rw [if_pos h2]
      · rw [if_neg h2]
        rcases key with ⟨_, k1⟩ | ⟨k1, _⟩
        · exfalso; omega
        · rw [if_pos (Or.inl (by simp [k1]))]
  rw [ho]
  simp [invalidNaN]

/-- Quantize of a zero (repair of finding F6: `quantize` no longer refuses a rescaling by more than 100000 digits
before looking at the coefficient).  For ANY operand exponent and any requested exponent `e` with
`Etiny ≤ e ≤ MaxExponent` (and within the package's limit `-100000 ≤ e`; `e ≤ 100000` follows from the context) the
result is the zero at exponent `e` with the operand's sign and a nil error.  The only condition that can be raised is
Rounded, and only when exactly one digit is dropped (`e = x.exp + 1`: the shifted frame then calls `Round` with
precision 0 on the one-digit coefficient `0`). -/
theorem C09_quantize_zero (c : Ctx) (hc : c.WFq) (x : Dec) (hx : x.form = .finite) (hz : x.coeff = 0) (e : Int)
    (he1 : c.emin - (c.prec : Int) + 1 ≤ e) (he2 : e ≤ c.emax) (he3 : -100000 ≤ e) :
    (quantizeOp c x e).d = { form := .finite, neg := x.neg, exp := e, coeff := 0 } ∧
    (quantizeOp c x e).fl = (if e - x.exp = 1 then Cond.cRounded else {}) ∧
    ((quantizeOp c x e).err = .none ∨ (e - x.exp = 1 ∧ (quantizeOp c x e).err = .trap)) := by
  obtain ⟨c1, c0, c3, c4, c5⟩ := hc
  have hn0 : ndigits 0 = 1 := by decide
  have hq := quantizeCore_zero c x hx hz e he2
  have hr := ctxRound_zero c c1 c3 c5 { x with exp := e } hx hz he1 he2 he3
  rw [quantizeOp_eq c x hx e, if_neg (by omega), hq]
  simp only [] at hr ⊢
  rw [hz] at hr
  rw [hz, hn0, if_neg (by omega), hr]
  by_cases h1 : e - x.exp = 1
  · simp only [h1, if_true]
    have hfl : (Cond.cRounded ||| ({} : Cond)) = Cond.cRounded := by decide
    rw [hfl, if_neg (by decide)]
    refine ⟨by simp [finish, hx, hz], rfl, ?_⟩
    simp only [finish, goError]
    have : (Cond.cRounded.sysOverflow || Cond.cRounded.sysUnderflow) = false := by decide
    rw [this]
    simp only [Bool.false_eq_true, if_false]
    by_cases ht : (Cond.cRounded &&& c.traps).any = true
    · right; rw [if_pos ht]; exact ⟨trivial, rfl⟩
    · left; rw [if_neg ht]
  · simp only [h1, if_false]
    have hfl : (({} : Cond) ||| ({} : Cond)) = {} := by decide
    rw [hfl, if_neg (by decide)]
    exact ⟨by simp [finish, hx, hz], rfl, Or.inl (by simp [finish, goError_zero])⟩

/-- finding F6, repaired: a zero operand (any exponent — in particular any exponent within the package limits, however
far from the requested one) and any requested exponent with `Etiny ≤ e ≤ MaxExponent` that does not drop exactly one
digit: the model returns the zero with that exponent and the operand's sign, no condition and a nil error.
`Quantize(0E+3878, -96125)` = `0E-96125` (example below); before the repair it was NaN + InvalidOperation. -/
theorem C09_quantize_zero_far (c : Ctx) (hc : c.WFq) (x : Dec) (hx : x.form = .finite) (hz : x.coeff = 0) (e : Int)
    (he1 : c.emin - (c.prec : Int) + 1 ≤ e) (he2 : e ≤ c.emax) (he3 : -100000 ≤ e) (hne : e - x.exp ≠ 1) :
    quantizeOp c x e =
      { d := { form := .finite, neg := x.neg, exp := e, coeff := 0 }, fl := {}, err := .none } := by
  obtain ⟨k1, k2, k3⟩ := C09_quantize_zero c hc x hx hz e he1 he2 he3
  rw [if_neg hne] at k2
  have k3' : (quantizeOp c x e).err = .none := by
    rcases k3 with h | ⟨h, _⟩
    · exact h
    · exact absurd h hne
  have ha : (quantizeOp c x e).aux = 0 := by
    rw [quantizeOp_eq c x hx e]
    split
    · rfl
    · split
      · rfl
      · split <;> rfl
  generalize quantizeOp c x e = o at k1 k2 k3' ha
  cases o
  simp only [] at k1 k2 k3' ha
  simp [k1, k2, k3', ha]

/-- the other half of the repair: a NON-zero coefficient that would have to be multiplied by more than `10^100000`
still ends in NaN with InvalidOperation (the rescaled coefficient has more than 100001 digits, beyond every
admissible precision; the model reaches the verdict through `quantize`'s SystemUnderflow exit). -/
theorem C09_quantize_far_nonzero (c : Ctx) (x : Dec) (hx : x.form = .finite) (hnz : x.coeff ≠ 0) (e : Int)
    (hfar : x.exp - e > 100000) :
    quantizeOp c x e = invalidNaN c := by
  have h1 : x.isZero = false := by simp [Dec.isZero, hnz]
  have hq : quantizeCore c x e = (x, Cond.cSysUnderflow ||| Cond.cUnderflow) := by
    unfold quantizeCore
    simp only [h1, Bool.not_false, if_true]
    rw [if_pos (by omega), if_pos (by simp only [MinExponent]; omega)]
  rw [quantizeOp_eq c x hx e, hq]
  simp only []
  split
  · rfl
  · split
    · rfl
    · rw [if_pos (Or.inr (by simp [Cond.cUnderflow]))]

/- ORIGINAL STATEMENT (false: counterexample (a) above, x = (10^100001 - 1)·10^-100000 — the model
   returns coefficient 1 with SystemOverflow instead of 10):
theorem C09_rtie (c : Ctx) (hc : c.WF) (x : Dec) (hx : x.form = .finite) (hxw : x.WF)
    (hfit : (ndigits (quantSpec c x 0).1 : Int) - 1 ≤ c.emax) :
    let o := roundToIntegralExactOp c x
    let r := quantSpec c x 0
    o.d = { form := .finite, neg := x.neg, exp := 0, coeff := r.1 } ∧
    o.fl.inexact = r.2 ∧ (r.2 = true → o.fl.rounded = true) ∧
    o.fl.underflow = false ∧ o.fl.overflow = false ∧ o.fl.invalidOp = false -/
theorem toIntegralSpecials_finite (c : Ctx) (x : Dec) (hx : x.form = .finite) :
    toIntegralSpecials c x = none := by
  simp [toIntegralSpecials, shouldSetAsNaN, Dec.isNaN, hx]

/-- RoundToIntegralExact = Quantize to exponent 0 without the digit limit -/
theorem C09_rtie_partial (c : Ctx) (hc : c.WF) (x : Dec) (hx : x.form = .finite) (hxw : x.WF)
    (hfit : (ndigits (quantSpec c x 0).1 : Int) - 1 ≤ c.emax)
    (hgap2 : (ndigits x.coeff : Int) < -x.exp ∨ -100000 < x.exp ∨
      (x.exp = -100000 ∧ ndigits (quantSpec c x 0).1 ≤ ndigits (x.coeff / 10 ^ 100000))) :
    let o := roundToIntegralExactOp c x
    let r := quantSpec c x 0
    o.d = { form := .finite, neg := x.neg, exp := 0, coeff := r.1 } ∧
    o.fl.inexact = r.2 ∧ (r.2 = true → o.fl.rounded = true) ∧
    o.fl.underflow = false ∧ o.fl.overflow = false ∧ o.fl.invalidOp = false ∧
    o.fl.sysOverflow = false ∧ o.fl.sysUnderflow = false := by
  intro o r
  obtain ⟨c1, c2, c3, c4, c5⟩ := hc
  obtain ⟨w1, w2, w3, w4⟩ := hxw
  have key := quantizeCore_spec c x hx 0 (Or.inr (by omega)) (by
    rcases hgap2 with h | h | h
    · left; omega
    · right; left; omega
    · right; right; exact ⟨by omega, h.2⟩)
  change QGood x 0 r (quantizeCore c x 0) ∨
      ((quantizeCore c x 0).2.overflow = true ∧
        ((ndigits r.1 : Int) - 1 > 100000 ∨ (r.1 ≠ 0 ∧ 0 + (ndigits r.1 : Int) - 1 > c.emax))) at key
  have ho : o = finish c (quantizeCore c x 0) := by
    simp only [o, roundToIntegralExactOp, toIntegralSpecials_finite c x hx]
  rcases key with ⟨g1, g2, g3, g4, g5, g6, g7, g8, g9⟩ | ⟨b1, b2⟩
  · rw [ho]
    simp only [finish, g1, g2, g4, g5, g6, g7, g8, hx, true_and, and_true]
    exact g3
  · exfalso
    change (ndigits r.1 : Int) - 1 ≤ c.emax at hfit
    omega

/-- the complement of `hgap2` for RoundToIntegralExact: with `x.exp = -100000` and a carry into a new
digit, the model reports a system-limit error (the destination is then unspecified). -/
theorem C09_rtie_syslimit (c : Ctx) (x : Dec) (hx : x.form = .finite)
    (hexp : x.exp = -100000) (hnd : 100000 ≤ ndigits x.coeff)
    (hcarry : ndigits (quantSpec c x 0).1 > ndigits (x.coeff / 10 ^ 100000)) :
    (roundToIntegralExactOp c x).err = .sys := by
  have key := quantizeCore_sys c x hx 0 (by omega) (by omega) (fun _ => hcarry)
  simp only [roundToIntegralExactOp, toIntegralSpecials_finite c x hx, finish]
  rcases key with ⟨k1, _⟩ | ⟨_, k2⟩
  · exfalso; omega
  · simp [goError, k2]

/-- RoundToIntegralValue: the same value, reporting neither Inexact nor Rounded -/
theorem C09_rtiv (c : Ctx) (hc : c.WF) (x : Dec) (hx : x.form = .finite) (hxw : x.WF)
    (hfit : (ndigits (quantSpec c x 0).1 : Int) - 1 ≤ c.emax) :
    let o := roundToIntegralValueOp c x
    o.d = (roundToIntegralExactOp c x).d ∧ o.fl.inexact = false ∧ o.fl.rounded = false := by
  intro o
  simp only [o, roundToIntegralValueOp, roundToIntegralExactOp, toIntegralSpecials_finite c x hx, finish,
    and_self]

/-- `⌈x⌉` and `⌊x⌋` of a finite decimal with `exp ≤ 0`, as integers -/
def ceilInt (x : Dec) : Int :=
  let p := 10 ^ (-x.exp).toNat
  if x.neg then -((x.coeff / p : Nat) : Int)
  else if x.coeff % p = 0 then ((x.coeff / p : Nat) : Int) else ((x.coeff / p + 1 : Nat) : Int)
def floorInt (x : Dec) : Int :=
  let p := 10 ^ (-x.exp).toNat
  if !x.neg then ((x.coeff / p : Nat) : Int)
  else if x.coeff % p = 0 then -((x.coeff / p : Nat) : Int) else -((x.coeff / p + 1 : Nat) : Int)

/-- Ceil returns the smallest integer not below x, exactly and with no condition, whenever that
integer fits the precision. -/
theorem C09_ceil (c : Ctx) (hc : c.WF) (x : Dec) (hx : x.form = .finite) (hexp : x.exp ≤ 0)
    (hfit : ndigits (ceilInt x).natAbs ≤ c.prec) :
    let o := ceilOp c x
    o.err = .none ∧ o.fl = {} ∧ o.d.form = .finite ∧ o.d.exp = 0 ∧
    (if o.d.neg then -(o.d.coeff : Int) else (o.d.coeff : Int)) = ceilInt x := by
  intro o
  obtain ⟨m1, m2⟩ := modf_spec x hx hexp
  have ho : o = if (modf x).2.sign > 0 then addOp c (modf x).1 decOne false else { d := (modf x).1 } := by
    simp only [o, ceilOp, toIntegralSpecials_finite c x hx]
  rw [ho, m1, m2]
  unfold ceilInt at hfit ⊢
  simp only [] at hfit ⊢
  generalize 10 ^ (-x.exp).toNat = p at *
  by_cases hm : x.coeff % p = 0
  · simp only [hm, if_true] at hfit ⊢
    cases hn : x.neg <;> simp
  · simp only [hm, if_false] at hfit ⊢
    cases hn : x.neg
    · simp only [hn] at hfit ⊢
      rw [if_pos (by decide)]
      have hf : ndigits (x.coeff / p + 1) ≤ c.prec := by
        rw [if_neg (by decide), Int.natAbs_natCast] at hfit; exact hfit
      rw [addOp_one c hc false _ hf]
      simp
    · simp

theorem C09_floor (c : Ctx) (hc : c.WF) (x : Dec) (hx : x.form = .finite) (hexp : x.exp ≤ 0)
    (hfit : ndigits (floorInt x).natAbs ≤ c.prec) :
    let o := floorOp c x
    o.err = .none ∧ o.fl = {} ∧ o.d.form = .finite ∧ o.d.exp = 0 ∧
    (if o.d.neg then -(o.d.coeff : Int) else (o.d.coeff : Int)) = floorInt x := by
  intro o
  obtain ⟨m1, m2⟩ := modf_spec x hx hexp
  have ho : o = if (modf x).2.sign < 0 then addOp c (modf x).1 decOne true else { d := (modf x).1 } := by
    simp only [o, floorOp, toIntegralSpecials_finite c x hx]
  rw [ho, m1, m2]
  unfold floorInt at hfit ⊢
  simp only [] at hfit ⊢
  generalize 10 ^ (-x.exp).toNat = p at *
  by_cases hm : x.coeff % p = 0
  · simp only [hm, if_true] at hfit ⊢
    cases hn : x.neg <;> simp
  · simp only [hm, if_false] at hfit ⊢
    cases hn : x.neg
    · simp
    · simp only [hn] at hfit ⊢
      rw [if_pos (by decide)]
      have hf : ndigits (x.coeff / p + 1) ≤ c.prec := by
        rw [if_neg (by decide), Int.natAbs_neg, Int.natAbs_natCast] at hfit; exact hfit
      rw [addOp_one c hc true _ hf]
      simp

/-- sign of zero (C08): a zero returned by Ceil carries the operand's sign (`Ceil(-0.05) = -0`, as
round-to-integral under RoundCeiling gives) -/
theorem C08_ceil_zero_sign (c : Ctx) (hc : c.WF) (x : Dec) (hx : x.form = .finite) (hexp : x.exp ≤ 0)
    (hfit : ndigits (ceilInt x).natAbs ≤ c.prec) :
    let o := ceilOp c x
    o.d.coeff = 0 → o.d.neg = x.neg := by
  intro o
  obtain ⟨m1, m2⟩ := modf_spec x hx hexp
  have ho : o = if (modf x).2.sign > 0 then addOp c (modf x).1 decOne false else { d := (modf x).1 } := by
    simp only [o, ceilOp, toIntegralSpecials_finite c x hx]
  rw [ho, m1, m2]
  unfold ceilInt at hfit
  simp only [] at hfit ⊢
  generalize 10 ^ (-x.exp).toNat = p at *
  by_cases hm : x.coeff % p = 0
  · simp only [hm, if_true] at hfit ⊢
    cases hn : x.neg <;> simp
  · simp only [hm, if_false] at hfit ⊢
    cases hn : x.neg
    · simp only [hn] at hfit ⊢
      rw [if_pos (by decide)]
      have hf : ndigits (x.coeff / p + 1) ≤ c.prec := by
        rw [if_neg (by decide), Int.natAbs_natCast] at hfit; exact hfit
      rw [addOp_one c hc false _ hf]
      simp
    · simp

/-- sign of zero (C08): a zero returned by Floor carries the operand's sign -/
theorem C08_floor_zero_sign (c : Ctx) (hc : c.WF) (x : Dec) (hx : x.form = .finite) (hexp : x.exp ≤ 0)
    (hfit : ndigits (floorInt x).natAbs ≤ c.prec) :
    let o := floorOp c x
    o.d.coeff = 0 → o.d.neg = x.neg := by
  intro o
  obtain ⟨m1, m2⟩ := modf_spec x hx hexp
  have ho : o = if (modf x).2.sign < 0 then addOp c (modf x).1 decOne true else { d := (modf x).1 } := by
    simp only [o, floorOp, toIntegralSpecials_finite c x hx]
  rw [ho, m1, m2]
  unfold floorInt at hfit
  simp only [] at hfit ⊢
  generalize 10 ^ (-x.exp).toNat = p at *
  by_cases hm : x.coeff % p = 0
  · simp only [hm, if_true] at hfit ⊢
    cases hn : x.neg <;> simp
  · simp only [hm, if_false] at hfit ⊢
    cases hn : x.neg
    · simp
    · simp only [hn] at hfit ⊢
      rw [if_pos (by decide)]
      have hf : ndigits (x.coeff / p + 1) ≤ c.prec := by
        rw [if_neg (by decide), Int.natAbs_neg, Int.natAbs_natCast] at hfit; exact hfit
      rw [addOp_one c hc true _ hf]
      simp

example : (ceilOp { prec := 9, emax := 99, emin := -99, mode := .halfUp } { coeff := 5, exp := -2, neg := true }).d
    = { coeff := 0, exp := 0, neg := true } := by decide

/-- an integer-valued x (exp > 0) is returned unchanged by Ceil and Floor -/
theorem C09_ceil_floor_int (c : Ctx) (x : Dec) (hx : x.form = .finite) (hexp : 0 < x.exp) :
    (ceilOp c x).d = x ∧ (floorOp c x).d = x ∧ (ceilOp c x).fl = {} ∧ (floorOp c x).fl = {} := by
  have hm : modf x = (x, { form := .finite, neg := x.neg, exp := 0, coeff := 0 }) := by
    unfold modf; rw [if_pos hexp]
  simp [ceilOp, floorOp, toIntegralSpecials_finite c x hx, hm, Dec.sign]

example : (quantizeOp { prec := 9, emax := 99, emin := -99, mode := .up } { coeff := 1, exp := -3 } 0).d
    = { coeff := 1, exp := 0 } := by decide
example : (quantizeOp { prec := 9, emax := 99, emin := 0, mode := .halfUp } { coeff := 7, exp := -1 } 0).d
    = { coeff := 1, exp := 0 } := by decide

/-- finding F6 repaired: `Quantize(0E+3878, -96125)` is `0E-96125` with no condition (it was NaN + InvalidOperation);
the same distance with the coefficient 1 is still NaN + InvalidOperation. -/
example : quantizeOp { prec := 5, emax := 100000, emin := -100000, mode := .halfUp } { coeff := 0, exp := 3878 } (-96125)
    = { d := { coeff := 0, exp := -96125 }, fl := {}, err := .none } := by decide
example : quantizeOp { prec := 5, emax := 100000, emin := -100000, mode := .halfUp }
      { coeff := 0, exp := 3878, neg := true } (-96125)
    = { d := { coeff := 0, exp := -96125, neg := true }, fl := {}, err := .none } := by decide
example : quantizeOp { prec := 5, emax := 100000, emin := -100000, mode := .halfUp } { coeff := 1, exp := 3878 } (-96125)
    = invalidNaN { prec := 5, emax := 100000, emin := -100000, mode := .halfUp } := by decide
/-- the one condition a zero can raise: exactly one digit dropped gives Rounded -/
example : (quantizeOp { prec := 5, emax := 99, emin := -99, mode := .halfUp } { coeff := 0, exp := -5 } (-4)).fl
    = Cond.cRounded := by decide
/-- why `C09_quantize_zero` asks for `-100000 ≤ e`: with Etiny = -100004 the zero at -100001 is refused -/
example : quantizeOp { prec := 5, emax := 100000, emin := -100000, mode := .halfUp } { coeff := 0, exp := 0 } (-100001)
    = invalidNaN { prec := 5, emax := 100000, emin := -100000, mode := .halfUp } := by decide

/-- non-vacuity of `C09_quantize_allctx`: Precision 9 > MaxExponent + 1 = 4; 123.4567891 quantized to
exponent -5 is 123.45679 (8 digits, adjusted exponent 2 ≤ 3); the old model returned NaN here. -/
example : ({ prec := 9, emax := 3, emin := -3, mode := .halfUp } : Ctx).WFq ∧
    ¬ ({ prec := 9, emax := 3, emin := -3, mode := .halfUp } : Ctx).WF := by decide
example : (quantizeOp { prec := 9, emax := 3, emin := -3, mode := .halfUp }
      { coeff := 1234567891, exp := -7 } (-5)).d = { coeff := 12345679, exp := -5 } := by decide
example : quantSpec { prec := 9, emax := 3, emin := -3, mode := .halfUp }
      { coeff := 1234567891, exp := -7 } (-5) = (12345679, true) := by decide

end Apd.Props

#print axioms Apd.Props.C09_quantize_allctx_partial
#print axioms Apd.Props.C09_quantize_allctx_prec
#print axioms Apd.Props.C09_quantize_partial
#print axioms Apd.Props.C09_quantize_syslimit
#print axioms Apd.Props.C09_quantize_zero
#print axioms Apd.Props.C09_quantize_zero_far
#print axioms Apd.Props.C09_quantize_far_nonzero
#print axioms Apd.Props.C09_rtie_partial
#print axioms Apd.Props.C09_rtie_syslimit
#print axioms Apd.Props.C09_rtiv
#print axioms Apd.Props.C09_ceil
#print axioms Apd.Props.C09_floor
#print axioms Apd.Props.C09_ceil_floor_int
