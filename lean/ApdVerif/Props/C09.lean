import ApdVerif.Spec.Agrees
/-!
# C09 — Quantize and RoundToIntegral produce the requested exponent, correctly rounded
-/
namespace Apd.Props
open Apd Apd.Oracle

/-- `x / 10^e` rounded to an integer in the context's mode: `(coefficient, digits were lost)` -/
def quantSpec (c : Ctx) (x : Dec) (e : Int) : Nat × Bool := roundAt c.mode x.neg x.coeff 1 x.exp e

/-- Quantize: exponent exactly `e`, coefficient `x/10^e` rounded in the context's mode, for every
magnitude of `x` relative to `10^e`; Inexact/Rounded iff digits were lost; never Underflow or
Overflow; InvalidOperation + NaN exactly when the coefficient needs more than Precision digits or
`e` (or the result's adjusted exponent) is outside the context's exponent range. -/
theorem C09_quantize (c : Ctx) (hc : c.WF) (x : Dec) (hx : x.form = .finite) (hxw : x.WF) (e : Int)
    (he : -100000 ≤ e ∧ e ≤ 100000) (hgap : x.exp - e ≤ 100000) :
    let o := quantizeOp c x e
    let r := quantSpec c x e
    let etiny : Int := c.emin - (c.prec : Int) + 1
    if e < etiny ∨ e > c.emax ∨ ndigits r.1 > c.prec ∨ (r.1 ≠ 0 ∧ e + (ndigits r.1 : Int) - 1 > c.emax) then
      o.d = decNaN ∧ o.fl = Cond.cInvalidOp ∧ o.err = goError c.traps Cond.cInvalidOp
    else
      o.d = { form := .finite, neg := x.neg, exp := e, coeff := r.1 } ∧
      o.fl.inexact = r.2 ∧ (r.2 = true → o.fl.rounded = true) ∧
      o.fl.underflow = false ∧ o.fl.overflow = false ∧ o.fl.invalidOp = false ∧
      o.fl.sysOverflow = false ∧ o.fl.sysUnderflow = false := by
  sorry

/-- RoundToIntegralExact = Quantize to exponent 0 without the digit limit -/
theorem C09_rtie (c : Ctx) (hc : c.WF) (x : Dec) (hx : x.form = .finite) (hxw : x.WF)
    (hfit : (ndigits (quantSpec c x 0).1 : Int) - 1 ≤ c.emax) :
    let o := roundToIntegralExactOp c x
    let r := quantSpec c x 0
    o.d = { form := .finite, neg := x.neg, exp := 0, coeff := r.1 } ∧
    o.fl.inexact = r.2 ∧ (r.2 = true → o.fl.rounded = true) ∧
    o.fl.underflow = false ∧ o.fl.overflow = false ∧ o.fl.invalidOp = false := by
  sorry

/-- RoundToIntegralValue: the same value, reporting neither Inexact nor Rounded -/
theorem C09_rtiv (c : Ctx) (hc : c.WF) (x : Dec) (hx : x.form = .finite) (hxw : x.WF)
    (hfit : (ndigits (quantSpec c x 0).1 : Int) - 1 ≤ c.emax) :
    let o := roundToIntegralValueOp c x
    o.d = (roundToIntegralExactOp c x).d ∧ o.fl.inexact = false ∧ o.fl.rounded = false := by
  sorry

/-- `⌈x⌉` and `⌊x⌋` of a finite decimal with `exp ≤ 0`, as integers -/
def ceilInt (x : Dec) : Int :=
  let p := 10 ^ (-x.exp).toNat
  if x.neg then -((x.coeff / p : Nat) : Int)
  else if x.coeff % p = 0 then ((x.coeff / p : Nat) : Int) else ((x.coeff / p + 1 : Nat) : Int)
def floorInt (x : Dec) : Int :=
  let p := 10 ^ (-x.exp).toNat
  if !x.neg then ((x.coeff / p : Nat) : Int)
  else if x.coeff % p = 0 then -((x.coeff / p : Nat) : Int) else -((x.coeff / p + 1 : Nat) : Int)

/-- Ceil returns the smallest integer not below x, exactly and with no condition, whenever that
integer fits the precision. -/
theorem C09_ceil (c : Ctx) (hc : c.WF) (x : Dec) (hx : x.form = .finite) (hexp : x.exp ≤ 0)
    (hfit : ndigits (ceilInt x).natAbs ≤ c.prec) :
    let o := ceilOp c x
    o.err = .none ∧ o.fl = {} ∧ o.d.form = .finite ∧ o.d.exp = 0 ∧
    (if o.d.neg then -(o.d.coeff : Int) else (o.d.coeff : Int)) = ceilInt x := by
  sorry

theorem C09_floor (c : Ctx) (hc : c.WF) (x : Dec) (hx : x.form = .finite) (hexp : x.exp ≤ 0)
    (hfit : ndigits (floorInt x).natAbs ≤ c.prec) :
    let o := floorOp c x
    o.err = .none ∧ o.fl = {} ∧ o.d.form = .finite ∧ o.d.exp = 0 ∧
    (if o.d.neg then -(o.d.coeff : Int) else (o.d.coeff : Int)) = floorInt x := by
  sorry

/-- an integer-valued x (exp > 0) is returned unchanged by Ceil and Floor -/
theorem C09_ceil_floor_int (c : Ctx) (x : Dec) (hx : x.form = .finite) (hexp : 0 < x.exp) :
    (ceilOp c x).d = x ∧ (floorOp c x).d = x ∧ (ceilOp c x).fl = {} ∧ (floorOp c x).fl = {} := by
  sorry

example : (quantizeOp { prec := 9, emax := 99, emin := -99, mode := .up } { coeff := 1, exp := -3 } 0).d
    = { coeff := 1, exp := 0 } := by decide
example : (quantizeOp { prec := 9, emax := 99, emin := 0, mode := .halfUp } { coeff := 7, exp := -1 } 0).d
    = { coeff := 1, exp := 0 } := by decide

end Apd.Props
