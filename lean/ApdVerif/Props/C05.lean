import ApdVerif.Lemmas.C05Lemmas
/-!
# C05 — any argument of a `Context` method may alias the destination or another argument

`<op>P_run` : `OpRun (prog c d x y) d h (model c (x.val h) (y.val h))` for every heap and every choice of the
destination cell and the operand pointers (cells or package constants), hence for every aliasing pattern.
`C05_<op>` (namespace `Apd.Props`, at the end) are the statements in the requested form, on cells.

Observation recorded by the proofs (`stale_exp_tail`, `mulP_run`): `Context.Mul` and `Context.Quo` call
`d.setExponent` while `d.Exponent` still holds the destination's PREVIOUS exponent.  On the normal exits it is
overwritten; on the system-limit exits ("exponent out of range", not delivered) it stays, and `Mul` then rounds `d`
with that stale exponent, so the returned flags of an undelivered `Mul` depend on the old contents of `d`
(Go: `Mul(d, 5E+60000, 7E+60000)` returns flags 5 if `d` was `0E0` and 47 if `d` was `0E-100004`).  The error class
is `sys` either way, which is all C05/C06 claim for undelivered outcomes.
-/
set_option linter.unusedSimpArgs false
namespace Apd.Imp
open Apd Apd.Cond Prog

theorem addP_run (c : Ctx) (d : Cell) (x y : Src) (sub : Bool) (h : Heap) :
    OpRun (addP c d x y sub) d h (addOp c (x.val h) (y.val h) sub) := by
  unfold OpRun addP
  simp only [run_bind, run_shouldSetAsNaNP, Option.map_some, run_ite, run_pure, run_rdNeg, run_rdForm]
  by_cases hn : shouldSetAsNaN (x.val h) (some (y.val h)) = true
  · have hm : addOp c (x.val h) (y.val h) sub = setAsNaN c (x.val h) (some (y.val h)) := by
      unfold addOp; rw [if_pos hn]
    simp only [hn, if_true, hm]
    exact nanPrologue_run c d x (some y) h hn
  · simp only [hn, if_false, Bool.false_eq_true]
    cases hxi : ((x.val h).form == Form.infinite) <;> cases hyi : ((y.val h).form == Form.infinite) <;>
      bsimp [hxi, hyi]
    rotate_left
    · have hm : addOp c (x.val h) (y.val h) sub = { d := { decInf with neg := (y.val h).neg != sub } } := by
        unfold addOp; bsimp [hn, hxi, hyi]
      simp only [hm, run_setDec, run_wrNeg, Heap.set_set, Heap.set_same, Src.val_const]
      op_exact
    · have hm : addOp c (x.val h) (y.val h) sub = { d := x.val h } := by
        unfold addOp; bsimp [hn, hxi, hyi]
      simp only [hm, run_setDec]
      op_exact
    · cases hng : ((x.val h).neg != ((y.val h).neg != sub)) <;> bsimp [hng]
      · have hm : addOp c (x.val h) (y.val h) sub = { d := x.val h } := by
          unfold addOp; bsimp [hn, hxi, hyi, hng]
        simp only [hm, run_setDec]
        op_exact
      · have hm : addOp c (x.val h) (y.val h) sub = invalidNaN c := by
          unfold addOp; bsimp [hn, hxi, hyi, hng]
        simp only [hm, run_setDec, run_retFlags]
        op_exact
    · have hi : ((x.val h).form == Form.infinite || (y.val h).form == Form.infinite) = false := by
        simp only [hxi, hyi, Bool.or_self]
      rcases run_upscaleP x y h with ⟨hu, hr⟩ | ⟨ra, rb, av, bv, s, hu, hr, hra, hrb⟩
      · have hm : addOp c (x.val h) (y.val h) sub = failWith .sys := by
          unfold addOp; bsimp [hn, hi, hu]
        simp only [hr, hm, run_pure]
        exact ⟨{}, 0, h d, by simp [failWith], fun hd => absurd hd not_delivered_sys⟩
      · have hm : addOp c (x.val h) (y.val h) sub =
            finish c (ctxRound c (addCoreD c.mode (x.val h).neg ((y.val h).neg != sub) av bv s)) := by
          unfold addOp addCoreD; bsimp [hn, hi, hu]
        simp only [hr, hm]
        rw [run_addFiniteP c d x y _ _ ra rb s h av bv
          (fun v hv => hra _ (Src.coeff_set x d h v hv)) (fun v hv => hrb _ (Src.coeff_set y d h v hv))]
        op_exact

theorem absP_run (c : Ctx) (d : Cell) (x : Src) (h : Heap) :
    OpRun (absP c d x) d h (absOp c (x.val h)) := by
  unfold OpRun absP
  simp only [run_bind, run_shouldSetAsNaNP, Option.map_none, run_ite, run_pure]
  by_cases hn : shouldSetAsNaN (x.val h) none = true
  · have hm : absOp c (x.val h) = setAsNaN c (x.val h) none := by unfold absOp; rw [if_pos hn]
    simp only [hn, if_true, hm]
    exact nanPrologue_run c d x none h hn
  · have hm : absOp c (x.val h) = finish c (ctxRound c (x.val h).absD) := by unfold absOp; rw [if_neg hn]
    bsimp [hn, hm, run_absDec, run_roundP, run_retFlags, Src.val_cell, Heap.set_same, Heap.set_set]
    op_exact

theorem negP_run (c : Ctx) (d : Cell) (x : Src) (h : Heap) :
    OpRun (negP c d x) d h (negOp c (x.val h)) := by
  unfold OpRun negP
  simp only [run_bind, run_shouldSetAsNaNP, Option.map_none, run_ite, run_pure]
  by_cases hn : shouldSetAsNaN (x.val h) none = true
  · have hm : negOp c (x.val h) = setAsNaN c (x.val h) none := by unfold negOp; rw [if_pos hn]
    simp only [hn, if_true, hm]
    exact nanPrologue_run c d x none h hn
  · have hm : negOp c (x.val h) = finish c (ctxRound c (x.val h).negD) := by unfold negOp; rw [if_neg hn]
    bsimp [hn, hm, run_negDec, run_roundP, run_retFlags, Src.val_cell, Heap.set_same, Heap.set_set]
    op_exact

theorem roundOpP_run (c : Ctx) (d : Cell) (x : Src) (h : Heap) :
    OpRun (roundOpP c d x) d h (roundOp c (x.val h)) := by
  unfold OpRun roundOpP
  simp only [run_bind, run_shouldSetAsNaNP, Option.map_none, run_ite, run_pure]
  by_cases hn : shouldSetAsNaN (x.val h) none = true
  · have hm : roundOp c (x.val h) = setAsNaN c (x.val h) none := by unfold roundOp; rw [if_pos hn]
    simp only [hn, if_true, hm]
    exact nanPrologue_run c d x none h hn
  · have hm : roundOp c (x.val h) = finish c (ctxRound c (x.val h)) := by unfold roundOp; rw [if_neg hn]
    bsimp [hn, hm, run_roundP, run_retFlags, Src.val_cell, Heap.set_same, Heap.set_set]
    op_exact

/-- the exact product formed by `Context.Mul` before `setExponent` -/
def mulD0 (x y : Dec) : Dec := { form := .finite, neg := x.neg != y.neg, exp := 0, coeff := x.coeff * y.coeff }

theorem mulP_run (c : Ctx) (d : Cell) (x y : Src) (h : Heap) :
    OpRun (mulP c d x y) d h (mulOp c (x.val h) (y.val h)) := by
  unfold OpRun mulP
  simp only [run_bind, run_shouldSetAsNaNP, Option.map_some, run_ite, run_pure, run_rdNeg, run_rdForm, run_isZeroP]
  by_cases hn : shouldSetAsNaN (x.val h) (some (y.val h)) = true
  · have hm : mulOp c (x.val h) (y.val h) = setAsNaN c (x.val h) (some (y.val h)) := by
      unfold mulOp; rw [if_pos hn]
    simp only [hn, if_true, hm]
    exact nanPrologue_run c d x (some y) h hn
  · bsimp [hn]
    cases hi : ((x.val h).form == Form.infinite || (y.val h).form == Form.infinite) <;> bsimp [hi]
    · simp only [run_rdCoeff, run_wrCoeff, run_wrNeg, run_wrForm, run_rdExp, run_setExponentP_none, run_roundP,
        run_retFlags, Heap.set_same, Heap.set_set, Src.val_cell, Src.exp_set]
      have hm : mulOp c (x.val h) (y.val h) =
          finish c ((ctxRound c (setExponent c (mulD0 (x.val h) (y.val h)) {} [(x.val h).exp, (y.val h).exp]).1).1,
            (setExponent c (mulD0 (x.val h) (y.val h)) {} [(x.val h).exp, (y.val h).exp]).2 |||
            (ctxRound c (setExponent c (mulD0 (x.val h) (y.val h)) {} [(x.val h).exp, (y.val h).exp]).1).2) := by
        unfold mulOp mulD0; bsimp [hn, hi]
      rw [hm]
      obtain ⟨e2, e1⟩ := setExponent_exp c (mulD0 (x.val h) (y.val h)) (h d).exp {} [(x.val h).exp, (y.val h).exp]
      have e0 : (Dec.mk .finite ((x.val h).neg != (y.val h).neg) (h d).exp ((x.val h).coeff * (y.val h).coeff)) =
          { mulD0 (x.val h) (y.val h) with exp := (h d).exp } := rfl
      rw [e0]
      unfold finish ctxRound
      by_cases hns : NoSys (setExponent c (mulD0 (x.val h) (y.val h)) {} [(x.val h).exp, (y.val h).exp]).2
      · rw [e2, e1 hns]
        op_exact
      · rw [e2, goError_sys_left _ _ _ hns, goError_sys_left _ _ _ hns]
        exact ⟨_, _, _, rfl, fun hd => absurd hd not_delivered_sys⟩
    · cases hz : ((x.val h).isZero || (y.val h).isZero)
      · have hm : mulOp c (x.val h) (y.val h) = { d := { decInf with neg := (x.val h).neg != (y.val h).neg } } := by
          unfold mulOp; bsimp [hn, hi, hz]
        have hz' : (if (x.val h).isZero = true then (true, h) else ((y.val h).isZero, h)) = (false, h) := by
          cases hx : (x.val h).isZero <;> simp_all
        simp only [hz', hm, run_setDec, run_wrNeg, Heap.set_set, Heap.set_same, Src.val_const, Bool.false_eq_true,
          if_false]
        op_exact
      · have hm : mulOp c (x.val h) (y.val h) = invalidNaN c := by
          unfold mulOp; bsimp [hn, hi, hz]
        have hz' : (if (x.val h).isZero = true then (true, h) else ((y.val h).isZero, h)) = (true, h) := by
          cases hx : (x.val h).isZero <;> simp_all
        simp only [hz', hm, run_setDec, run_retFlags, if_true]
        op_exact

/-- `Context.quoSpecials` -/
theorem run_quoSpecialsP (c : Ctx) (d : Cell) (x y : Src) (cc : Bool) (h : Heap) :
    (quoSpecials c (x.val h) (y.val h) cc = none ∧ run (quoSpecialsP c d x y cc) h = (none, h)) ∨
    ∃ o v, quoSpecials c (x.val h) (y.val h) cc = some o ∧
      run (quoSpecialsP c d x y cc) h = (some (o.fl, o.err), h.set d v) ∧ (Delivered o.err → v = o.d) ∧ o.aux = 0 := by
  unfold quoSpecialsP
  simp only [run_bind, run_shouldSetAsNaNP, Option.map_some, run_ite, run_pure, run_rdNeg, run_rdForm, run_isZeroP]
  by_cases hn : shouldSetAsNaN (x.val h) (some (y.val h)) = true
  · have hm : quoSpecials c (x.val h) (y.val h) cc = some (setAsNaN c (x.val h) (some (y.val h))) := by
      unfold quoSpecials; rw [if_pos hn]
    simp only [hn, if_true, hm, run_setAsNaNP c d x (some y) h hn, Option.map_some]
    exact Or.inr ⟨_, _, rfl, rfl, fun _ => rfl, by simp⟩
  · bsimp [hn]
    cases hxi : ((x.val h).form == Form.infinite) <;> cases hyi : ((y.val h).form == Form.infinite) <;>
      bsimp [hxi, hyi]
    · cases hyz : (y.val h).isZero <;> bsimp [hyz]
      · cases hp : (c.prec == 0) <;> bsimp [hp]
        · left
          unfold quoSpecials; bsimp [hn, hxi, hyi, hyz, hp]
          exact ⟨trivial, trivial⟩
        · right
          refine ⟨failWith .zeroPrec, h d, ?_, by simp [failWith], fun hd => absurd hd not_delivered_zeroPrec, rfl⟩
          unfold quoSpecials; bsimp [hn, hxi, hyi, hyz, hp]
      · right
        cases hxz : (x.val h).isZero <;> bsimp [hxz]
        · refine ⟨?o1, ?v1, ?h1_1, ?h2_1, ?h3_1, ?h4_1⟩
          case h1_1 => (unfold quoSpecials; bsimp [hn, hxi, hyi, hyz, hxz]) <;> rfl
          case h2_1 => simp only [run_setDec, run_wrNeg, Heap.set_set, Heap.set_same, Src.val_const]; rfl
          case h3_1 => exact fun _ => rfl
          case h4_1 => rfl
        · refine ⟨?o2, ?v2, ?h1_2, ?h2_2, ?h3_2, ?h4_2⟩
          case h1_2 => (unfold quoSpecials; bsimp [hn, hxi, hyi, hyz, hxz]) <;> rfl
          case h2_2 => simp only [run_setDec, Src.val_const]; rfl
          case h3_2 => exact fun _ => rfl
          case h4_2 => rfl
    · right
      cases hcc : cc <;> bsimp [hcc]
      · refine ⟨?o3, ?v3, ?h1_3, ?h2_3, ?h3_3, ?h4_3⟩
        case h1_3 => (unfold quoSpecials; bsimp [hn, hxi, hyi, hcc]) <;> rfl
        case h2_3 => simp only [run_setInt64P, run_wrNeg, Heap.set_set, Heap.set_same]; rfl
        case h3_3 => exact fun _ => rfl
        case h4_3 => rfl
      · refine ⟨?o4, ?v4, ?h1_4, ?h2_4, ?h3_4, ?h4_4⟩
        case h1_4 => (unfold quoSpecials; bsimp [hn, hxi, hyi, hcc]) <;> rfl
        case h2_4 => simp only [run_setInt64P, run_wrNeg, run_wrExp, Heap.set_set, Heap.set_same]; rfl
        case h3_4 => exact fun _ => rfl
        case h4_4 => rfl
    · right
      refine ⟨?o5, ?v5, ?h1_5, ?h2_5, ?h3_5, ?h4_5⟩
      case h1_5 => (unfold quoSpecials; bsimp [hn, hxi, hyi]) <;> rfl
      case h2_5 => simp only [run_setDec, run_wrNeg, Heap.set_set, Heap.set_same, Src.val_const]; rfl
      case h3_5 => exact fun _ => rfl
      case h4_5 => rfl
    · right
      refine ⟨?o6, ?v6, ?h1_6, ?h2_6, ?h3_6, ?h4_6⟩
      case h1_6 => (unfold quoSpecials; bsimp [hn, hxi, hyi]) <;> rfl
      case h2_6 => simp only [run_setDec, Src.val_const]; rfl
      case h3_6 => exact fun _ => rfl
      case h4_6 => rfl

/-- `quoOp` on finite non-special operands, in terms of the kernel `quoK` -/
theorem quoOp_finite (c : Ctx) (x y : Dec) (hs : quoSpecials c x y true = none) (hz : x.isZero = false) :
    quoOp c x y =
      (let k := quoK c.prec x.coeff y.coeff
       let neg := x.neg != y.neg
       let shift := x.exp - y.exp
       let adj := shift + (-k.adjCoeffs) + (-k.adjExp10) + (ndigits k.q : Int) - 1
       let st : Nat × Int × Cond :=
        if k.rem != 0 then
          if adj ≥ c.emin then
            if shouldAddOne c.mode k.q neg (cmpNat (2 * k.rem) k.divisor) then
              ((roundAddOne k.q 0).1, (roundAddOne k.q 0).2, cInexact ||| cRounded)
            else (k.q, 0, cInexact ||| cRounded)
          else (k.q * 10 + 1, -1, {})
        else (k.q, 0, {})
       let r := setExponent c { form := .finite, neg := neg, exp := 0, coeff := st.1 } st.2.2
                 [shift, -k.adjCoeffs, -k.adjExp10, st.2.1]
       finish c (r.1, st.2.2 ||| r.2)) := by
  unfold quoOp quoK
  simp only [hs, hz, Bool.false_eq_true, if_false]

@[simp] theorem run_quoTailP_none (c : Ctx) (d : Cell) (res : Cond) (xs : List Int) (h : Heap) :
    run (quoTailP c d none res xs) h =
      ((res ||| (setExponent c (h d) res xs).2, goError c.traps (res ||| (setExponent c (h d) res xs).2), 0),
       h.set d (setExponent c (h d) res xs).1) := by
  unfold quoTailP; simp

theorem run_quoTailP_some (c : Ctx) (d : Cell) (n : Nat) (res : Cond) (xs : List Int) (h : Heap)
    (hn : n = ndigits (h d).coeff) :
    run (quoTailP c d (some n) res xs) h =
      ((res ||| (setExponent c (h d) res xs).2, goError c.traps (res ||| (setExponent c (h d) res xs).2), 0),
       h.set d (setExponent c (h d) res xs).1) := by
  unfold quoTailP; simp [run_setExponentP_some c d n res xs h hn]

theorem quoP_run (c : Ctx) (d : Cell) (x y : Src) (h : Heap) :
    OpRun (quoP c d x y) d h (quoOp c (x.val h) (y.val h)) := by
  unfold OpRun quoP
  rcases run_quoSpecialsP c d x y true h with ⟨hs, hr⟩ | ⟨o, v, hs, hr, hd, ha⟩
  · simp only [run_bind, hr, run_rdNeg, run_rdExp, run_isZeroP, run_ite]
    cases hz : (x.val h).isZero <;> bsimp [hz]
    · rw [quoOp_finite c _ _ hs hz]
      simp only [run_bind, run_rdCoeff, run_wrCoeff, run_wrForm, run_wrNeg, run_numDigitsP, run_ite, run_rdNeg,
        run_quoTailP_none, Heap.set_same, Heap.set_set, Src.val_cell]
      cases hrem : ((quoK c.prec (x.val h).coeff (y.val h).coeff).rem != 0) <;> bsimp [hrem]
      · rw [run_quoTailP_some _ _ _ _ _ _ (by simp)]
        simp only [Heap.set_same, Heap.set_set, finish]
        exact stale_exp_tail c d h ⟨.finite, _, 0, _⟩ (h d).exp _ _
      · bcases hadj : (x.val h).exp - (y.val h).exp + -(quoK c.prec (x.val h).coeff (y.val h).coeff).adjCoeffs +
            -(quoK c.prec (x.val h).coeff (y.val h).coeff).adjExp10 +
            ↑(ndigits (quoK c.prec (x.val h).coeff (y.val h).coeff).q) - 1 ≥ c.emin
        · cases hadd : shouldAddOne c.mode (quoK c.prec (x.val h).coeff (y.val h).coeff).q
              ((x.val h).neg != (y.val h).neg)
              (cmpNat (2 * (quoK c.prec (x.val h).coeff (y.val h).coeff).rem)
                (quoK c.prec (x.val h).coeff (y.val h).coeff).divisor) <;> bsimp [hadd]
          · rw [run_quoTailP_some _ _ _ _ _ _ (by simp)]
            simp only [Heap.set_same, Heap.set_set, finish]
            exact stale_exp_tail c d h ⟨.finite, _, 0, _⟩ (h d).exp _ _
          · simp only [run_bind, run_rdCoeff, run_wrCoeff, run_quoTailP_none, Heap.set_same, Heap.set_set,
              Src.val_cell, finish]
            exact stale_exp_tail c d h ⟨.finite, _, 0, _⟩ (h d).exp _ _
        · simp only [run_bind, run_rdCoeff, run_wrCoeff, run_quoTailP_none, Heap.set_same, Heap.set_set,
            Src.val_cell, finish]
          exact stale_exp_tail c d h ⟨.finite, _, 0, _⟩ (h d).exp _ _
    · have hm : quoOp c (x.val h) (y.val h) =
          finish c (setExponent c { form := .finite, neg := (x.val h).neg != (y.val h).neg, exp := 0, coeff := 0 } {}
            [(x.val h).exp - (y.val h).exp]) := by
        unfold quoOp; simp only [hs, hz, if_true]
      simp only [hm, run_bind, run_setDec, run_wrNeg, run_setExponentP_none, run_retFlags, Heap.set_same,
        Heap.set_set, Src.val_const, finish]
      op_exact
  · have hm : quoOp c (x.val h) (y.val h) = o := by unfold quoOp; simp only [hs]
    simp only [run_bind, hr, run_pure, hm]
    exact ⟨_, _, _, rfl, fun hdel => ⟨rfl, ha.symm, hd hdel⟩⟩

theorem quoIntegerP_run (c : Ctx) (d : Cell) (x y : Src) (h : Heap) :
    OpRun (quoIntegerP c d x y) d h (quoIntegerOp c (x.val h) (y.val h)) := by
  unfold OpRun quoIntegerP
  rcases run_quoSpecialsP c d x y false h with ⟨hs, hr⟩ | ⟨o, v, hs, hr, hd, ha⟩
  · simp only [run_bind, hr, run_rdNeg]
    rcases run_upscaleP x y h with ⟨hu, hr2⟩ | ⟨ra, rb, av, bv, s, hu, hr2, hra, hrb⟩
    · have hm : quoIntegerOp c (x.val h) (y.val h) = failWith .sys := by
        unfold quoIntegerOp; simp only [hs, hu]
      simp only [hr2, hm, run_pure]
      exact ⟨{}, 0, h d, by simp [failWith], fun hd => absurd hd not_delivered_sys⟩
    · simp only [hr2, run_bind, run_rdB, hra h rfl, hrb h rfl, run_wrCoeff, run_wrForm, run_numDigitsP, run_ite,
        run_setDec, run_wrExp, run_wrNeg, run_retFlags, run_pure, Heap.set_same, Heap.set_set, Src.val_cell,
        Src.val_const]
      bcases hnd : (ndigits (av / bv) : Int) > (c.prec : Int)
      · have hm : quoIntegerOp c (x.val h) (y.val h) =
            { d := { decNaN with neg := (x.val h).neg != (y.val h).neg }, fl := cDivImpossible,
              err := goError c.traps cDivImpossible } := by
          unfold quoIntegerOp; simp only [hs, hu, hnd, if_true]
        rw [hm]; op_exact
      · have hm : quoIntegerOp c (x.val h) (y.val h) =
            { d := { form := .finite, neg := (x.val h).neg != (y.val h).neg, exp := 0, coeff := av / bv } } := by
          unfold quoIntegerOp; simp only [hs, hu, hnd, if_false]
        rw [hm]; op_exact
  · have hm : quoIntegerOp c (x.val h) (y.val h) = o := by unfold quoIntegerOp; simp only [hs]
    simp only [run_bind, hr, run_pure, hm]
    exact ⟨_, _, _, rfl, fun hdel => ⟨rfl, ha.symm, hd hdel⟩⟩

theorem remP_run (c : Ctx) (d : Cell) (x y : Src) (h : Heap) :
    OpRun (remP c d x y) d h (remOp c (x.val h) (y.val h)) := by
  unfold OpRun remP
  simp only [run_bind, run_shouldSetAsNaNP, Option.map_some, run_ite, run_pure, run_rdForm, run_isZeroP]
  by_cases hn : shouldSetAsNaN (x.val h) (some (y.val h)) = true
  · have hm : remOp c (x.val h) (y.val h) = setAsNaN c (x.val h) (some (y.val h)) := by
      unfold remOp; rw [if_pos hn]
    simp only [hn, if_true, hm]
    exact nanPrologue_run c d x (some y) h hn
  · bsimp [hn]
    cases hxf : ((x.val h).form != Form.finite) <;> bsimp [hxf]
    rotate_left
    · have hm : remOp c (x.val h) (y.val h) = invalidNaN c := by unfold remOp; bsimp [hn, hxf]
      simp only [hm, run_setDec, run_retFlags]
      op_exact
    cases hyi : ((y.val h).form == Form.infinite) <;> bsimp [hyi]
    rotate_left
    · have hm : remOp c (x.val h) (y.val h) = finish c (ctxRound c (x.val h)) := by
        unfold remOp; bsimp [hn, hxf, hyi]
      simp only [hm, run_setDec, run_roundP, run_retFlags, Heap.set_same, Heap.set_set, Src.val_cell]
      op_exact
    cases hyz : (y.val h).isZero <;> bsimp [hyz]
    rotate_left
    · cases hxz : (x.val h).isZero
      · have hm : remOp c (x.val h) (y.val h) = invalidNaN c := by unfold remOp; bsimp [hn, hxf, hyi, hyz, hxz]
        bsimp [hm, run_setDec, run_retFlags]
        op_exact
      · have hm : remOp c (x.val h) (y.val h) =
            { d := decNaN, fl := cDivUndefined, err := goError c.traps cDivUndefined } := by
          unfold remOp; bsimp [hn, hxf, hyi, hyz, hxz]
        bsimp [hm, run_setDec, run_retFlags]
        op_exact
    rcases run_upscaleP x y h with ⟨hu, hr2⟩ | ⟨ra, rb, av, bv, s, hu, hr2, hra, hrb⟩
    · have hm : remOp c (x.val h) (y.val h) = failWith .sys := by
        unfold remOp; bsimp [hn, hxf, hyi, hyz, hu]
      simp only [hr2, hm, run_pure]
      exact ⟨{}, 0, h d, by simp [failWith], fun hd => absurd hd not_delivered_sys⟩
    · simp only [hr2, run_bind, run_rdB, hra h rfl, hrb h rfl, run_wrCoeff, run_ite, run_setDec, run_retFlags,
        run_wrForm, run_wrExp, run_rdNeg, run_wrNeg, run_roundP, Heap.set_same, Heap.set_set, Src.val_cell,
        Src.val_const, Src.neg_set]
      bcases hnd : (ndigits (av / bv) : Int) > (c.prec : Int)
      · have hm : remOp c (x.val h) (y.val h) =
            { d := decNaN, fl := cDivImpossible, err := goError c.traps cDivImpossible } := by
          unfold remOp; bsimp [hn, hxf, hyi, hyz, hu, hnd]
        rw [hm]; op_exact
      · have hm : remOp c (x.val h) (y.val h) =
            finish c (ctxRound c { form := .finite, neg := (x.val h).neg, exp := s, coeff := av % bv }) := by
          unfold remOp; bsimp [hn, hxf, hyi, hyz, hu, hnd]
        rw [hm]; op_exact

theorem cmpOpP_run (c : Ctx) (d : Cell) (x y : Src) (h : Heap) :
    OpRun (cmpOpP c d x y) d h (cmpOp c (x.val h) (y.val h)) := by
  unfold OpRun cmpOpP
  simp only [run_bind, run_shouldSetAsNaNP, Option.map_some, run_ite, run_pure]
  by_cases hn : shouldSetAsNaN (x.val h) (some (y.val h)) = true
  · have hm : cmpOp c (x.val h) (y.val h) = setAsNaN c (x.val h) (some (y.val h)) := by
      unfold cmpOp; rw [if_pos hn]
    simp only [hn, if_true, hm]
    exact nanPrologue_run c d x (some y) h hn
  · have hm : cmpOp c (x.val h) (y.val h) = { d := decOfInt ((x.val h).cmp (y.val h)) } := by
      unfold cmpOp; rw [if_neg hn]
    bsimp [hn, hm, run_cmpP, run_setInt64P]
    op_exact

theorem reduceP_run (c : Ctx) (d : Cell) (x : Src) (h : Heap) :
    OpRun (reduceP c d x) d h (reduceOp c (x.val h)) := by
  unfold OpRun reduceP
  simp only [run_bind, run_shouldSetAsNaNP, Option.map_none, run_ite, run_pure]
  by_cases hn : shouldSetAsNaN (x.val h) none = true
  · have hm : reduceOp c (x.val h) = setAsNaN c (x.val h) none := by unfold reduceOp; rw [if_pos hn]
    simp only [hn, if_true, hm]
    exact nanPrologue_run c d x none h hn
  · have hm : reduceOp c (x.val h) =
        { d := { (reduceD (ctxRound c (x.val h)).1).1 with neg := (x.val h).neg }, fl := (ctxRound c (x.val h)).2,
          err := goError c.traps (ctxRound c (x.val h)).2, aux := (reduceD (ctxRound c (x.val h)).1).2 } := by
      unfold reduceOp; rw [if_neg hn]
    bsimp [hn, hm, run_rdNeg, run_roundP, run_reduceDec, run_wrNeg, Heap.set_same, Heap.set_set, Src.val_cell]
    op_exact

/-- `Context.quantize(d, v, exp)` for every `d`, `v` -/
theorem run_quantizeCoreP (c : Ctx) (d : Cell) (v : Src) (exp : Int) (h : Heap) :
    run (quantizeCoreP c d v exp) h =
      ((quantizeCore c (v.val h) exp).2, h.set d (quantizeCore c (v.val h) exp).1) := by
  unfold quantizeCoreP quantizeCore
  simp only [run_bind, run_rdExp, run_setDec, run_ite, run_pure, run_rdCoeff, run_wrCoeff, run_wrExp,
    run_numDigitsP, run_isZeroP, run_rdNeg, run_roundP, Heap.set_same, Heap.set_set, Src.val_cell]
  bcases h1 : exp - (v.val h).exp < 0
  · cases h5 : (v.val h).isZero <;> bsimp [h5]
    · bcases h2 : exp - (v.val h).exp < MinExponent
  bcases h3 : exp - (v.val h).exp > 0
  · bcases h4 : (ndigits (v.val h).coeff : Int) - (exp - (v.val h).exp) < 0
    · cases h5 : (v.val h).isZero <;> bsimp [h5]
      cases h6 : shouldAddOne c.mode 0 (v.val h).neg (-1) <;> bsimp [h6] <;>
        simp only [Heap.set_same, Heap.set_set]
    · split_ifs <;> simp only [Heap.set_same, Heap.set_set]

theorem quantizeP_run (c : Ctx) (d : Cell) (x : Src) (exp : Int) (h : Heap) :
    OpRun (quantizeP c d x exp) d h (quantizeOp c (x.val h) exp) := by
  unfold OpRun quantizeP
  simp only [run_bind, run_shouldSetAsNaNP, Option.map_none, run_ite, run_pure, run_rdForm]
  by_cases hn : shouldSetAsNaN (x.val h) none = true
  · have hm : quantizeOp c (x.val h) exp = setAsNaN c (x.val h) none := by unfold quantizeOp; rw [if_pos hn]
    simp only [hn, if_true, hm]
    exact nanPrologue_run c d x none h hn
  · bsimp [hn]
    cases h1 : ((x.val h).form == Form.infinite || decide (exp < c.emin - (c.prec : Int) + 1)) <;> bsimp [h1]
    rotate_left
    · have hm : quantizeOp c (x.val h) exp = invalidNaN c := by unfold quantizeOp; bsimp [hn, h1]
      simp only [hm, run_setDec, run_retFlags]
      op_exact
    simp only [run_quantizeCoreP, run_numDigitsP, run_setDec, run_retFlags, run_roundP, Heap.set_same, Heap.set_set,
      Src.val_cell, run_bind, run_ite]
    cases h2 : (decide ((ndigits (quantizeCore c (x.val h) exp).1.coeff : Int) > (c.prec : Int)) || decide (exp > c.emax))
      <;> bsimp [h2]
    rotate_left
    · have hm : quantizeOp c (x.val h) exp = invalidNaN c := by unfold quantizeOp; bsimp [hn, h1, h2]
      simp only [hm, run_setDec, run_retFlags, Heap.set_set]
      op_exact
    cases h3 : (((quantizeCore c (x.val h) exp).2 ||| (roundX c (quantizeCore c (x.val h) exp).1 true).2).overflow ||
        ((quantizeCore c (x.val h) exp).2 ||| (roundX c (quantizeCore c (x.val h) exp).1 true).2).underflow) <;> bsimp [h3]
    · have hm : quantizeOp c (x.val h) exp = finish c ((ctxRound c (quantizeCore c (x.val h) exp).1).1,
          (quantizeCore c (x.val h) exp).2 ||| (ctxRound c (quantizeCore c (x.val h) exp).1).2) := by
        unfold quantizeOp ctxRound; bsimp [hn, h1, h2, h3]
      simp only [hm, run_retFlags, finish, ctxRound]
      op_exact
    · have hm : quantizeOp c (x.val h) exp = invalidNaN c := by unfold quantizeOp ctxRound; bsimp [hn, h1, h2, h3]
      simp only [hm, run_setDec, run_retFlags, Heap.set_set, run_bind]
      op_exact

/-- `Context.toIntegralSpecials` -/
theorem run_toIntegralSpecialsP (c : Ctx) (d : Cell) (x : Src) (h : Heap) :
    (toIntegralSpecials c (x.val h) = none ∧ run (toIntegralSpecialsP c d x) h = (none, h)) ∨
    ∃ o, toIntegralSpecials c (x.val h) = some o ∧
      run (toIntegralSpecialsP c d x) h = (some (o.fl, o.err), h.set d o.d) ∧ o.aux = 0 := by
  unfold toIntegralSpecialsP
  simp only [run_bind, run_shouldSetAsNaNP, Option.map_none, run_ite, run_pure, run_rdForm]
  by_cases hn : shouldSetAsNaN (x.val h) none = true
  · right
    refine ⟨setAsNaN c (x.val h) none, ?_, ?_, by simp⟩
    · unfold toIntegralSpecials; rw [if_pos hn]
    · simp only [hn, if_true, run_setAsNaNP c d x none h hn, Option.map_none]
  · bsimp [hn]
    cases hf : ((x.val h).form != Form.finite) <;> bsimp [hf]
    · left; unfold toIntegralSpecials; bsimp [hn, hf]; exact ⟨trivial, trivial⟩
    · right
      refine ⟨{ d := x.val h }, ?_, ?_, rfl⟩
      · unfold toIntegralSpecials; bsimp [hn, hf]
      · simp only [run_setDec]

theorem rtivP_run (c : Ctx) (d : Cell) (x : Src) (h : Heap) :
    OpRun (rtivP c d x) d h (roundToIntegralValueOp c (x.val h)) := by
  unfold OpRun rtivP
  rcases run_toIntegralSpecialsP c d x h with ⟨hs, hr⟩ | ⟨o, hs, hr, ha⟩
  · have hm : roundToIntegralValueOp c (x.val h) =
        finish c ((quantizeCore c (x.val h) 0).1,
          { (quantizeCore c (x.val h) 0).2 with inexact := false, rounded := false }) := by
      unfold roundToIntegralValueOp; simp only [hs]
    simp only [run_bind, hr, run_quantizeCoreP, run_retFlags, hm, finish]
    op_exact
  · have hm : roundToIntegralValueOp c (x.val h) = o := by unfold roundToIntegralValueOp; simp only [hs]
    simp only [run_bind, hr, run_pure, hm]
    exact ⟨_, _, _, rfl, fun _ => ⟨rfl, ha.symm, rfl⟩⟩

theorem rtieP_run (c : Ctx) (d : Cell) (x : Src) (h : Heap) :
    OpRun (rtieP c d x) d h (roundToIntegralExactOp c (x.val h)) := by
  unfold OpRun rtieP
  rcases run_toIntegralSpecialsP c d x h with ⟨hs, hr⟩ | ⟨o, hs, hr, ha⟩
  · have hm : roundToIntegralExactOp c (x.val h) = finish c (quantizeCore c (x.val h) 0) := by
      unfold roundToIntegralExactOp; simp only [hs]
    simp only [run_bind, hr, run_quantizeCoreP, run_retFlags, hm, finish]
    op_exact
  · have hm : roundToIntegralExactOp c (x.val h) = o := by unfold roundToIntegralExactOp; simp only [hs]
    simp only [run_bind, hr, run_pure, hm]
    exact ⟨_, _, _, rfl, fun _ => ⟨rfl, ha.symm, rfl⟩⟩

/-- running a program with contract `OpRun` after the destination has been overwritten -/
theorem OpRun.after_set {p : Prog Res} {d : Cell} {h : Heap} {w : Dec} {m : Out}
    (hr : OpRun p d (h.set d w) m) :
    ∃ fl aux v, run p (h.set d w) = ((fl, m.err, aux), h.set d v) ∧
      (Delivered m.err → fl = m.fl ∧ aux = m.aux ∧ v = m.d) := by
  obtain ⟨fl, aux, v, hv, hd⟩ := hr
  exact ⟨fl, aux, v, by rw [hv, Heap.set_set], hd⟩

theorem ceilP_run (c : Ctx) (d : Cell) (x : Src) (h : Heap) :
    OpRun (ceilP c d x) d h (ceilOp c (x.val h)) := by
  unfold OpRun ceilP
  rcases run_toIntegralSpecialsP c d x h with ⟨hs, hr⟩ | ⟨o, hs, hr, ha⟩
  · simp only [run_bind, hr, run_modfLocFrac, run_ite, run_pure]
    bcases hf : (modf (x.val h)).2.sign > 0
    · have hm : ceilOp c (x.val h) = addOp c (modf (x.val h)).1 decOne false := by
        unfold ceilOp; simp only [hs, hf, if_true]
      rw [hm]
      have := (addP_run c d (.cell d) (.const decOne) false (h.set d (modf (x.val h)).1)).after_set
      simpa using this
    · have hm : ceilOp c (x.val h) = { d := (modf (x.val h)).1 } := by
        unfold ceilOp; simp only [hs, hf, if_false]
      rw [hm]; op_exact
  · have hm : ceilOp c (x.val h) = o := by unfold ceilOp; simp only [hs]
    simp only [run_bind, hr, run_pure, hm]
    exact ⟨_, _, _, rfl, fun _ => ⟨rfl, ha.symm, rfl⟩⟩

theorem floorP_run (c : Ctx) (d : Cell) (x : Src) (h : Heap) :
    OpRun (floorP c d x) d h (floorOp c (x.val h)) := by
  unfold OpRun floorP
  rcases run_toIntegralSpecialsP c d x h with ⟨hs, hr⟩ | ⟨o, hs, hr, ha⟩
  · simp only [run_bind, hr, run_modfLocFrac, run_ite, run_pure]
    bcases hf : (modf (x.val h)).2.sign < 0
    · have hm : floorOp c (x.val h) = addOp c (modf (x.val h)).1 decOne true := by
        unfold floorOp; simp only [hs, hf, if_true]
      rw [hm]
      have := (addP_run c d (.cell d) (.const decOne) true (h.set d (modf (x.val h)).1)).after_set
      simpa using this
    · have hm : floorOp c (x.val h) = { d := (modf (x.val h)).1 } := by
        unfold floorOp; simp only [hs, hf, if_false]
      rw [hm]; op_exact
  · have hm : floorOp c (x.val h) = o := by unfold floorOp; simp only [hs]
    simp only [run_bind, hr, run_pure, hm]
    exact ⟨_, _, _, rfl, fun _ => ⟨rfl, ha.symm, rfl⟩⟩

end Apd.Imp

namespace Apd.Props
open Apd Apd.Cond Apd.Imp Apd.Imp.Prog

/-! ## C05: the statements

For every heap `h` and EVERY choice of the cells `d`, `x`, `y` (all aliasing patterns at once): the error class is
the value-level model's on the operands' prior values; if the outcome is delivered, so are the flags, the aux
result and the final contents of `d`; and no cell other than `d` changes (C06 frame). -/

/-- `Context.Add(d, x, y)` -/
theorem C05_add (c : Ctx) (d x y : Cell) (h : Heap) :
    let r := run (addP c d (.cell x) (.cell y) false) h
    let m := addOp c (h x) (h y) false
    r.1.2.1 = m.err ∧ (Delivered r.1.2.1 → r.1.1 = m.fl ∧ r.2 d = m.d ∧ r.1.2.2 = m.aux) ∧
    ∀ cell, cell ≠ d → r.2 cell = h cell :=
  (addP_run c d (.cell x) (.cell y) false h).spec

/-- `Context.Sub(d, x, y)` -/
theorem C05_sub (c : Ctx) (d x y : Cell) (h : Heap) :
    let r := run (addP c d (.cell x) (.cell y) true) h
    let m := addOp c (h x) (h y) true
    r.1.2.1 = m.err ∧ (Delivered r.1.2.1 → r.1.1 = m.fl ∧ r.2 d = m.d ∧ r.1.2.2 = m.aux) ∧
    ∀ cell, cell ≠ d → r.2 cell = h cell :=
  (addP_run c d (.cell x) (.cell y) true h).spec

/-- `Context.Mul(d, x, y)` -/
theorem C05_mul (c : Ctx) (d x y : Cell) (h : Heap) :
    let r := run (mulP c d (.cell x) (.cell y)) h
    let m := mulOp c (h x) (h y)
    r.1.2.1 = m.err ∧ (Delivered r.1.2.1 → r.1.1 = m.fl ∧ r.2 d = m.d ∧ r.1.2.2 = m.aux) ∧
    ∀ cell, cell ≠ d → r.2 cell = h cell :=
  (mulP_run c d (.cell x) (.cell y) h).spec

/-- `Context.Quo(d, x, y)` -/
theorem C05_quo (c : Ctx) (d x y : Cell) (h : Heap) :
    let r := run (quoP c d (.cell x) (.cell y)) h
    let m := quoOp c (h x) (h y)
    r.1.2.1 = m.err ∧ (Delivered r.1.2.1 → r.1.1 = m.fl ∧ r.2 d = m.d ∧ r.1.2.2 = m.aux) ∧
    ∀ cell, cell ≠ d → r.2 cell = h cell :=
  (quoP_run c d (.cell x) (.cell y) h).spec

/-- `Context.QuoInteger(d, x, y)` -/
theorem C05_quoint (c : Ctx) (d x y : Cell) (h : Heap) :
    let r := run (quoIntegerP c d (.cell x) (.cell y)) h
    let m := quoIntegerOp c (h x) (h y)
    r.1.2.1 = m.err ∧ (Delivered r.1.2.1 → r.1.1 = m.fl ∧ r.2 d = m.d ∧ r.1.2.2 = m.aux) ∧
    ∀ cell, cell ≠ d → r.2 cell = h cell :=
  (quoIntegerP_run c d (.cell x) (.cell y) h).spec

/-- `Context.Rem(d, x, y)` -/
theorem C05_rem (c : Ctx) (d x y : Cell) (h : Heap) :
    let r := run (remP c d (.cell x) (.cell y)) h
    let m := remOp c (h x) (h y)
    r.1.2.1 = m.err ∧ (Delivered r.1.2.1 → r.1.1 = m.fl ∧ r.2 d = m.d ∧ r.1.2.2 = m.aux) ∧
    ∀ cell, cell ≠ d → r.2 cell = h cell :=
  (remP_run c d (.cell x) (.cell y) h).spec

/-- `Context.Cmp(d, x, y)` -/
theorem C05_cmp (c : Ctx) (d x y : Cell) (h : Heap) :
    let r := run (cmpOpP c d (.cell x) (.cell y)) h
    let m := cmpOp c (h x) (h y)
    r.1.2.1 = m.err ∧ (Delivered r.1.2.1 → r.1.1 = m.fl ∧ r.2 d = m.d ∧ r.1.2.2 = m.aux) ∧
    ∀ cell, cell ≠ d → r.2 cell = h cell :=
  (cmpOpP_run c d (.cell x) (.cell y) h).spec

/-- `Context.Abs(d, x)` -/
theorem C05_abs (c : Ctx) (d x : Cell) (h : Heap) :
    let r := run (absP c d (.cell x)) h
    let m := absOp c (h x)
    r.1.2.1 = m.err ∧ (Delivered r.1.2.1 → r.1.1 = m.fl ∧ r.2 d = m.d ∧ r.1.2.2 = m.aux) ∧
    ∀ cell, cell ≠ d → r.2 cell = h cell :=
  (absP_run c d (.cell x) h).spec

/-- `Context.Neg(d, x)` -/
theorem C05_neg (c : Ctx) (d x : Cell) (h : Heap) :
    let r := run (negP c d (.cell x)) h
    let m := negOp c (h x)
    r.1.2.1 = m.err ∧ (Delivered r.1.2.1 → r.1.1 = m.fl ∧ r.2 d = m.d ∧ r.1.2.2 = m.aux) ∧
    ∀ cell, cell ≠ d → r.2 cell = h cell :=
  (negP_run c d (.cell x) h).spec

/-- `Context.Round(d, x)` -/
theorem C05_round (c : Ctx) (d x : Cell) (h : Heap) :
    let r := run (roundOpP c d (.cell x)) h
    let m := roundOp c (h x)
    r.1.2.1 = m.err ∧ (Delivered r.1.2.1 → r.1.1 = m.fl ∧ r.2 d = m.d ∧ r.1.2.2 = m.aux) ∧
    ∀ cell, cell ≠ d → r.2 cell = h cell :=
  (roundOpP_run c d (.cell x) h).spec

/-- `Context.Reduce (aux = number of zeros removed)(d, x)` -/
theorem C05_reduce (c : Ctx) (d x : Cell) (h : Heap) :
    let r := run (reduceP c d (.cell x)) h
    let m := reduceOp c (h x)
    r.1.2.1 = m.err ∧ (Delivered r.1.2.1 → r.1.1 = m.fl ∧ r.2 d = m.d ∧ r.1.2.2 = m.aux) ∧
    ∀ cell, cell ≠ d → r.2 cell = h cell :=
  (reduceP_run c d (.cell x) h).spec

/-- `Context.RoundToIntegralExact(d, x)` -/
theorem C05_rtie (c : Ctx) (d x : Cell) (h : Heap) :
    let r := run (rtieP c d (.cell x)) h
    let m := roundToIntegralExactOp c (h x)
    r.1.2.1 = m.err ∧ (Delivered r.1.2.1 → r.1.1 = m.fl ∧ r.2 d = m.d ∧ r.1.2.2 = m.aux) ∧
    ∀ cell, cell ≠ d → r.2 cell = h cell :=
  (rtieP_run c d (.cell x) h).spec

/-- `Context.RoundToIntegralValue(d, x)` -/
theorem C05_rtiv (c : Ctx) (d x : Cell) (h : Heap) :
    let r := run (rtivP c d (.cell x)) h
    let m := roundToIntegralValueOp c (h x)
    r.1.2.1 = m.err ∧ (Delivered r.1.2.1 → r.1.1 = m.fl ∧ r.2 d = m.d ∧ r.1.2.2 = m.aux) ∧
    ∀ cell, cell ≠ d → r.2 cell = h cell :=
  (rtivP_run c d (.cell x) h).spec

/-- `Context.Ceil(d, x)` -/
theorem C05_ceil (c : Ctx) (d x : Cell) (h : Heap) :
    let r := run (ceilP c d (.cell x)) h
    let m := ceilOp c (h x)
    r.1.2.1 = m.err ∧ (Delivered r.1.2.1 → r.1.1 = m.fl ∧ r.2 d = m.d ∧ r.1.2.2 = m.aux) ∧
    ∀ cell, cell ≠ d → r.2 cell = h cell :=
  (ceilP_run c d (.cell x) h).spec

/-- `Context.Floor(d, x)` -/
theorem C05_floor (c : Ctx) (d x : Cell) (h : Heap) :
    let r := run (floorP c d (.cell x)) h
    let m := floorOp c (h x)
    r.1.2.1 = m.err ∧ (Delivered r.1.2.1 → r.1.1 = m.fl ∧ r.2 d = m.d ∧ r.1.2.2 = m.aux) ∧
    ∀ cell, cell ≠ d → r.2 cell = h cell :=
  (floorP_run c d (.cell x) h).spec

/-- `Context.Quantize(d, x, exp)` -/
theorem C05_quantize (c : Ctx) (d x : Cell) (exp : Int) (h : Heap) :
    let r := run (quantizeP c d (.cell x) exp) h
    let m := quantizeOp c (h x) exp
    r.1.2.1 = m.err ∧ (Delivered r.1.2.1 → r.1.1 = m.fl ∧ r.2 d = m.d ∧ r.1.2.2 = m.aux) ∧
    ∀ cell, cell ≠ d → r.2 cell = h cell :=
  (quantizeP_run c d (.cell x) exp h).spec

/-! ### the table of operations -/

/-- the value-level model by op name: the table of `runCtxOp` in `Driver.lean` -/
def modelCtxOp (op : String) (c : Ctx) (x y : Dec) (iarg : Int) : Option Out :=
  if op = "add" then some (addOp c x y false)
  else if op = "sub" then some (addOp c x y true)
  else if op = "mul" then some (mulOp c x y)
  else if op = "quo" then some (quoOp c x y)
  else if op = "quoint" then some (quoIntegerOp c x y)
  else if op = "rem" then some (remOp c x y)
  else if op = "abs" then some (absOp c x)
  else if op = "neg" then some (negOp c x)
  else if op = "round" then some (roundOp c x)
  else if op = "reduce" then some (reduceOp c x)
  else if op = "cmp" then some (cmpOp c x y)
  else if op = "quantize" then some (quantizeOp c x iarg)
  else if op = "rtie" then some (roundToIntegralExactOp c x)
  else if op = "rtiv" then some (roundToIntegralValueOp c x)
  else if op = "ceil" then some (ceilOp c x)
  else if op = "floor" then some (floorOp c x)
  else none

/-- C05 for the whole table: every program of `Imp.runCtxOp` meets the contract against the model of the same name -/
theorem C05_ctxOp {op : String} {c : Ctx} {d x y : Cell} {iarg : Int} {p : Prog Res}
    (hp : runCtxOp op c d x y iarg = some p) (h : Heap) :
    ∃ m, modelCtxOp op c (h x) (h y) iarg = some m ∧ OpSpec p d h m := by
  unfold runCtxOp at hp
  unfold modelCtxOp
  by_cases h0 : op = "add"
  · rw [if_pos h0] at hp ⊢; cases hp; exact ⟨_, rfl, (addP_run c d (.cell x) (.cell y) false h).spec⟩
  rw [if_neg h0] at hp ⊢
  by_cases h1 : op = "sub"
  · rw [if_pos h1] at hp ⊢; cases hp; exact ⟨_, rfl, (addP_run c d (.cell x) (.cell y) true h).spec⟩
  rw [if_neg h1] at hp ⊢
  by_cases h2 : op = "mul"
  · rw [if_pos h2] at hp ⊢; cases hp; exact ⟨_, rfl, (mulP_run c d (.cell x) (.cell y) h).spec⟩
  rw [if_neg h2] at hp ⊢
  by_cases h3 : op = "quo"
  · rw [if_pos h3] at hp ⊢; cases hp; exact ⟨_, rfl, (quoP_run c d (.cell x) (.cell y) h).spec⟩
  rw [if_neg h3] at hp ⊢
  by_cases h4 : op = "quoint"
  · rw [if_pos h4] at hp ⊢; cases hp; exact ⟨_, rfl, (quoIntegerP_run c d (.cell x) (.cell y) h).spec⟩
  rw [if_neg h4] at hp ⊢
  by_cases h5 : op = "rem"
  · rw [if_pos h5] at hp ⊢; cases hp; exact ⟨_, rfl, (remP_run c d (.cell x) (.cell y) h).spec⟩
  rw [if_neg h5] at hp ⊢
  by_cases h6 : op = "abs"
  · rw [if_pos h6] at hp ⊢; cases hp; exact ⟨_, rfl, (absP_run c d (.cell x) h).spec⟩
  rw [if_neg h6] at hp ⊢
  by_cases h7 : op = "neg"
  · rw [if_pos h7] at hp ⊢; cases hp; exact ⟨_, rfl, (negP_run c d (.cell x) h).spec⟩
  rw [if_neg h7] at hp ⊢
  by_cases h8 : op = "round"
  · rw [if_pos h8] at hp ⊢; cases hp; exact ⟨_, rfl, (roundOpP_run c d (.cell x) h).spec⟩
  rw [if_neg h8] at hp ⊢
  by_cases h9 : op = "reduce"
  · rw [if_pos h9] at hp ⊢; cases hp; exact ⟨_, rfl, (reduceP_run c d (.cell x) h).spec⟩
  rw [if_neg h9] at hp ⊢
  by_cases h10 : op = "cmp"
  · rw [if_pos h10] at hp ⊢; cases hp; exact ⟨_, rfl, (cmpOpP_run c d (.cell x) (.cell y) h).spec⟩
  rw [if_neg h10] at hp ⊢
  by_cases h11 : op = "quantize"
  · rw [if_pos h11] at hp ⊢; cases hp; exact ⟨_, rfl, (quantizeP_run c d (.cell x) iarg h).spec⟩
  rw [if_neg h11] at hp ⊢
  by_cases h12 : op = "rtie"
  · rw [if_pos h12] at hp ⊢; cases hp; exact ⟨_, rfl, (rtieP_run c d (.cell x) h).spec⟩
  rw [if_neg h12] at hp ⊢
  by_cases h13 : op = "rtiv"
  · rw [if_pos h13] at hp ⊢; cases hp; exact ⟨_, rfl, (rtivP_run c d (.cell x) h).spec⟩
  rw [if_neg h13] at hp ⊢
  by_cases h14 : op = "ceil"
  · rw [if_pos h14] at hp ⊢; cases hp; exact ⟨_, rfl, (ceilP_run c d (.cell x) h).spec⟩
  rw [if_neg h14] at hp ⊢
  by_cases h15 : op = "floor"
  · rw [if_pos h15] at hp ⊢; cases hp; exact ⟨_, rfl, (floorP_run c d (.cell x) h).spec⟩
  rw [if_neg h15] at hp ⊢
  cases hp

/-! ## the `Decimal` methods and the rounding core -/

theorem set_spec {α : Type} {r : α × Heap} {a : α} {h : Heap} {d : Cell} {v : Dec} (hr : r = (a, h.set d v)) :
    r.1 = a ∧ r.2 d = v ∧ ∀ cell, cell ≠ d → r.2 cell = h cell := by
  subst hr; exact ⟨rfl, Heap.set_same _ _ _, fun _ hc => Heap.set_other _ _ hc⟩

/-- `d.Set(x)` -/
theorem C05_set (d x : Cell) (h : Heap) :
    let r := run (setDec d (.cell x)) h
    r.2 d = h x ∧ ∀ cell, cell ≠ d → r.2 cell = h cell := (set_spec (run_setDec d (.cell x) h)).2

/-- `d.Neg(x)` -/
theorem C05_negDec (d x : Cell) (h : Heap) :
    let r := run (negDec d (.cell x)) h
    r.2 d = (h x).negD ∧ ∀ cell, cell ≠ d → r.2 cell = h cell := (set_spec (run_negDec d (.cell x) h)).2

/-- `d.Abs(x)` -/
theorem C05_absDec (d x : Cell) (h : Heap) :
    let r := run (absDec d (.cell x)) h
    r.2 d = (h x).absD ∧ ∀ cell, cell ≠ d → r.2 cell = h cell := (set_spec (run_absDec d (.cell x) h)).2

/-- `d.Reduce(x)` -/
theorem C05_reduceDec (d x : Cell) (h : Heap) :
    let r := run (reduceDec d (.cell x)) h
    r.1 = ((reduceD (h x)).2 : Int) ∧ r.2 d = (reduceD (h x)).1 ∧ ∀ cell, cell ≠ d → r.2 cell = h cell :=
  set_spec (run_reduceDec d (.cell x) h)

/-- `r.Modf(integ, frac)`: either output may be nil, either may be the receiver `r`; `integ ≠ frac` -/
theorem C05_modf (r : Cell) (integ frac : Option Cell) (h : Heap) (hne : ∀ i, integ = some i → frac ≠ some i) :
    let h' := (run (modfP (.cell r) integ frac) h).2
    (∀ i, integ = some i → h' i = (modf (h r)).1) ∧
    (∀ f, frac = some f → h' f = (modf (h r)).2) ∧
    ∀ cell, integ ≠ some cell → frac ≠ some cell → h' cell = h cell :=
  modfP_spec (.cell r) integ frac h hne

/-- `d.setExponent(c, nd, res, xs...)` with `nd` unknown or correct -/
theorem C05_setExponent (c : Ctx) (d : Cell) (nd : Option Nat) (res : Cond) (xs : List Int) (h : Heap)
    (hnd : ∀ n, nd = some n → n = ndigits (h d).coeff) :
    let r := run (setExponentP c d nd res xs) h
    r.1 = (setExponent c (h d) res xs).2 ∧ r.2 d = (setExponent c (h d) res xs).1 ∧
    ∀ cell, cell ≠ d → r.2 cell = h cell :=
  set_spec (run_setExponentP c d nd res xs h hnd)

/-- `Rounder.Round(c, d, x, disableIfPrecisionZero)` -/
theorem C05_Round (c : Ctx) (d x : Cell) (dis : Bool) (h : Heap) :
    let r := run (roundP c d (.cell x) dis) h
    r.1 = (roundX c (h x) dis).2 ∧ r.2 d = (roundX c (h x) dis).1 ∧ ∀ cell, cell ≠ d → r.2 cell = h cell :=
  set_spec (run_roundP c d (.cell x) dis h)

/-- `c.setAsNaN(d, x, y)` (called only when one of the operands is a NaN) -/
theorem C05_setAsNaN (c : Ctx) (d x : Cell) (y : Option Cell) (h : Heap)
    (hn : shouldSetAsNaN (h x) (y.map h) = true) :
    let r := run (setAsNaNP c d (.cell x) (y.map Src.cell)) h
    let m := setAsNaN c (h x) (y.map h)
    r.1 = (m.fl, m.err) ∧ r.2 d = m.d ∧ ∀ cell, cell ≠ d → r.2 cell = h cell := by
  have e : (y.map Src.cell).map (·.val h) = y.map h := by cases y <;> rfl
  have := run_setAsNaNP c d (.cell x) (y.map Src.cell) h (by rw [e]; exact hn)
  rw [e] at this
  exact set_spec this

/-- `c.quantize(d, v, exp)` -/
theorem C05_quantizeCore (c : Ctx) (d x : Cell) (exp : Int) (h : Heap) :
    let r := run (quantizeCoreP c d (.cell x) exp) h
    r.1 = (quantizeCore c (h x) exp).2 ∧ r.2 d = (quantizeCore c (h x) exp).1 ∧
    ∀ cell, cell ≠ d → r.2 cell = h cell :=
  set_spec (run_quantizeCoreP c d (.cell x) exp h)

end Apd.Props

#print axioms Apd.Props.C05_add
#print axioms Apd.Props.C05_sub
#print axioms Apd.Props.C05_mul
#print axioms Apd.Props.C05_quo
#print axioms Apd.Props.C05_quoint
#print axioms Apd.Props.C05_rem
#print axioms Apd.Props.C05_cmp
#print axioms Apd.Props.C05_abs
#print axioms Apd.Props.C05_neg
#print axioms Apd.Props.C05_round
#print axioms Apd.Props.C05_reduce
#print axioms Apd.Props.C05_rtie
#print axioms Apd.Props.C05_rtiv
#print axioms Apd.Props.C05_ceil
#print axioms Apd.Props.C05_floor
#print axioms Apd.Props.C05_quantize
#print axioms Apd.Props.C05_ctxOp
#print axioms Apd.Props.C05_set
#print axioms Apd.Props.C05_negDec
#print axioms Apd.Props.C05_absDec
#print axioms Apd.Props.C05_reduceDec
#print axioms Apd.Props.C05_modf
#print axioms Apd.Props.C05_setExponent
#print axioms Apd.Props.C05_Round
#print axioms Apd.Props.C05_setAsNaN
#print axioms Apd.Props.C05_quantizeCore
