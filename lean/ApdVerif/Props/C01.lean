import ApdVerif.Props.RoundCore
import ApdVerif.Props.Mul
import ApdVerif.Props.Quo
/-!
# C01 — Add/Sub/Mul/Quo/Abs/Neg/Round return the exactly rounded result

For finite operands and a delivered outcome (no system exponent-limit error), the returned
decimal is numerically equal, sign of zero included, to the exact mathematical result rounded
once to the context (`specRound`: Precision digits in the selected mode, or to Etiny below the
normal range, or to an infinity of the right sign above MaxExponent).  With Precision 0 the exact
result is returned whenever it lies in the exponent range.

These are the value clauses of the `Agrees` theorems proved in `RoundCore`, `Mul`, `Quo`
(special operands are C08's business).  `Oracle/Round.lean` is related to ℚ in `Spec/Rational.lean`.
-/
namespace Apd.Props
open Apd Apd.Oracle

theorem C01_value_round (c : Ctx) (hc : c.WF) (x : Dec) (hx : x.form = .finite)
    (h : Delivered (roundOp c x).err) :
    (specRound c (exactRound x)).matches (roundOp c x).d = true := (C01_round c hc x hx h).1

theorem C01_value_abs (c : Ctx) (hc : c.WF) (x : Dec) (hx : x.form = .finite)
    (h : Delivered (absOp c x).err) :
    (specRound c (exactAbs x)).matches (absOp c x).d = true := (C01_abs c hc x hx h).1

theorem C01_value_neg (c : Ctx) (hc : c.WF) (x : Dec) (hx : x.form = .finite)
    (h : Delivered (negOp c x).err) :
    (specRound c (exactNeg x)).matches (negOp c x).d = true := (C01_neg c hc x hx h).1

theorem C01_value_add (c : Ctx) (hc : c.WF) (x y : Dec) (sub : Bool)
    (hx : x.form = .finite) (hy : y.form = .finite) (h : Delivered (addOp c x y sub).err) :
    (specRound c (exactAdd c x y sub)).matches (addOp c x y sub).d = true := (C01_add c hc x y sub hx hy h).1

theorem C01_value_mul (c : Ctx) (hc : c.WF) (x y : Dec) (hx : x.form = .finite) (hy : y.form = .finite)
    (h : Delivered (mulOp c x y).err) :
    (specRound c (exactMul x y)).matches (mulOp c x y).d = true := (C01_mul c hc x y hx hy h).1

theorem C01_value_quo (c : Ctx) (hc : c.WF) (x y : Dec) (hx : x.form = .finite) (hy : y.form = .finite)
    (hy0 : y.coeff ≠ 0) (h : Delivered (quoOp c x y).err) :
    (specRound c (exactQuo x y)).matches (quoOp c x y).d = true := (C01_quo c hc x y hx hy hy0 h).1

/-- Precision 0: Add/Sub and Mul return the exact result with no digit limit -/
theorem C01_value_add_prec0 (c : Ctx) (hc : c.WF0) (hp : c.prec = 0) (x y : Dec) (sub : Bool)
    (hx : x.form = .finite) (hy : y.form = .finite) (h : Delivered (addOp c x y sub).err)
    (s : SpecOut) (hs : specExact c (exactAdd c x y sub) = some s) :
    s.matches (addOp c x y sub).d = true := (C01_add_prec0 c hc hp x y sub hx hy h s hs).1

theorem C01_value_mul_prec0 (c : Ctx) (hc : c.WF0) (hp : c.prec = 0) (x y : Dec)
    (hx : x.form = .finite) (hy : y.form = .finite) (h : Delivered (mulOp c x y).err)
    (s : SpecOut) (hs : specExact c (exactMul x y) = some s) :
    s.matches (mulOp c x y).d = true := (C01_mul_prec0 c hc hp x y hx hy h s hs).1

/-- non-vacuity: a subnormal negative tie under RoundFloor is delivered and rounds away from zero -/
example : (addOp { prec := 5, emax := 10, emin := -10, mode := .floor }
    { neg := true, coeff := 123, exp := -15 } { coeff := 0, exp := 0 } false).d
    = { neg := true, coeff := 13, exp := -14 } := by decide

end Apd.Props
