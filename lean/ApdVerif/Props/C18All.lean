import ApdVerif.Props.C06Trans
import ApdVerif.Props.C19
import ApdVerif.Lemmas.ReadOpsLemmas
import ApdVerif.Lemmas.ReadFootLemmas
/-!
# C18 — concurrent use, all kinds of calls in one family

"Any number of goroutines may concurrently call any `Context` methods and read-only `Decimal` methods using the same
`Context` value and the same operand `Decimal`s (each with its own destination): no data race occurs and each call
returns exactly what it returns when run alone."

* `Call`            : one call — any of the 16 arithmetic `Context` methods (`CtxCall`), the 6 composite ones with their
  decision tapes (`TransCall`), a read-only `Decimal` method (`ReadCall`: `Cmp`, `CmpTotal`, `Sign`, `IsZero`,
  `NumDigits`, `Int64`, `Float64`, `Text`, `Modf` into fresh outputs) or a `Decimal` method with destination(s)
  (`MethCall`: `Set`, `Neg`, `Abs`, `Reduce`, `Modf` into two shared `Decimal`s);
* `launch`          : its store-level program, into the common result type `Outcome`;
* `Call.reads` / `Call.writes` : its operand cells / destination cells (read-only calls: none);
* `C18_read_*`      : the read-only methods return the value-level model's result on the operands' values, leave the
  heap as it is and contain no write (`WritesOnly (fun _ => False)`);
* `Foot_launch`     : every access of `launch k` is a read of `k.reads ∪ k.writes` or a write of `k.writes`;
* `SeparatedAll`    : every destination of a call differs from every operand and every destination of every OTHER
  call (a call's own operands may alias its destination; operands are shared freely);
* `C18_all`         : under EVERY schedule of the primitive field accesses each thread is at a prefix of its solo run; a
  thread that has finished returned exactly the result of its solo run, and its cells hold what the solo run left;
* `C18_all_model`   : … which is what the value-level model computes from the INITIAL heap (`Call.Spec`).

"No data race": in the store-level semantics a data race is a write to a cell that another thread reads or writes;
`SeparatedAll` excludes it through `Foot_launch`, and `interleave_inv` is the statement that nothing else can go wrong.
-/
namespace Apd.Props
open Apd Apd.Cond Apd.Imp Apd.Imp.Prog

/-! ## the read-only `Decimal` methods -/

/-- `d.Cmp(x)` -/
theorem C18_read_cmp (d x : Cell) (h : Heap) :
    run (cmpP (.cell d) (.cell x)) h = ((h d).cmp (h x), h) ∧
    Foot (fun c => c = d ∨ c = x) (fun _ => False) (cmpP (.cell d) (.cell x)) :=
  ⟨run_cmpP _ _ h, Foot_cmpP (SrcOK.read (Or.inl rfl)) (SrcOK.read (Or.inr rfl))⟩

/-- `d.CmpTotal(x)` -/
theorem C18_read_cmpTotal (d x : Cell) (h : Heap) :
    run (cmpTotalP (.cell d) (.cell x)) h = ((h d).cmpTotal (h x), h) ∧
    Foot (fun c => c = d ∨ c = x) (fun _ => False) (cmpTotalP (.cell d) (.cell x)) :=
  ⟨run_cmpTotalP _ _ h, Foot_cmpTotalP (SrcOK.read (Or.inl rfl)) (SrcOK.read (Or.inr rfl))⟩

/-- `d.Sign()` -/
theorem C18_read_sign (d : Cell) (h : Heap) :
    run (signP (.cell d)) h = ((h d).sign, h) ∧ Foot (fun c => c = d) (fun _ => False) (signP (.cell d)) :=
  ⟨run_signP _ h, Foot_signP (SrcOK.read rfl)⟩

/-- `d.IsZero()` -/
theorem C18_read_isZero (d : Cell) (h : Heap) :
    run (isZeroP (.cell d)) h = ((h d).isZero, h) ∧ Foot (fun c => c = d) (fun _ => False) (isZeroP (.cell d)) :=
  ⟨run_isZeroP _ h, Foot_isZeroP (SrcOK.read rfl)⟩

/-- `d.NumDigits()`: the value `table.go` computes (`numDigitsImpl`, exact by C19) -/
theorem C18_read_numDigits (d : Cell) (h : Heap) :
    run (numDigitsP (.cell d)) h = (numDigitsImpl ((h d).coeff : Int), h) ∧
    Foot (fun c => c = d) (fun _ => False) (numDigitsP (.cell d)) := by
  refine ⟨?_, Foot_numDigitsP (SrcOK.read rfl)⟩
  rw [run_numDigitsP, C19_numDigits]
  simp

/-- `d.Int64()` -/
theorem C18_read_int64 (d : Cell) (h : Heap) :
    run (int64P (.cell d)) h = (int64Op (h d), h) ∧ Foot (fun c => c = d) (fun _ => False) (int64P (.cell d)) :=
  ⟨run_int64P _ h, Foot_int64P (SrcOK.read rfl)⟩

/-- `d.Text(verb)` (`d.String()` is `verb = 'G'`) -/
theorem C18_read_text (d : Cell) (verb : Char) (h : Heap) :
    run (textP (.cell d) verb) h = (Text.append (h d) verb, h) ∧
    Foot (fun c => c = d) (fun _ => False) (textP (.cell d) verb) :=
  ⟨run_textP _ verb h, Foot_textP (R := fun c => c = d) (SrcOK.read rfl) verb⟩

/-- `d.Float64()`: the string handed to `strconv.ParseFloat` is `d.String()` -/
theorem C18_read_float64 (d : Cell) (h : Heap) :
    run (float64P (.cell d)) h = (Text.string (h d), h) ∧
    Foot (fun c => c = d) (fun _ => False) (float64P (.cell d)) :=
  ⟨run_float64P _ h, Foot_float64P (SrcOK.read rfl)⟩

/-- `d.Modf(&integ, &frac)` into two fresh `Decimal`s -/
theorem C18_read_modf (d : Cell) (h : Heap) :
    run (modfLoc2 (.cell d)) h = (modf (h d), h) ∧ Foot (fun c => c = d) (fun _ => False) (modfLoc2 (.cell d)) :=
  ⟨run_modfLoc2 _ h, Foot_modfLoc2 (SrcOK.read rfl)⟩

/-! ## one type of calls -/

/-- a read-only `Decimal` method on operand cells -/
inductive ReadCall where
  | cmp (d x : Cell)
  | cmpTotal (d x : Cell)
  | sign (d : Cell)
  | isZero (d : Cell)
  | numDigits (d : Cell)
  | int64 (d : Cell)
  | float64 (d : Cell)
  | text (d : Cell) (verb : Char)
  | modf (d : Cell)

/-- a `Decimal` method with destination(s): `d.Set(x)`, `d.Neg(x)`, `d.Abs(x)`, `d.Reduce(x)`,
`r.Modf(integ, frac)` -/
inductive MethCall where
  | set (d x : Cell)
  | neg (d x : Cell)
  | abs (d x : Cell)
  | reduce (d x : Cell)
  | modfInto (r integ frac : Cell)

/-- one call of a goroutine -/
inductive Call where
  | ctx (k : CtxCall)
  | trans (k : TransCall)
  | read (k : ReadCall)
  | meth (k : MethCall)

/-- the common result type -/
inductive Outcome where
  | ctx (r : Res)                            -- a `Context` method: flags, error class, aux
  | trans (r : Option (Res × Tape))          -- a composite method: `none` = fuel / tape mismatch
  | int (v : Int)                            -- `Cmp`, `CmpTotal`, `Sign`, `Reduce`'s count
  | bool (b : Bool)                          -- `IsZero`
  | nat (n : Nat)                            -- `NumDigits`
  | int64 (v : Option Int)                   -- `Int64`: `none` = error
  | str (s : String)                         -- `Text`; `Float64`: the string parsed by `strconv.ParseFloat`
  | decs (integ frac : Dec)                  -- `Modf` into fresh outputs
  | unit                                     -- `Set`, `Neg`, `Abs`, `Modf` into shared outputs; idle thread
  | invalid                                  -- unknown op name / `Modf` with `integ == frac`

/-- the store-level program of a call -/
def launch : Call → Prog Outcome
  | .ctx k =>
    match runCtxOp k.op k.c k.d k.x k.y k.iarg with
    | some p => p >>= fun r => pure (.ctx r)
    | none => pure .invalid
  | .trans k =>
    match runTransOp k.op k.c k.d k.x k.y k.tape with
    | some p => p >>= fun r => pure (.trans r)
    | none => pure .invalid
  | .read (.cmp d x) => cmpP (.cell d) (.cell x) >>= fun v => pure (.int v)
  | .read (.cmpTotal d x) => cmpTotalP (.cell d) (.cell x) >>= fun v => pure (.int v)
  | .read (.sign d) => signP (.cell d) >>= fun v => pure (.int v)
  | .read (.isZero d) => isZeroP (.cell d) >>= fun v => pure (.bool v)
  | .read (.numDigits d) => numDigitsP (.cell d) >>= fun v => pure (.nat v)
  | .read (.int64 d) => int64P (.cell d) >>= fun v => pure (.int64 v)
  | .read (.float64 d) => float64P (.cell d) >>= fun v => pure (.str v)
  | .read (.text d verb) => textP (.cell d) verb >>= fun v => pure (.str v)
  | .read (.modf d) => modfLoc2 (.cell d) >>= fun v => pure (.decs v.1 v.2)
  | .meth (.set d x) => setDec d (.cell x) >>= fun _ => pure .unit
  | .meth (.neg d x) => negDec d (.cell x) >>= fun _ => pure .unit
  | .meth (.abs d x) => absDec d (.cell x) >>= fun _ => pure .unit
  | .meth (.reduce d x) => reduceDec d (.cell x) >>= fun v => pure (.int v)
  | .meth (.modfInto r i f) =>
    if i = f then pure .invalid else modfP (.cell r) (some i) (some f) >>= fun _ => pure .unit

/-- the operand cells of a call -/
def Call.reads : Call → List Cell
  | .ctx k => [k.x, k.y]
  | .trans k => [k.x, k.y]
  | .read (.cmp d x) => [d, x]
  | .read (.cmpTotal d x) => [d, x]
  | .read (.sign d) => [d]
  | .read (.isZero d) => [d]
  | .read (.numDigits d) => [d]
  | .read (.int64 d) => [d]
  | .read (.float64 d) => [d]
  | .read (.text d _) => [d]
  | .read (.modf d) => [d]
  | .meth (.set _ x) => [x]
  | .meth (.neg _ x) => [x]
  | .meth (.abs _ x) => [x]
  | .meth (.reduce _ x) => [x]
  | .meth (.modfInto r _ _) => [r]

/-- the destination cells of a call (read-only calls have none) -/
def Call.writes : Call → List Cell
  | .ctx k => [k.d]
  | .trans k => [k.d]
  | .read _ => []
  | .meth (.set d _) => [d]
  | .meth (.neg d _) => [d]
  | .meth (.abs d _) => [d]
  | .meth (.reduce d _) => [d]
  | .meth (.modfInto _ i f) => [i, f]

theorem Foot.map {α β : Type} {R W : Cell → Prop} {p : Prog α} (hp : Foot R W p) (g : α → β) :
    Foot R W (p >>= fun a => pure (g a)) :=
  Foot.bind hp (fun _ => Foot.pure _)

/-- every access of `launch k` is a read of an operand or destination cell or a write of a destination cell -/
theorem Foot_launch (k : Call) : Foot (fun c => c ∈ k.reads) (fun c => c ∈ k.writes) (launch k) := by
  cases k with
  | ctx k =>
    simp only [launch]
    cases hp : runCtxOp k.op k.c k.d k.x k.y k.iarg with
    | none => exact Foot.pure _
    | some p =>
      refine Foot.map ((Foot_runCtxOp hp).mono ?_ ?_) _
      · intro c hc; left; rcases hc with rfl | rfl <;> simp [Call.reads]
      · intro c hc; have : c = k.d := hc; simp [Call.writes, this]
  | trans k =>
    simp only [launch]
    cases hp : runTransOp k.op k.c k.d k.x k.y k.tape with
    | none => exact Foot.pure _
    | some p =>
      refine Foot.map ((Foot_runTransOp hp).mono ?_ ?_) _
      · intro c hc; left; rcases hc with rfl | rfl <;> simp [Call.reads]
      · intro c hc; have : c = k.d := hc; simp [Call.writes, this]
  | read k =>
    cases k with
    | cmp d x => exact Foot.map (Foot_cmpP (SrcOK.read (by simp [Call.reads])) (SrcOK.read (by simp [Call.reads]))) _
    | cmpTotal d x =>
      exact Foot.map (Foot_cmpTotalP (SrcOK.read (by simp [Call.reads])) (SrcOK.read (by simp [Call.reads]))) _
    | sign d => exact Foot.map (Foot_signP (SrcOK.read (by simp [Call.reads]))) _
    | isZero d => exact Foot.map (Foot_isZeroP (SrcOK.read (by simp [Call.reads]))) _
    | numDigits d => exact Foot.map (Foot_numDigitsP (SrcOK.read (by simp [Call.reads]))) _
    | int64 d => exact Foot.map (Foot_int64P (SrcOK.read (by simp [Call.reads]))) _
    | float64 d => exact Foot.map (Foot_float64P (SrcOK.read (by simp [Call.reads]))) _
    | text d verb => exact Foot.map (Foot_textP (SrcOK.read (by simp [Call.reads])) verb) _
    | modf d => exact Foot.map (Foot_modfLoc2 (SrcOK.read (by simp [Call.reads]))) _
  | meth k =>
    cases k with
    | set d x => exact Foot.map (Foot_setDec (by simp [Call.writes]) (SrcOK.read (by simp [Call.reads]))) _
    | neg d x => exact Foot.map (Foot_negDec (by simp [Call.writes]) (SrcOK.read (by simp [Call.reads]))) _
    | abs d x => exact Foot.map (Foot_absDec (by simp [Call.writes]) (SrcOK.read (by simp [Call.reads]))) _
    | reduce d x => exact Foot.map (Foot_reduceDec (by simp [Call.writes]) (SrcOK.read (by simp [Call.reads]))) _
    | modfInto r i f =>
      simp only [launch]
      split
      · exact Foot.pure _
      · exact Foot.map (Foot_modfP (SrcOK.read (by simp [Call.reads]))
          (fun j e => by cases e; simp [Call.writes]) (fun j e => by cases e; simp [Call.writes])) _

/-- every write of a call goes to one of its destination cells -/
theorem C18_launch_writes (k : Call) : WritesOnly (fun c => c ∈ k.writes) (launch k) :=
  (Foot_launch k).writesOnly

/-- the read-only calls contain no write -/
theorem C18_read_noWrites (k : ReadCall) : WritesOnly (fun _ => False) (launch (.read k)) := by
  have := (Foot_launch (.read k)).writesOnly
  simpa [Call.writes] using this

/-! ## the family -/

/-- the programs of the threads (`none` = idle thread) -/
def launchAll (calls : Nat → Option Call) : Nat → Prog Outcome :=
  fun i => match calls i with
    | some k => launch k
    | none => .ret .unit

def allR (calls : Nat → Option Call) (i : Nat) : Cell → Prop :=
  fun c => match calls i with
    | some k => c ∈ k.reads
    | none => False
def allW (calls : Nat → Option Call) (i : Nat) : Cell → Prop :=
  fun c => match calls i with
    | some k => c ∈ k.writes
    | none => False

/-- every destination of a call differs from every operand and every destination of every other call -/
def SeparatedAll (calls : Nat → Option Call) : Prop :=
  ∀ i j ki kj, i ≠ j → calls i = some ki → calls j = some kj →
    ∀ c, c ∈ kj.writes → c ∉ ki.reads ∧ c ∉ ki.writes

theorem launchAll_foot (calls : Nat → Option Call) (i : Nat) :
    Foot (allR calls i) (allW calls i) (launchAll calls i) := by
  unfold launchAll allR allW
  cases calls i with
  | none => exact Foot.ret _
  | some k => exact Foot_launch k

theorem separatedAll_disj {calls : Nat → Option Call} (hs : SeparatedAll calls) :
    ∀ i j, i ≠ j → ∀ c, allW calls j c → ¬ (allR calls i c ∨ allW calls i c) := by
  intro i j hij c hw hrw
  unfold allR allW at *
  cases hj : calls j with
  | none => rw [hj] at hw; exact hw
  | some kj =>
    rw [hj] at hw
    cases hi : calls i with
    | none => rw [hi] at hrw; exact hrw.elim id id
    | some ki =>
      rw [hi] at hrw
      obtain ⟨h1, h2⟩ := hs i j ki kj hij hi hj c hw
      exact hrw.elim h1 h2

/-- C18 for all kinds of calls at once: under every schedule every thread is at a prefix of its solo run; a thread
that has finished returned exactly the result of its solo run and its operand and destination cells hold what the
solo run left there -/
theorem C18_all (calls : Nat → Option Call) (hsep : SeparatedAll calls) (h0 : Heap) (s : List Nat) :
    Inv (allR calls) (allW calls) (launchAll calls) h0
      (runSched s (launchAll calls) h0).1 (runSched s (launchAll calls) h0).2 ∧
    ∀ i k a, calls i = some k → (runSched s (launchAll calls) h0).1 i = .ret a →
      a = (run (launch k) h0).1 ∧
      ∀ c, c ∈ k.reads ∨ c ∈ k.writes → (runSched s (launchAll calls) h0).2 c = (run (launch k) h0).2 c := by
  have hinv := C18_interleave (allR calls) (allW calls) (launchAll calls) h0
    (launchAll_foot calls) (separatedAll_disj hsep) s
  refine ⟨hinv, fun i k a hk hret => ?_⟩
  obtain ⟨h1, h2⟩ := inv_finished hinv hret
  have hl : launchAll calls i = launch k := by unfold launchAll; rw [hk]
  rw [hl] at h1 h2
  refine ⟨h1, fun c hc => h2 c ?_⟩
  unfold allR allW
  rw [hk]; exact hc

/-! ## what each call returns: the value-level model on the initial heap -/

/-- the result `a` of a call and the final contents `hf` of its destination cells are what the value-level model
computes from the heap `h0` -/
def Call.Spec : Call → Heap → Outcome → Heap → Prop
  | .ctx k, h0, a, hf =>
    (runCtxOp k.op k.c k.d k.x k.y k.iarg = none ∧ a = .invalid) ∨
    ∃ m res, modelCtxOp k.op k.c (h0 k.x) (h0 k.y) k.iarg = some m ∧ a = .ctx res ∧ res.2.1 = m.err ∧
      (Delivered res.2.1 → res.1 = m.fl ∧ hf k.d = m.d ∧ res.2.2 = m.aux)
  | .trans k, h0, a, hf =>
    (runTransOp k.op k.c k.d k.x k.y k.tape = none ∧ a = .invalid) ∨
    ∃ m r, modelTransOp k.op k.c (h0 k.x) (h0 k.y) k.tape = some m ∧ a = .trans r ∧
      match m with
      | none => r = none
      | some (m, t) => ∃ res, r = some (res, t) ∧ res.2.1 = m.err ∧
          (Delivered res.2.1 → res.1 = m.fl ∧ (¬ m.Aborted → hf k.d = m.d) ∧ res.2.2 = m.aux)
  | .read (.cmp d x), h0, a, _ => a = .int ((h0 d).cmp (h0 x))
  | .read (.cmpTotal d x), h0, a, _ => a = .int ((h0 d).cmpTotal (h0 x))
  | .read (.sign d), h0, a, _ => a = .int (h0 d).sign
  | .read (.isZero d), h0, a, _ => a = .bool (h0 d).isZero
  | .read (.numDigits d), h0, a, _ => a = .nat (numDigitsImpl ((h0 d).coeff : Int))
  | .read (.int64 d), h0, a, _ => a = .int64 (int64Op (h0 d))
  | .read (.float64 d), h0, a, _ => a = .str (Text.string (h0 d))
  | .read (.text d verb), h0, a, _ => a = .str (Text.append (h0 d) verb)
  | .read (.modf d), h0, a, _ => a = .decs (modf (h0 d)).1 (modf (h0 d)).2
  | .meth (.set d x), h0, a, hf => a = .unit ∧ hf d = h0 x
  | .meth (.neg d x), h0, a, hf => a = .unit ∧ hf d = (h0 x).negD
  | .meth (.abs d x), h0, a, hf => a = .unit ∧ hf d = (h0 x).absD
  | .meth (.reduce d x), h0, a, hf => a = .int ((reduceD (h0 x)).2 : Int) ∧ hf d = (reduceD (h0 x)).1
  | .meth (.modfInto r i f), h0, a, hf =>
    if i = f then a = .invalid else a = .unit ∧ hf i = (modf (h0 r)).1 ∧ hf f = (modf (h0 r)).2

/-- the specification only looks at the destination cells of the final heap -/
theorem Call.Spec.congr {k : Call} {h0 : Heap} {a : Outcome} {hf hf' : Heap}
    (hw : ∀ c, c ∈ k.writes → hf' c = hf c) (hs : k.Spec h0 a hf) : k.Spec h0 a hf' := by
  cases k with
  | ctx k =>
    have e : hf' k.d = hf k.d := hw _ (by simp [Call.writes])
    simp only [Call.Spec] at hs ⊢
    rw [e]; exact hs
  | trans k =>
    have e : hf' k.d = hf k.d := hw _ (by simp [Call.writes])
    simp only [Call.Spec] at hs ⊢
    rw [e]; exact hs
  | read k => cases k <;> exact hs
  | meth k =>
    cases k with
    | set d x => simp only [Call.Spec] at hs ⊢; rw [hw _ (by simp [Call.writes])]; exact hs
    | neg d x => simp only [Call.Spec] at hs ⊢; rw [hw _ (by simp [Call.writes])]; exact hs
    | abs d x => simp only [Call.Spec] at hs ⊢; rw [hw _ (by simp [Call.writes])]; exact hs
    | reduce d x => simp only [Call.Spec] at hs ⊢; rw [hw _ (by simp [Call.writes])]; exact hs
    | modfInto r i f =>
      simp only [Call.Spec] at hs ⊢
      rw [hw i (by simp [Call.writes]), hw f (by simp [Call.writes])]; exact hs

/-- the solo run of a call meets its specification (C05 / the run lemmas) -/
theorem launch_spec (k : Call) (h0 : Heap) : k.Spec h0 (run (launch k) h0).1 (run (launch k) h0).2 := by
  cases k with
  | ctx k =>
    simp only [Call.Spec, launch]
    cases hp : runCtxOp k.op k.c k.d k.x k.y k.iarg with
    | none => left; exact ⟨rfl, rfl⟩
    | some p =>
      right
      obtain ⟨m, hm, e1, e2, _⟩ := C05_ctxOp hp h0
      refine ⟨m, (run p h0).1, hm, ?_, e1, ?_⟩
      · simp only [run_bind, run_pure]
      · simp only [run_bind, run_pure]; exact e2
  | trans k =>
    simp only [Call.Spec, launch]
    cases hp : runTransOp k.op k.c k.d k.x k.y k.tape with
    | none => left; exact ⟨rfl, rfl⟩
    | some p =>
      right
      obtain ⟨m, hm, e1, _⟩ := C05_transOp hp h0
      refine ⟨m, (run p h0).1, hm, ?_, ?_⟩
      · simp only [run_bind, run_pure]
      · simp only [run_bind, run_pure]; exact e1
  | read k =>
    cases k with
    | cmp d x => simp only [Call.Spec, launch, run_bind, run_pure, (C18_read_cmp d x h0).1]
    | cmpTotal d x => simp only [Call.Spec, launch, run_bind, run_pure, (C18_read_cmpTotal d x h0).1]
    | sign d => simp only [Call.Spec, launch, run_bind, run_pure, (C18_read_sign d h0).1]
    | isZero d => simp only [Call.Spec, launch, run_bind, run_pure, (C18_read_isZero d h0).1]
    | numDigits d => simp only [Call.Spec, launch, run_bind, run_pure, (C18_read_numDigits d h0).1]
    | int64 d => simp only [Call.Spec, launch, run_bind, run_pure, (C18_read_int64 d h0).1]
    | float64 d => simp only [Call.Spec, launch, run_bind, run_pure, (C18_read_float64 d h0).1]
    | text d verb => simp only [Call.Spec, launch, run_bind, run_pure, (C18_read_text d verb h0).1]
    | modf d => simp only [Call.Spec, launch, run_bind, run_pure, (C18_read_modf d h0).1]
  | meth k =>
    cases k with
    | set d x => simp [Call.Spec, launch]
    | neg d x => simp [Call.Spec, launch]
    | abs d x => simp [Call.Spec, launch]
    | reduce d x => simp [Call.Spec, launch, run_reduceDec]
    | modfInto r i f =>
      simp only [Call.Spec, launch]
      by_cases hif : i = f
      · simp [hif]
      · simp only [hif, if_false, run_bind, run_pure]
        obtain ⟨s1, s2, _⟩ := modfP_spec (.cell r) (some i) (some f) h0
          (fun j e e' => hif (by cases e; cases e'; rfl))
        exact ⟨trivial, s1 i rfl, s2 f rfl⟩

/-- C18, the model form: under every schedule, what a finished call returned and what its destination cells hold
is what the value-level model computes from the operands' values in the INITIAL heap -/
theorem C18_all_model (calls : Nat → Option Call) (hsep : SeparatedAll calls) (h0 : Heap) (s : List Nat)
    (i : Nat) (k : Call) (a : Outcome) (hk : calls i = some k)
    (hret : (runSched s (launchAll calls) h0).1 i = .ret a) :
    k.Spec h0 a (runSched s (launchAll calls) h0).2 := by
  obtain ⟨h1, h2⟩ := (C18_all calls hsep h0 s).2 i k a hk hret
  rw [h1]
  exact (launch_spec k h0).congr (fun c hc => h2 c (Or.inr hc))

end Apd.Props

#print axioms Apd.Props.C18_read_cmp
#print axioms Apd.Props.C18_read_cmpTotal
#print axioms Apd.Props.C18_read_sign
#print axioms Apd.Props.C18_read_isZero
#print axioms Apd.Props.C18_read_numDigits
#print axioms Apd.Props.C18_read_int64
#print axioms Apd.Props.C18_read_text
#print axioms Apd.Props.C18_read_float64
#print axioms Apd.Props.C18_read_modf
#print axioms Apd.Props.C18_read_noWrites
#print axioms Apd.Props.Foot_launch
#print axioms Apd.Props.C18_launch_writes
#print axioms Apd.Props.C18_all
#print axioms Apd.Props.C18_all_model
