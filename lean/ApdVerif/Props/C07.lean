import ApdVerif.Props.RoundCore
import ApdVerif.Props.Mul
import ApdVerif.Props.Quo
import ApdVerif.Props.C10
/-!
# C07 — every finite result fits the context it was computed in

`fits c d`: at most Precision coefficient digits, adjusted exponent ≤ MaxExponent, exponent ≥ Etiny
for non-zero values (the coefficient is a `Nat`, the form is one of four constructors).
-/
namespace Apd.Props
open Apd Apd.Oracle

theorem C07_round (c : Ctx) (hc : c.WF) (x : Dec) (hx : x.form = .finite)
    (h : Delivered (roundOp c x).err) : fits c (roundOp c x).d = true := (C01_round c hc x hx h).2.2

theorem C07_abs (c : Ctx) (hc : c.WF) (x : Dec) (hx : x.form = .finite)
    (h : Delivered (absOp c x).err) : fits c (absOp c x).d = true := (C01_abs c hc x hx h).2.2

theorem C07_neg (c : Ctx) (hc : c.WF) (x : Dec) (hx : x.form = .finite)
    (h : Delivered (negOp c x).err) : fits c (negOp c x).d = true := (C01_neg c hc x hx h).2.2

theorem C07_add (c : Ctx) (hc : c.WF) (x y : Dec) (sub : Bool)
    (hx : x.form = .finite) (hy : y.form = .finite) (h : Delivered (addOp c x y sub).err) :
    fits c (addOp c x y sub).d = true := (C01_add c hc x y sub hx hy h).2.2

theorem C07_mul (c : Ctx) (hc : c.WF) (x y : Dec) (hx : x.form = .finite) (hy : y.form = .finite)
    (h : Delivered (mulOp c x y).err) : fits c (mulOp c x y).d = true := (C01_mul c hc x y hx hy h).2.2

theorem C07_quo (c : Ctx) (hc : c.WF) (x y : Dec) (hx : x.form = .finite) (hy : y.form = .finite)
    (hy0 : y.coeff ≠ 0) (h : Delivered (quoOp c x y).err) : fits c (quoOp c x y).d = true :=
  (C01_quo c hc x y hx hy hy0 h).2.2

/-- QuoInteger results have exponent 0 and at most Precision digits -/
theorem C07_quoInteger (c : Ctx) (hc : c.WF) (x y : Dec) (hx : x.form = .finite) (hy : y.form = .finite)
    (hy0 : y.coeff ≠ 0) (hgap : x.exp - y.exp ≤ 100000 ∧ y.exp - x.exp ≤ 100000)
    (hf : (quoIntegerOp c x y).d.form = .finite) :
    (quoIntegerOp c x y).d.exp = 0 ∧ ndigits (quoIntegerOp c x y).d.coeff ≤ c.prec := by
  have h := C10_quoInteger c hc x y hx hy hy0 hgap
  simp only [] at h
  split at h
  · rename_i hq
    rw [h.1]; exact ⟨rfl, hq⟩
  · rw [h.1] at hf; cases hf

end Apd.Props
