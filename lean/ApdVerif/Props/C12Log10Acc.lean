import ApdVerif.Lemmas.Log10AccMain
import ApdVerif.Props.TransLog
/-!
# C12 for `Context.Log10`, proved on the tape model

`Log10` runs `Ln` at `Precision + 2` digits in a half-even copy of `BaseContext` (so that `Ln` itself works with
`Precision + 4` digits), multiplies by the pre-rounded `1/ln 10` table entry in a `Precision`-digit half-even
context, and rounds the product once more in the caller's context and mode.  With `P = Precision`,
`u₂ = 10^(-P-1)/2`, `ulp = 10^(Oracle.ulpOf c result).e`, `ρ = 1/2` (half modes) or `1` (directed modes),
`N` = number of series terms of the inner `Ln` (`lnTermsN (log10Nc c) x`, 0 on the Halley path):

    |result - log10 x| ≤ (ρ + 3/5 + (N+5)/1500)·ulp + u₂/25            `C12_log10_accurate`

under the decidable `Log10TapeOK c x tape` (Oracle/Log10TapeOK.lean: `LnTapeOK` for the inner call, `P + 4 ≤ 90`
for the two certified tables; `true` on all 6302 recorded real calls).  The `ρ` is the SECOND rounding (the product
is already rounded half-even to `P` digits, so in the normal exponent range the second rounding is the identity and
the caller's rounding mode has no effect: the result is the half-even one, about 0.6 ulp from the truth).  The inner
`Ln`'s weakness for `x ∈ (1.1, e^0.1)` costs nothing here: the two extra digits absorb it.

Stages: `C12_log10_inv_cert` (the `1/ln 10` string against `Real.log 10`), `C12_log10_inv_table_near`,
`C12_log10_inner_ln` (the inner `Ln` result is `ln x` up to `e₁·|l| + 0.09u₂`), `C12_log10_accurate`.
-/
namespace Apd.Props
open Apd Apd.Oracle Apd.ExpAcc Apd.LnAcc Apd.C12IL Cond

/-- the `1/ln 10` digit string of const.go against the real number, to 94 digits -/
theorem C12_log10_inv_cert :
    |(invLn10Coeff : ℝ) * (10 : ℝ) ^ invLn10Exp - 1 / Real.log 10| ≤ (10 : ℝ) ^ (-(94 : ℤ)) := invLn10_cert

/-- the table entry used at `3 ≤ p ≤ 90` -/
theorem C12_log10_inv_table_near (p : Nat) (hp1 : 3 ≤ p) (hp : p ≤ 90) :
    (invLn10At p).form = .finite ∧ |rv (invLn10At p) - 1 / Real.log 10| ≤ 1001 / 10000 * uR p ∧
    43 / 100 ≤ rv (invLn10At p) ∧ rv (invLn10At p) ≤ 44 / 100 := invLn10At_near p hp1 hp

/-- the inner `Ln` of `Log10` (wide half-even caller context): `|l - ln x| ≤ e₁·|l| + 0.09·u₂`,
`e₁ = u₂(1.031 + 0.012564(N+5)) ≤ 0.007` -/
theorem C12_log10_inner_ln (c : Ctx) (hc1 : 1 ≤ c.prec) (hp : c.prec + 4 ≤ 90) (x : Dec) (tape tp : Tape) (l : Out)
    (hok : LnTapeOK (log10Nc c) x tape = true) (hsp : logSpecials (log10Nc c) x = none)
    (hl : lnT (log10Nc c) x tape = some (l, tp)) (he : l.err = .none) :
    l.d.form = .finite ∧
      |rv l.d - Real.log (rv x)| ≤ lnRelE (uR (c.prec + 2)) (lnTermsN (log10Nc c) x) * |rv l.d| +
        9 / 100 * uR (c.prec + 2) :=
  ln_wide_result c hc1 hp x tape tp l hok hsp hl he

/-- `Context.Log10` on the tape model: every delivered finite result is within
`(ρ + 3/5 + (N+5)/1500)·ulp + u₂/25` of `log10 x` -/
theorem C12_log10_accurate (c : Ctx) (hc : c.WF) (x : Dec) (tape r' : Tape) (o : Out)
    (hok : Log10TapeOK c x tape = true)
    (h : log10T c x tape = some (o, r')) (he : o.err = .none) (hf : o.d.form = .finite) :
    |((o.d.toRat : ℚ) : ℝ) - Real.log ((x.toRat : ℚ) : ℝ) / Real.log 10| ≤
      (((rhoMode c.mode : ℚ) : ℝ) + 3 / 5 + ((lnTermsN (log10Nc c) x : ℕ) + 5 : ℝ) / 1500) *
        (10 : ℝ) ^ (ulpOf c o.d).e + 1 / 25 * ((10 : ℝ) ^ (-(c.prec : ℤ) - 1) / 2) := by
  have huR : uR (c.prec + 2) = (10 : ℝ) ^ (-(c.prec : ℤ) - 1) / 2 := by
    unfold uR; congr 2; push_cast; ring
  rw [← huR]
  exact log10_main c hc x tape r' o hok h (Or.inl he) hf

/-- the same for an outcome delivered with a trap error -/
theorem C12_log10_accurate_delivered (c : Ctx) (hc : c.WF) (x : Dec) (tape r' : Tape) (o : Out)
    (hok : Log10TapeOK c x tape = true)
    (h : log10T c x tape = some (o, r')) (hd : DeliveredT c o) (hf : o.d.form = .finite) :
    |rv o.d - Real.log (rv x) / Real.log 10| ≤
      (((rhoMode c.mode : ℚ) : ℝ) + 3 / 5 + ((lnTermsN (log10Nc c) x : ℕ) + 5 : ℝ) / 1500) *
        (10 : ℝ) ^ (ulpOf c o.d).e + 1 / 25 * uR (c.prec + 2) :=
  log10_main c hc x tape r' o hok h hd hf

/-- when the result is at least `0.01` in magnitude the additive term is at most `ulp/50` -/
theorem C12_log10_ulps (c : Ctx) (hc : c.WF) (x : Dec) (tape r' : Tape) (o : Out)
    (hok : Log10TapeOK c x tape = true)
    (h : log10T c x tape = some (o, r')) (hd : DeliveredT c o) (hf : o.d.form = .finite)
    (hadj : -2 ≤ (ndigits o.d.coeff : Int) - 1 + o.d.exp) :
    |rv o.d - Real.log (rv x) / Real.log 10| ≤
      (((rhoMode c.mode : ℚ) : ℝ) + 31 / 50 + ((lnTermsN (log10Nc c) x : ℕ) + 5 : ℝ) / 1500) *
        (10 : ℝ) ^ (ulpOf c o.d).e := by
  have := log10_main c hc x tape r' o hok h hd hf
  have h1' : (-(c.prec : ℤ)) - 1 ≤ (ulpOf c o.d).e := by
    show (-(c.prec : ℤ)) - 1 ≤ max ((ndigits o.d.coeff : Int) - 1 + o.d.exp - (c.prec : Int) + 1) (c.emin - (c.prec : Int) + 1)
    apply le_trans _ (le_max_left _ _); omega
  have h2 : (10 : ℝ) ^ ((-(c.prec : ℤ)) - 1) ≤ (10 : ℝ) ^ (ulpOf c o.d).e := zpow_le_zpow_right₀ (by norm_num) h1'
  have h3 : uR (c.prec + 2) = 1 / 2 * (10 : ℝ) ^ ((-(c.prec : ℤ)) - 1) := by
    rw [uR_eq, zpow_sub₀ (by norm_num : (10 : ℝ) ≠ 0), zpow_neg, zpow_natCast, pow_add]; field_simp; norm_num
  have hU : ulpExp c o.d = (ulpOf c o.d).e := rfl
  rw [hU, h3] at this
  linarith

/-! ## `Log10TapeOK` on real tapes

Evaluated (scratch/Log10TapeOK_recorded.lean) on the 6302 `log10` calls with a nil error and a finite result recorded in
`/verif/work/lines_C12_translog.txt`: `true` for all.  Kernel-checked instances with the tapes the Go code produced: -/

def l10Ctx (p : Nat) : Ctx := { prec := p, emax := 100000, emin := -100000, mode := .halfEven }

example : Log10TapeOK (l10Ctx 5) { coeff := 2 }
    [.est { neg := true, coeff := 16094379124341003, exp := -16 }, .cp 9, .n 9, .cp 9, .n 9] = true := by decide +kernel
example : (log10T (l10Ctx 5) { coeff := 2 }
    [.est { neg := true, coeff := 16094379124341003, exp := -16 }, .cp 9, .n 9, .cp 9, .n 9]).map
    (fun p => (p.1.d, p.1.err, p.2.length)) = some ({ coeff := 30103, exp := -5 }, .none, 0) := by decide +kernel
/-- `log10 1.103146` at 4 digits is `0.04263` (true value `0.0426330…`): fine, although the inner `Ln` is in its bad zone -/
example : (log10T (l10Ctx 4) { coeff := 1103146, exp := -6 }
    [.est { neg := true, coeff := 22044189952085236, exp := -16 }, .cp 8, .n 9, .cp 8, .n 9]).map
    (fun p => (p.1.d, p.1.err, p.2.length)) = some ({ coeff := 4263, exp := -5 }, .none, 0) := by decide +kernel

end Apd.Props

#print axioms Apd.Props.C12_log10_inv_cert
#print axioms Apd.Props.C12_log10_inv_table_near
#print axioms Apd.Props.C12_log10_inner_ln
#print axioms Apd.Props.C12_log10_accurate
#print axioms Apd.Props.C12_log10_accurate_delivered
#print axioms Apd.Props.C12_log10_ulps
