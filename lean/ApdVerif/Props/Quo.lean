import ApdVerif.Spec.Agrees
/-! # Quo agrees with the specification (scaled integer division, remainder-based rounding,
carry renormalisation, sticky digit in the subnormal range) -/
namespace Apd.Props
open Apd Apd.Oracle

theorem C01_quo (c : Ctx) (hc : c.WF) (x y : Dec) (hx : x.form = .finite) (hy : y.form = .finite)
    (hy0 : y.coeff ≠ 0) (h : Delivered (quoOp c x y).err) :
    Agrees c (exactQuo x y) (quoOp c x y).d (quoOp c x y).fl := by
  sorry

end Apd.Props
