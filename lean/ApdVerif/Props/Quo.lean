import ApdVerif.Spec.Agrees
import ApdVerif.Lemmas.QuoLemmas
/-! # Quo agrees with the specification (scaled integer division, remainder-based rounding,
carry renormalisation, sticky digit in the subnormal range) -/
set_option linter.unusedSimpArgs false
set_option linter.unusedVariables false
namespace Apd.Props
open Apd Apd.Oracle Apd.QuoL

/-- zero dividend: the result is a zero with the ideal exponent, clamped into range -/
theorem quo_zero_agrees (c : Ctx) (hc : c.WF) (neg : Bool) (shift : Int) (Y : Nat)
    (hns : NoSys (setExponent c ⟨.finite, neg, 0, 0⟩ {} [shift]).2) :
    Agrees c { neg := neg, num := 0, den := Y, e10 := shift }
      (setExponent c ⟨.finite, neg, 0, 0⟩ {} [shift]).1 (setExponent c ⟨.finite, neg, 0, 0⟩ {} [shift]).2 := by
  obtain ⟨hP, hPmax, hmax, hmin, hmin0⟩ := hc
  rw [setExponent_noSys _ _ _ _ hns]
  have e : sumInts [shift] = shift := by simp [sumInts]
  have hd0 : ndigits 0 = 1 := by decide
  rw [e]
  have hs : specRound c { neg := neg, num := 0, den := Y, e10 := shift } = { neg := neg, m := 0, q := shift } := by
    simp [specRound]
  unfold Agrees
  rw [hs]
  unfold seCore
  simp only [Dec.isZero, hd0]
  by_cases h1 : shift + ((1 : Nat) : Int) - 1 < c.emin
  · rw [if_pos h1]
    by_cases h2 : shift < c.emin - ((c.prec : Int) - 1)
    · rw [if_pos h2]
      simp [SpecOut.matches, FlagsOK, fits, seFinish, SpecOut.underflow, Cond.cInexact, Cond.cRounded,
        Cond.cSubnormal, Cond.cClamped, Cond.cUnderflow, hd0]
      omega
    · rw [if_neg h2]
      simp [SpecOut.matches, FlagsOK, fits, seFinish, SpecOut.underflow, Cond.cInexact, Cond.cRounded,
        Cond.cSubnormal, Cond.cClamped, Cond.cUnderflow, hd0]
      omega
  · rw [if_neg h1]
    by_cases h2 : shift + ((1 : Nat) : Int) - 1 > c.emax
    · rw [if_pos h2]
      simp [SpecOut.matches, FlagsOK, fits, seFinish, SpecOut.underflow, Cond.cInexact, Cond.cRounded,
        Cond.cSubnormal, Cond.cClamped, Cond.cUnderflow, hd0]
      omega
    · rw [if_neg h2]
      simp [SpecOut.matches, FlagsOK, fits, seFinish, SpecOut.underflow, Cond.cInexact, Cond.cRounded,
        Cond.cSubnormal, Cond.cClamped, Cond.cUnderflow, hd0]
      omega
theorem C01_quo (c : Ctx) (hc : c.WF) (x y : Dec) (hx : x.form = .finite) (hy : y.form = .finite)
    (hy0 : y.coeff ≠ 0) (h : Delivered (quoOp c x y).err) :
    Agrees c (exactQuo x y) (quoOp c x y).d (quoOp c x y).fl := by
  have hP := hc.1
  have hp : c.prec ≠ 0 := by omega
  by_cases hx0 : x.coeff = 0
  · rw [quoOp_zero c x y hx hy hy0 hp hx0] at h ⊢
    simp only [finish] at h ⊢
    have hns := noSys_of_delivered _ _ h
    have e : exactQuo x y = { neg := x.neg != y.neg, num := 0, den := y.coeff, e10 := x.exp - y.exp } := by
      simp [exactQuo, hx0]
    rw [e]
    exact quo_zero_agrees c hc _ _ _ hns
  · rw [quoOp_eq c x y hx hy hy0 hp hx0] at h ⊢
    simp only [finish] at h ⊢
    have hns := noSys_of_delivered _ _ h
    have hX : 0 < x.coeff := Nat.pos_of_ne_zero hx0
    have hY : 0 < y.coeff := Nat.pos_of_ne_zero hy0
    obtain ⟨s1, s2, s3, s4, s5⟩ := quo_scale x.coeff y.coeff hX hY
    have eP : ((c.prec : Int) - 1).toNat = c.prec - 1 := by omega
    have hlo : qDivisor x.coeff y.coeff * 10 ^ (c.prec - 1) ≤ qDividend c.prec x.coeff y.coeff := by
      unfold qDividend; rw [eP]; exact Nat.mul_le_mul_right _ s2
    have hhi : qDividend c.prec x.coeff y.coeff < qDivisor x.coeff y.coeff * 10 ^ c.prec := by
      unfold qDividend; rw [eP, pow_pred_mul c.prec hP]
      have := Nat.mul_lt_mul_of_pos_right s3 (Nat.pow_pos (n := c.prec - 1) (show 0 < 10 by decide))
      calc qDividend1 x.coeff y.coeff * 10 ^ (c.prec - 1)
          < 10 * qDivisor x.coeff y.coeff * 10 ^ (c.prec - 1) := this
        _ = qDivisor x.coeff y.coeff * (10 * 10 ^ (c.prec - 1)) := by ring
    exact quo_core c hc _ _ _ x.coeff y.coeff _ _ hx0 hY s1 hlo hhi s4
      (quo_cross c.prec x.coeff y.coeff hP hX hY) hns

end Apd.Props

#print axioms Apd.Props.C01_quo
