import ApdVerif.Model.Conv
import ApdVerif.Lemmas.C17Lemmas
/-!
# C17 — integer conversions and Modf are exact
-/
namespace Apd.Props
open Apd Apd.C17L

/-- Modf: `integ + frac = d` exactly, `integ` an integer with exponent ≥ 0, `|frac| < 1`, both
carry `d`'s sign (stated on coefficients scaled to the common exponent). -/
theorem C17_modf (d : Dec) (hd : d.form = .finite) :
    let m := modf d
    m.1.form = .finite ∧ m.2.form = .finite ∧ m.1.neg = d.neg ∧ m.2.neg = d.neg ∧
    0 ≤ m.1.exp ∧ m.2.exp ≤ 0 ∧
    m.2.coeff < 10 ^ (-m.2.exp).toNat ∧
    (if d.exp > 0 then m.1 = d ∧ m.2.coeff = 0
     else m.1.exp = 0 ∧ m.2.exp = d.exp ∧ m.1.coeff * 10 ^ (-d.exp).toNat + m.2.coeff = d.coeff) := by
  rcases d with ⟨f, n, e, c⟩
  simp only at hd; subst hd
  by_cases h1 : e > 0
  · simp [modf, h1]; omega
  · by_cases h2 : -e > (ndigits c : Int)
    · have hlt : c < 10 ^ (-e).toNat := by
        by_cases hc : c = 0
        · subst hc; exact Nat.pow_pos (by decide)
        · have a := (ndigits_spec c (by omega)).2
          have : 10 ^ ndigits c ≤ 10 ^ (-e).toNat := Nat.pow_le_pow_right (by decide) (by omega)
          omega
      simp [modf, h1, h2, hlt]
      omega
    · have hp : 0 < 10 ^ (-e).toNat := Nat.pow_pos (by decide)
      have := Nat.mod_lt c hp
      have := Nat.div_add_mod c (10 ^ (-e).toNat)
      simp [modf, h1, h2]
      refine ⟨by omega, by assumption, ?_⟩
      rw [Nat.mul_comm]; assumption

/-- the integer value of a finite decimal with zero fractional part -/
def intValue (d : Dec) : Int :=
  (if d.neg then -1 else 1) * ((d.coeff * 10 ^ d.exp.toNat / 10 ^ (-d.exp).toNat : Nat) : Int)

/-- `d` denotes an integer -/
def IsInteger (d : Dec) : Prop := d.exp ≥ 0 ∨ d.coeff % 10 ^ (-d.exp).toNat = 0

/-- what `modf` delivers when the fractional part is zero -/
theorem modf_int (d : Dec) (hd : d.form = .finite) :
    ((modf d).2.isZero = true ↔ IsInteger d) ∧
    ((modf d).2.isZero = true → ∃ E C,
        (modf d).1 = { form := .finite, neg := d.neg, exp := E, coeff := C } ∧ 0 ≤ E ∧
        C * 10 ^ E.toNat = d.coeff * 10 ^ d.exp.toNat / 10 ^ (-d.exp).toNat) := by
  rcases d with ⟨f, n, e, c⟩
  simp only at hd; subst hd
  unfold IsInteger
  by_cases h1 : e > 0
  · have h0 : (-e).toNat = 0 := by omega
    simp [modf, h1, Dec.isZero, h0]
    exact ⟨by omega, by omega⟩
  · have he : e.toNat = 0 := by omega
    by_cases h2 : -e > (ndigits c : Int)
    · have hp := ndigits_pos c
      have hlt : c < 10 ^ (-e).toNat := by
        by_cases hc : c = 0
        · subst hc; exact Nat.pow_pos (by decide)
        · have a := (ndigits_spec c (by omega)).2
          have : 10 ^ ndigits c ≤ 10 ^ (-e).toNat := Nat.pow_le_pow_right (by decide) (by omega)
          omega
      have hmod : c % 10 ^ (-e).toNat = c := Nat.mod_eq_of_lt hlt
      simp [modf, h1, h2, Dec.isZero, hmod, he]
      constructor
      · intro h; omega
      · intro h; subst h; simp
    · simp [modf, h1, h2, Dec.isZero, he]
      intro h
      have : e = 0 := by omega
      subst this
      simp [Nat.mod_one]

/-- Int64 succeeds exactly on integers within `[MinInt64, MaxInt64]` and returns that integer;
never a wrapped value. -/
theorem C17_int64 (d : Dec) (hd : d.form = .finite) (v : Int) :
    int64Op d = some v ↔ (IsInteger d ∧ -2 ^ 63 ≤ intValue d ∧ intValue d ≤ 2 ^ 63 - 1 ∧ v = intValue d) := by
  obtain ⟨hiff, hex⟩ := modf_int d hd
  unfold int64Op
  simp only [hd, bne_self_eq_false, Bool.false_eq_true, if_false]
  by_cases hz : (modf d).2.isZero = true
  · obtain ⟨E, C, hm, hE, hN⟩ := hex hz
    have hI := hiff.1 hz
    have c1 := cmp_intExp d.neg E C false (2 ^ 63 - 1) hE (by norm_num)
    have c2 := cmp_intExp d.neg E C true (2 ^ 63) hE (by norm_num)
    change Dec.cmp _ decMaxInt64 = _ at c1
    change Dec.cmp _ decMinInt64 = _ at c2
    have hv : intValue d = sval d.neg (C * 10 ^ E.toNat) := by
      unfold intValue sval; rw [hN]
    simp only [hz, hm, c1, c2, wrap64_mod, mul10Loop_wrap, hv, hI, true_and, Bool.not_true,
      Bool.false_eq_true, if_false]
    have hcast : ((C : Int) * 10 ^ E.toNat) = ((C * 10 ^ E.toNat : Nat) : Int) := by push_cast; rfl
    rw [hcast]
    generalize C * 10 ^ E.toNat = N
    unfold cmpInt sval
    cases d.neg <;> simp
    · by_cases h : N ≤ 9223372036854775807
      · rw [wrap64_id _ (by omega) (by omega)]
        split_ifs <;> omega
      · split_ifs <;> omega
    · rw [wrap64_neg]
      by_cases h : N ≤ 9223372036854775808
      · rw [wrap64_id _ (by omega) (by omega)]
        split_ifs <;> omega
      · split_ifs <;> omega
  · have hI : ¬ IsInteger d := fun h => hz (hiff.2 h)
    simp [hz, hI]

theorem C17_int64_nonfinite (d : Dec) (hd : d.form ≠ .finite) : int64Op d = none := by
  unfold int64Op
  simp [hd]

/-- SetInt64 / New / SetFinite / NewWithBigInt represent their argument exactly -/
theorem C17_setFinite (x e : Int) :
    let d := setFinite x e
    d.form = .finite ∧ d.exp = e ∧ (if d.neg then -1 else 1) * (d.coeff : Int) = x := by
  simp only [setFinite]
  refine ⟨trivial, trivial, ?_⟩
  by_cases h : x < 0
  · simp only [h, decide_true, if_true]; omega
  · simp only [h, decide_false, Bool.false_eq_true, if_false]; omega

example : int64Op { coeff := 9223372036854775808, neg := true } = some (-9223372036854775808) := by decide
example : int64Op { coeff := 9223372036854775808 } = none := by decide
example : int64Op { coeff := 922337203685477581, exp := 1 } = none := by decide
example : int64Op { coeff := 1500, exp := -2 } = some 15 := by decide

#print axioms C17_modf
#print axioms C17_int64
#print axioms C17_int64_nonfinite
#print axioms C17_setFinite

end Apd.Props
