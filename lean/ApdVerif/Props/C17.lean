import ApdVerif.Model.Conv
/-!
# C17 — integer conversions and Modf are exact
-/
namespace Apd.Props
open Apd

/-- Modf: `integ + frac = d` exactly, `integ` an integer with exponent ≥ 0, `|frac| < 1`, both
carry `d`'s sign (stated on coefficients scaled to the common exponent). -/
theorem C17_modf (d : Dec) (hd : d.form = .finite) :
    let m := modf d
    m.1.form = .finite ∧ m.2.form = .finite ∧ m.1.neg = d.neg ∧ m.2.neg = d.neg ∧
    0 ≤ m.1.exp ∧ m.2.exp ≤ 0 ∧
    m.2.coeff < 10 ^ (-m.2.exp).toNat ∧
    (if d.exp > 0 then m.1 = d ∧ m.2.coeff = 0
     else m.1.exp = 0 ∧ m.2.exp = d.exp ∧ m.1.coeff * 10 ^ (-d.exp).toNat + m.2.coeff = d.coeff) := by
  sorry

/-- the integer value of a finite decimal with zero fractional part -/
def intValue (d : Dec) : Int :=
  (if d.neg then -1 else 1) * ((d.coeff * 10 ^ d.exp.toNat / 10 ^ (-d.exp).toNat : Nat) : Int)

/-- `d` denotes an integer -/
def IsInteger (d : Dec) : Prop := d.exp ≥ 0 ∨ d.coeff % 10 ^ (-d.exp).toNat = 0

/-- Int64 succeeds exactly on integers within `[MinInt64, MaxInt64]` and returns that integer;
never a wrapped value. -/
theorem C17_int64 (d : Dec) (hd : d.form = .finite) (v : Int) :
    int64Op d = some v ↔ (IsInteger d ∧ -2 ^ 63 ≤ intValue d ∧ intValue d ≤ 2 ^ 63 - 1 ∧ v = intValue d) := by
  sorry

theorem C17_int64_nonfinite (d : Dec) (hd : d.form ≠ .finite) : int64Op d = none := by
  sorry

/-- SetInt64 / New / SetFinite / NewWithBigInt represent their argument exactly -/
theorem C17_setFinite (x e : Int) :
    let d := setFinite x e
    d.form = .finite ∧ d.exp = e ∧ (if d.neg then -1 else 1) * (d.coeff : Int) = x := by
  sorry

example : int64Op { coeff := 9223372036854775808, neg := true } = some (-9223372036854775808) := by decide
example : int64Op { coeff := 9223372036854775808 } = none := by decide
example : int64Op { coeff := 922337203685477581, exp := 1 } = none := by decide
example : int64Op { coeff := 1500, exp := -2 } = some 15 := by decide

end Apd.Props
