import ApdVerif.Lemmas.C05TransPowLemmas
/-!
# C05 for the composite functions — any argument may alias the destination or another argument

Programs: `Imp/TransOps.lean` (`sqrtP`, `cbrtP`, `expP`, `lnP`, `log10P`, `powP`, table `runTransOp`); run lemmas:
`Lemmas/C05TransLemmas.lean`, `C05TransLogLemmas.lean`, `C05TransPowLemmas.lean`.  The statements have the shape of
`C05_<op>` in `Props/C05.lean` — for every heap and EVERY choice of the cells (all aliasing patterns at once): the
error class of the value-level model on the operands' prior values; if delivered, its flags, aux value and
destination; frame.

`Pow` satisfies exactly that statement (`C05_pow`, against `powT`, for EVERY aliasing, destination compared whenever
the outcome is delivered).  This holds since the repair of `Context.Pow`: on the error exit of the fractional part
(`if err := ed.Err(); err != nil`) it now does `d.Set(decimalNaN)` before `return ed.Flags, err`, like the failed
integer power a few lines above.  Before the repair that exit left the integer power in `d` when `d ≠ x` and `x`
itself when `d == x` (`z = new(Decimal)`), so that a trapped condition — a delivered outcome — left different values
in `d` for the two aliasing patterns (observed on the Go code: `BaseContext.WithPrecision(5)`, `x = 1E-99999`,
`y = 0.9999`: flags 2168, error "underflow, subnormal", `d = 1` resp. `x = 1E-99999`).  Every outcome of `powT` now
has a definite destination; the `example` after `C05_pow` shows NaN for both aliasings on such an input.

The other five carry the suffix `_partial` for one reason, which is a modelling convention and not a property of the
Go code: the value-level models describe a call on a FRESH destination, and a composite function that gives up
because its internal `ErrDecimal` holds an error (`return 0, err`) is modelled by `failOut err` (flags 0, zero
destination).  When that error is a trapped condition the outcome is "delivered" but the model's destination is a
placeholder (`Out.Aborted`: flags 0 and error class `trap`); the cell then holds what it held when the function gave
up (`Sqrt`: its previous contents, `C05_sqrt_abort_keeps`).  So the destination is compared only when the model's
outcome is not `Aborted`.  Counterexample to the unconditional statement for `Sqrt`
(`C05_sqrt_unconditional_false`): `c = {prec := 5, traps := {inexact}}`, `h 0 = 7`, `h 1 = 2`, `d = 0`, `x = 1`: Go
and the program return `(0, trap)` and leave `7` in `d`; `sqrtOp c 2 = failOut .trap` has `d = 0`.
-/
namespace Apd.Imp
open Apd Apd.Cond Prog

/-- the statement of C05 for one run of a composite function with a decision tape -/
def TTSpec (r : Option (Res × Tape) × Heap) (d : Cell) (h : Heap) (m : Option (Out × Tape)) : Prop :=
  (match m with
   | none => r.1 = none
   | some (m, t) => ∃ res, r.1 = some (res, t) ∧ res.2.1 = m.err ∧
       (Delivered res.2.1 → res.1 = m.fl ∧ (¬ m.Aborted → r.2 d = m.d) ∧ res.2.2 = m.aux)) ∧
  ∀ cell, cell ≠ d → r.2 cell = h cell

theorem TTRes.spec {r : Option (Res × Tape) × Heap} {d : Cell} {h : Heap} {m : Option (Out × Tape)}
    (hr : TTRes r d h m) : TTSpec r d h m := by
  cases m with
  | none =>
    obtain ⟨h1, v, h2⟩ := hr
    exact ⟨h1, fun cell hc => by rw [h2]; exact Heap.set_other _ _ hc⟩
  | some mt =>
    obtain ⟨m, t⟩ := mt
    obtain ⟨res, h1, ht⟩ := hr
    obtain ⟨e1, e2, e3⟩ := ht.spec
    exact ⟨⟨res, h1, e1, e2⟩, e3⟩

/-- the statement of C05 in the exact shape of `C05_<op>` (destination compared whenever the outcome is delivered),
for a function with a decision tape -/
def STSpec (r : Option (Res × Tape) × Heap) (d : Cell) (h : Heap) (m : Option (Out × Tape)) : Prop :=
  (match m with
   | none => r.1 = none
   | some (m, t) => ∃ res, r.1 = some (res, t) ∧ res.2.1 = m.err ∧
       (Delivered res.2.1 → res.1 = m.fl ∧ r.2 d = m.d ∧ res.2.2 = m.aux)) ∧
  ∀ cell, cell ≠ d → r.2 cell = h cell

theorem STRes.spec {r : Option (Res × Tape) × Heap} {d : Cell} {h : Heap} {m : Option (Out × Tape)}
    (hr : STRes r d h m) : STSpec r d h m := by
  cases m with
  | none =>
    obtain ⟨h1, v, h2⟩ := hr
    exact ⟨h1, fun cell hc => by rw [h2]; exact Heap.set_other _ _ hc⟩
  | some mt =>
    obtain ⟨m, t⟩ := mt
    obtain ⟨res, h1, fl, aux, v, hv, hd⟩ := hr
    have e1 : res = (fl, m.err, aux) := (Prod.mk.inj hv).1
    have e2 : r.2 = h.set d v := (Prod.mk.inj hv).2
    subst e1
    refine ⟨⟨_, h1, rfl, fun hdel => ?_⟩, fun cell hc => by rw [e2]; exact Heap.set_other _ _ hc⟩
    obtain ⟨a1, a2, a3⟩ := hd hdel
    exact ⟨a1, by rw [e2, a3]; simp, a2⟩

/-- the exact shape implies the one with the `Aborted` exclusion -/
theorem STSpec.toT {r : Option (Res × Tape) × Heap} {d : Cell} {h : Heap} {m : Option (Out × Tape)}
    (hs : STSpec r d h m) : TTSpec r d h m := by
  cases m with
  | none => exact hs
  | some mt =>
    obtain ⟨m, t⟩ := mt
    obtain ⟨⟨res, h1, e1, e2⟩, e3⟩ := hs
    exact ⟨⟨res, h1, e1, fun hd => ⟨(e2 hd).1, fun _ => (e2 hd).2.1, (e2 hd).2.2⟩⟩, e3⟩

/-- for an outcome that is not the placeholder of an aborted call the statement has the exact shape of `C05_<op>` -/
theorem TTSpec.of_not_aborted {r : Option (Res × Tape) × Heap} {d : Cell} {h : Heap} {m : Out} {t : Tape}
    (hs : TTSpec r d h (some (m, t))) (hna : ¬ m.Aborted) :
    ∃ res, r.1 = some (res, t) ∧ res.2.1 = m.err ∧
      (Delivered res.2.1 → res.1 = m.fl ∧ r.2 d = m.d ∧ res.2.2 = m.aux) ∧
      ∀ cell, cell ≠ d → r.2 cell = h cell := by
  obtain ⟨⟨res, h1, e1, e2⟩, e3⟩ := hs
  exact ⟨res, h1, e1, fun hd => ⟨(e2 hd).1, (e2 hd).2.1 hna, (e2 hd).2.2⟩, e3⟩

/-! ### outcomes that are never the placeholder -/

theorem cInvalidOp_ne_empty : cInvalidOp ≠ ({} : Cond) := by decide

theorem setAsNaN_not_aborted (c : Ctx) (x : Dec) (y : Option Dec) : ¬ (setAsNaN c x y).Aborted := by
  apply Out.not_aborted_of_goError (t := c.traps)
  unfold setAsNaN
  simp only [apply_ite Out.err, apply_ite Out.fl, apply_ite (goError c.traps), goError_empty]

theorem finish_not_aborted (c : Ctx) (r : Dec × Cond) : ¬ (finish c r).Aborted :=
  Out.not_aborted_of_goError (t := c.traps) rfl

theorem rootSpecials_not_aborted {c : Ctx} {x : Dec} {f : Int} {o : Out} (hs : rootSpecials c x f = some o) :
    ¬ o.Aborted := by
  unfold rootSpecials at hs
  split_ifs at hs <;> cases hs
  · exact setAsNaN_not_aborted _ _ _
  · exact fun ha => cInvalidOp_ne_empty ha.1
  · exact fun ha => ErrKind.noConfusion ha.2
  · exact fun ha => cInvalidOp_ne_empty ha.1
  · exact finish_not_aborted _ _

/-- when `Sqrt` gives up with a trapped condition of its internal iteration it has not touched the heap -/
theorem sqrtP_abort_keeps (c : Ctx) (d : Cell) (x : Src) (h : Heap) (ha : (sqrtOp c (x.val h)).Aborted) :
    (run (sqrtP c d x) h).2 = h := by
  unfold sqrtP
  rcases run_rootSpecialsP c d x 2 h with ⟨hs, hr⟩ | ⟨o, hs, hr, _⟩
  · rw [sqrtOp_eq c _ hs] at ha
    simp only [run_bind, hr, run_numDigitsP, run_snapP, run_rdExp, run_ite]
    by_cases hf : (sqrtNewton c (ndigits (x.val h).coeff) (x.val h) (ndigits (x.val h).coeff) (x.val h).exp).1.failed
        = true
    · simp only [hf, if_true, run_retErr]
    · simp only [hf, if_false, Bool.false_eq_true] at ha
      exact absurd ha (finish_not_aborted _ _)
  · have hm : sqrtOp c (x.val h) = o := by unfold sqrtOp; simp only [hs]
    rw [hm] at ha
    exact absurd ha (rootSpecials_not_aborted hs)

/-! ### contexts without traps: `Sqrt` is never aborted -/

theorem goError_no_traps (fl : Cond) : goError {} fl ≠ .trap := by
  unfold goError
  have : (fl &&& ({} : Cond)).any = false := by
    simp [HAnd.hAnd, AndOp.and, Cond.and, Cond.any]
  split
  · exact fun e => ErrKind.noConfusion e
  · simp [this]

/-- outcomes of the arithmetic core never carry a trap error under an empty trap set -/
theorem finish_ne_trap {c : Ctx} (ht : c.traps = {}) (r : Dec × Cond) : (finish c r).err ≠ .trap := by
  unfold finish; simp only [ht]; exact goError_no_traps _

theorem setAsNaN_ne_trap {c : Ctx} (ht : c.traps = {}) (x : Dec) (y : Option Dec) : (setAsNaN c x y).err ≠ .trap := by
  unfold setAsNaN
  simp only [apply_ite Out.err, ht]
  generalize (_ == Form.nanSignaling) = b
  cases b
  · exact fun e => ErrKind.noConfusion e
  · simp only [if_true]; exact goError_no_traps _

theorem invalidNaN_ne_trap {c : Ctx} (ht : c.traps = {}) : (invalidNaN c).err ≠ .trap := by
  unfold invalidNaN; simp only [ht]; exact goError_no_traps _

theorem mulOp_ne_trap {c : Ctx} (ht : c.traps = {}) (x y : Dec) : (mulOp c x y).err ≠ .trap := by
  unfold mulOp
  split_ifs
  · exact setAsNaN_ne_trap ht _ _
  · exact invalidNaN_ne_trap ht
  · exact fun e => ErrKind.noConfusion e
  · exact finish_ne_trap ht _

theorem addOp_ne_trap {c : Ctx} (ht : c.traps = {}) (x y : Dec) (s : Bool) : (addOp c x y s).err ≠ .trap := by
  unfold addOp
  simp only []
  split_ifs <;> first
    | exact setAsNaN_ne_trap ht _ _
    | exact invalidNaN_ne_trap ht
    | exact fun e => ErrKind.noConfusion e
    | (split <;> first
        | exact fun e => ErrKind.noConfusion e
        | exact finish_ne_trap ht _)

theorem failWith_ne_trap {e : ErrKind} (he : e ≠ .trap) : (failWith e).err ≠ .trap := he

theorem quoSpecials_ne_trap {c : Ctx} (ht : c.traps = {}) {x y : Dec} {b : Bool} {o : Out}
    (hs : quoSpecials c x y b = some o) : o.err ≠ .trap := by
  unfold quoSpecials at hs
  simp only [ht] at hs
  split_ifs at hs <;> cases hs <;> first
    | exact setAsNaN_ne_trap ht _ _
    | exact invalidNaN_ne_trap ht
    | exact goError_no_traps _
    | exact fun e => ErrKind.noConfusion e

theorem quoOp_ne_trap {c : Ctx} (ht : c.traps = {}) (x y : Dec) : (quoOp c x y).err ≠ .trap := by
  unfold quoOp
  split
  · next o hs => exact quoSpecials_ne_trap ht hs
  · simp only []
    split_ifs <;> exact finish_ne_trap ht _

/-- an `ErrDecimal` over a context without traps never holds (or reports) a trap error -/
def EDNoTrap (e : ED) : Prop := e.c.traps = {} ∧ e.err ≠ .trap

theorem EDNoTrap.step {e : ED} (hn : EDNoTrap e) (cur : Dec) {op : Ctx → Out}
    (hop : ∀ c, c.traps = {} → (op c).err ≠ .trap) : EDNoTrap (e.step cur op).1 := by
  unfold ED.step
  split
  · exact hn
  · exact ⟨hn.1, hop _ hn.1⟩

theorem EDNoTrap.errOf {e : ED} (hn : EDNoTrap e) : e.errOf ≠ .trap := by
  unfold ED.errOf
  split
  · exact hn.2
  · rw [hn.1]; exact goError_no_traps _

theorem EDNoTrap.withPrec {e : ED} (hn : EDNoTrap e) (p : Nat) :
    EDNoTrap { e with c := { e.c with prec := p } } := ⟨hn.1, hn.2⟩

theorem sqrtLoop_noTrap (fuel : Nat) : ∀ (e : ED) (f approx : Dec) (p maxp : Nat), EDNoTrap e →
    EDNoTrap (sqrtLoop fuel e f approx p maxp).1 := by
  induction fuel with
  | zero => intro e f approx p maxp hn; exact hn
  | succ k ih =>
    intro e f approx p maxp hn
    unfold sqrtLoop
    split
    · exact hn
    · simp only []
      apply ih
      apply EDNoTrap.step
      · apply EDNoTrap.step
        · apply EDNoTrap.step
          · exact hn.withPrec _
          · exact fun c hc => quoOp_ne_trap hc _ _
        · exact fun c hc => addOp_ne_trap hc _ _ _
      · exact fun c hc => mulOp_ne_trap hc _ _

theorem sqrtNewton_noTrap (c : Ctx) (ht : c.traps = {}) (ndw : Nat) (f0 : Dec) (nd : Nat) (xe : Int) :
    EDNoTrap (sqrtNewton c ndw f0 nd xe).1 := by
  unfold sqrtNewton
  simp only []
  apply sqrtLoop_noTrap
  apply EDNoTrap.step
  · apply EDNoTrap.step
    · exact ⟨ht, fun e => ErrKind.noConfusion e⟩
    · exact fun c hc => mulOp_ne_trap hc _ _
  · exact fun c hc => addOp_ne_trap hc _ _ _

/-- under a context without traps `Sqrt` is never aborted by a trapped condition -/
theorem sqrtOp_not_aborted_of_no_traps (c : Ctx) (ht : c.traps = {}) (x : Dec) : ¬ (sqrtOp c x).Aborted := by
  cases hs : rootSpecials c x 2 with
  | some o =>
    have hm : sqrtOp c x = o := by unfold sqrtOp; simp only [hs]
    rw [hm]; exact rootSpecials_not_aborted hs
  | none =>
    rw [sqrtOp_eq c x hs]
    split
    · intro ha
      exact (sqrtNewton_noTrap c ht _ _ _ _).errOf ((failOut_aborted_iff _).1 ha)
    · exact finish_not_aborted _ _

end Apd.Imp

namespace Apd.Props
open Apd Apd.Cond Apd.Imp Apd.Imp.Prog

/-! ## Sqrt, Cbrt -/

/-- `Context.Sqrt(d, x)` -/
theorem C05_sqrt_partial (c : Ctx) (d x : Cell) (h : Heap) :
    let r := run (sqrtP c d (.cell x)) h
    let m := sqrtOp c (h x)
    r.1.2.1 = m.err ∧
    (Delivered r.1.2.1 → r.1.1 = m.fl ∧ (¬ m.Aborted → r.2 d = m.d) ∧ r.1.2.2 = m.aux) ∧
    ∀ cell, cell ≠ d → r.2 cell = h cell :=
  (sqrtP_run c d (.cell x) h).spec

/-- `Context.Sqrt(d, x)` in the exact shape of `C05_<op>`, for outcomes that are not the placeholder of an aborted
call -/
theorem C05_sqrt (c : Ctx) (d x : Cell) (h : Heap) (hna : ¬ (sqrtOp c (h x)).Aborted) :
    let r := run (sqrtP c d (.cell x)) h
    let m := sqrtOp c (h x)
    r.1.2.1 = m.err ∧ (Delivered r.1.2.1 → r.1.1 = m.fl ∧ r.2 d = m.d ∧ r.1.2.2 = m.aux) ∧
    ∀ cell, cell ≠ d → r.2 cell = h cell := by
  obtain ⟨h1, h2, h3⟩ := C05_sqrt_partial c d x h
  exact ⟨h1, fun hd => ⟨(h2 hd).1, (h2 hd).2.1 hna, (h2 hd).2.2⟩, h3⟩

/-- `Context.Sqrt(d, x)` under a context without traps: the exact shape of `C05_<op>` -/
theorem C05_sqrt_of_no_traps (c : Ctx) (ht : c.traps = {}) (d x : Cell) (h : Heap) :
    let r := run (sqrtP c d (.cell x)) h
    let m := sqrtOp c (h x)
    r.1.2.1 = m.err ∧ (Delivered r.1.2.1 → r.1.1 = m.fl ∧ r.2 d = m.d ∧ r.1.2.2 = m.aux) ∧
    ∀ cell, cell ≠ d → r.2 cell = h cell :=
  C05_sqrt c d x h (sqrtOp_not_aborted_of_no_traps c ht (h x))

/-- an aborted `Sqrt` (a trapped condition inside the iteration) leaves every cell, the destination included,
as it was -/
theorem C05_sqrt_abort_keeps (c : Ctx) (d x : Cell) (h : Heap) (ha : (sqrtOp c (h x)).Aborted) :
    (run (sqrtP c d (.cell x)) h).2 = h :=
  sqrtP_abort_keeps c d (.cell x) h ha

/-- `Context.Cbrt(d, x)`; the model takes fuel: when it runs out (`none`) so does the program, having written
nothing -/
theorem C05_cbrt_partial (c : Ctx) (d x : Cell) (h : Heap) :
    match cbrtOp c (h x) with
    | none => run (cbrtP c d (.cell x)) h = (none, h)
    | some m =>
      ∃ res, (run (cbrtP c d (.cell x)) h).1 = some res ∧
        let h' := (run (cbrtP c d (.cell x)) h).2
        res.2.1 = m.err ∧
        (Delivered res.2.1 → res.1 = m.fl ∧ (¬ m.Aborted → h' d = m.d) ∧ res.2.2 = m.aux) ∧
        ∀ cell, cell ≠ d → h' cell = h cell := by
  have := cbrtP_run c d (.cell x) h
  unfold TOptRun at this
  simp only [Src.val_cell] at this
  cases hm : cbrtOp c (h x) with
  | none => rw [hm] at this; exact this
  | some m =>
    rw [hm] at this
    obtain ⟨r, hr, ht⟩ := this
    exact ⟨r, hr, ht.spec⟩

/-! ## Exp, Ln, Log10 (the decision tape is an argument of program and model alike) -/

/-- `Context.Exp(d, x)` -/
theorem C05_exp_partial (c : Ctx) (d x : Cell) (tape : Tape) (h : Heap) :
    TTSpec (run (expP c d (.cell x) tape) h) d h (expT c (h x) tape) :=
  (expP_run c d (.cell x) tape h).spec

/-- `Context.Ln(d, x)` -/
theorem C05_ln_partial (c : Ctx) (d x : Cell) (tape : Tape) (h : Heap) :
    TTSpec (run (lnP c d (.cell x) tape) h) d h (lnT c (h x) tape) :=
  (lnP_run c d (.cell x) tape h).spec

/-- `Context.Log10(d, x)` -/
theorem C05_log10_partial (c : Ctx) (d x : Cell) (tape : Tape) (h : Heap) :
    TTSpec (run (log10P c d (.cell x) tape) h) d h (log10T c (h x) tape) :=
  (log10P_run c d (.cell x) tape h).spec

/-! ## Pow -/

/-- `Context.Pow(d, x, y)`: against `powT`, for every aliasing of `d`, `x`, `y`, in the exact shape of `C05_<op>`
(the destination is compared whenever the outcome is delivered; no `Aborted` exclusion) -/
theorem C05_pow (c : Ctx) (d x y : Cell) (tape : Tape) (h : Heap) :
    STSpec (run (powP c d (.cell x) (.cell y) tape) h) d h (powT c (h x) (h y) tape) :=
  (powP_run c d (.cell x) (.cell y) tape h).spec

/-! ### a failed fractional `Pow` leaves NaN for both aliasings

The instance on which, before the repair, `d` ended up holding the integer power (`d ≠ x`) or `x` itself (`d = x`): a
trapped Overflow in the `Exp` of the fractional part (small numbers, and a tape chosen to make `Exp` report the
overflow, so that the kernel can evaluate it). -/

def cexPowTape : Tape :=
  [.est { neg := true, coeff := 2302585, exp := -6 }, .cp 13, .n 16, .cp 13, .n 16, .cp 1]
def cexPowX : Dec := { coeff := 1, exp := 40 }
def cexPowY : Dec := { coeff := 9, exp := -1 }
def cexPowHeap : Heap := fun c => if c = 1 then cexPowX else if c = 2 then cexPowY else {}

set_option maxRecDepth 1000000 in
set_option exponentiation.threshold 100000 in
/-- `Pow(d, x, y)` with `d ≠ x` (cell 0) and with `d = x` (cell 1): same flags, same trapped error, NaN in `d`; and so
says `powT` -/
example :
    ((run (powP { prec := 1 } 0 (.cell 1) (.cell 2) cexPowTape) cexPowHeap).1.map (fun r => (r.1.1.toNat, r.1.2.1)) =
        some (84, .trap) ∧
     (run (powP { prec := 1 } 0 (.cell 1) (.cell 2) cexPowTape) cexPowHeap).2 0 = decNaN) ∧
    ((run (powP { prec := 1 } 1 (.cell 1) (.cell 2) cexPowTape) cexPowHeap).1.map (fun r => (r.1.1.toNat, r.1.2.1)) =
        some (84, .trap) ∧
     (run (powP { prec := 1 } 1 (.cell 1) (.cell 2) cexPowTape) cexPowHeap).2 1 = decNaN) ∧
    (powT { prec := 1 } cexPowX cexPowY cexPowTape).map (fun r => (r.1.d, r.1.fl.toNat, r.1.err)) =
      some (decNaN, 84, .trap) := by decide

/-! ### the unconditional statement is false for an aborted call

`c = {Precision 5, Traps = Inexact}`, `d` holds `7`, `x` holds `2`: the first inexact division of the iteration traps,
`Sqrt` returns `(0, "inexact")` and `d` still holds `7` (checked against the Go code: `Sqrt(d, 2)` prints
`d=7 res=0 err=inexact`), whereas the model's outcome on a fresh destination is `failOut .trap` with `d = 0`. -/

def cexSqrtCtx : Ctx := { prec := 5, traps := { inexact := true } }
def cexSqrtHeap : Heap := fun c => if c = 0 then { coeff := 7 } else if c = 1 then { coeff := 2 } else {}

set_option maxRecDepth 100000 in
/-- the statement in the exact shape of `C05_<op>` (destination compared whenever the outcome is delivered) does
not hold for `Sqrt` -/
theorem C05_sqrt_unconditional_false :
    ¬ ∀ (c : Ctx) (d x : Cell) (h : Heap),
      let r := run (sqrtP c d (.cell x)) h
      let m := sqrtOp c (h x)
      r.1.2.1 = m.err ∧ (Delivered r.1.2.1 → r.1.1 = m.fl ∧ r.2 d = m.d ∧ r.1.2.2 = m.aux) ∧
      ∀ cell, cell ≠ d → r.2 cell = h cell := by
  intro hall
  obtain ⟨_, h2, _⟩ := hall cexSqrtCtx 0 1 cexSqrtHeap
  have e1 : (run (sqrtP cexSqrtCtx 0 (.cell 1)) cexSqrtHeap).1 = ({}, .trap, 0) := by decide
  have e2 : (run (sqrtP cexSqrtCtx 0 (.cell 1)) cexSqrtHeap).2 0 = { coeff := 7 } := by decide
  have e3 : sqrtOp cexSqrtCtx (cexSqrtHeap 1) = failOut .trap := by decide
  have := (h2 (by rw [e1]; exact Or.inr rfl)).2.1
  rw [e2, e3] at this
  exact absurd this (by decide)

/-! ### the table of composite operations -/

/-- the value-level model by op name (the tables of `runCtxOp` / `runCtxOpT` in `Model/Dispatch.lean`) -/
def modelTransOp (op : String) (c : Ctx) (x y : Dec) (tape : Tape) : Option (Option (Out × Tape)) :=
  if op = "sqrt" then some (some (sqrtOp c x, tape))
  else if op = "cbrt" then some ((cbrtOp c x).map (fun o => (o, tape)))
  else if op = "exp" then some (expT c x tape)
  else if op = "ln" then some (lnT c x tape)
  else if op = "log10" then some (log10T c x tape)
  else if op = "pow" then some (powT c x y tape)
  else none

/-- C05 for the whole table: every program of `Imp.runTransOp` meets the contract against the model of the same
name -/
theorem C05_transOp {op : String} {c : Ctx} {d x y : Cell} {tape : Tape} {p : Prog (Option (Res × Tape))}
    (hp : runTransOp op c d x y tape = some p) (h : Heap) :
    ∃ m, modelTransOp op c (h x) (h y) tape = some m ∧ TTSpec (run p h) d h m := by
  unfold runTransOp at hp
  unfold modelTransOp
  by_cases h0 : op = "sqrt"
  · rw [if_pos h0] at hp ⊢; cases hp
    refine ⟨_, rfl, ?_⟩
    have := sqrtP_run c d (.cell x) h
    simp only [run_bind, run_pure]
    exact (TTRes.mk this).spec
  rw [if_neg h0] at hp ⊢
  by_cases h1 : op = "cbrt"
  · rw [if_pos h1] at hp ⊢; cases hp
    refine ⟨_, rfl, ?_⟩
    have := cbrtP_run c d (.cell x) h
    unfold TOptRun at this
    simp only [Src.val_cell] at this
    simp only [run_bind, run_pure]
    cases hm : cbrtOp c (h x) with
    | none =>
      rw [hm] at this
      rw [this]
      exact (TTRes.reject d h).spec
    | some m =>
      rw [hm] at this
      obtain ⟨r, hr, ht⟩ := this
      rw [hr]
      exact (TTRes.mk ht).spec
  rw [if_neg h1] at hp ⊢
  by_cases h2 : op = "exp"
  · rw [if_pos h2] at hp ⊢; cases hp; exact ⟨_, rfl, C05_exp_partial c d x tape h⟩
  rw [if_neg h2] at hp ⊢
  by_cases h3 : op = "ln"
  · rw [if_pos h3] at hp ⊢; cases hp; exact ⟨_, rfl, C05_ln_partial c d x tape h⟩
  rw [if_neg h3] at hp ⊢
  by_cases h4 : op = "log10"
  · rw [if_pos h4] at hp ⊢; cases hp; exact ⟨_, rfl, C05_log10_partial c d x tape h⟩
  rw [if_neg h4] at hp ⊢
  by_cases h5 : op = "pow"
  · rw [if_pos h5] at hp ⊢; cases hp; exact ⟨_, rfl, (C05_pow c d x y tape h).toT⟩
  rw [if_neg h5] at hp
  cases hp

end Apd.Props

#print axioms Apd.Props.C05_sqrt_partial
#print axioms Apd.Props.C05_sqrt
#print axioms Apd.Props.C05_sqrt_of_no_traps
#print axioms Apd.Props.C05_sqrt_abort_keeps
#print axioms Apd.Props.C05_sqrt_unconditional_false
#print axioms Apd.Props.C05_cbrt_partial
#print axioms Apd.Props.C05_exp_partial
#print axioms Apd.Props.C05_ln_partial
#print axioms Apd.Props.C05_log10_partial
#print axioms Apd.Props.C05_pow
#print axioms Apd.Props.C05_transOp
