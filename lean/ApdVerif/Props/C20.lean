import ApdVerif.Spec.Agrees
/-!
# C20 — rounding modes bracket each other; mirror; commutativity; Sub = Add of the negation

Statements about the specification's rounding (`specRound`), to which C01 ties every exactly
rounded operation, plus algebraic laws of the model itself.
-/
namespace Apd.Props
open Apd Apd.Oracle

/-- the specification's result for exact value `ex` in context `c` under mode `m` -/
def S (c : Ctx) (ex : Exact) (m : Mode) : SpecOut := specRound { c with mode := m } ex

/-- magnitude order on results of the same context/exact value (they share the quantum `q`) -/
def magLe (a b : SpecOut) : Prop := b.inf = true ∨ (a.inf = false ∧ a.m ≤ b.m)

/-- every mode returns the RoundDown result or the RoundUp result -/
theorem C20_down_or_up (c : Ctx) (ex : Exact) (m : Mode) :
    S c ex m = S c ex .down ∨ S c ex m = S c ex .up := by
  sorry

/-- |RoundDown| ≤ |every mode| ≤ |RoundUp| -/
theorem C20_mag_bracket (c : Ctx) (ex : Exact) (m : Mode) :
    magLe (S c ex .down) (S c ex m) ∧ magLe (S c ex m) (S c ex .up) := by
  sorry

/-- RoundFloor/RoundCeiling are RoundDown/RoundUp according to the sign: hence
RoundFloor ≤ every mode ≤ RoundCeiling in the signed order -/
theorem C20_floor_ceiling (c : Ctx) (ex : Exact) :
    (ex.neg = false → S c ex .floor = S c ex .down ∧ S c ex .ceiling = S c ex .up) ∧
    (ex.neg = true → S c ex .floor = S c ex .up ∧ S c ex .ceiling = S c ex .down) := by
  sorry

/-- Inexact does not depend on the mode, and all modes coincide when it is not raised -/
theorem C20_exact_coincide (c : Ctx) (ex : Exact) (m m' : Mode)
    (h : (S c ex m).inexact = false) : S c ex m' = S c ex m := by
  sorry

/-- when Inexact is raised, RoundDown and RoundUp are adjacent representable values:
one unit of the common quantum apart, or RoundUp overflows and RoundDown is the largest finite number -/
theorem C20_adjacent (c : Ctx) (hc : c.WF) (ex : Exact) (hn : ex.num ≠ 0) (hd : ex.den ≠ 0)
    (h : (S c ex .down).inexact = true) (hdn : (S c ex .down).inf = false) :
    ((S c ex .up).inf = false ∧ (S c ex .up).q = (S c ex .down).q ∧ (S c ex .up).m = (S c ex .down).m + 1) ∨
    ((S c ex .up).inf = true ∧ (S c ex .down).m + 1 = 10 ^ c.prec ∧
       (S c ex .down).q = c.emax - (c.prec : Int) + 1) := by
  sorry

/-- mirrored mode -/
def mirror : Mode → Mode
  | .floor => .ceiling | .ceiling => .floor | m => m

/-- negating the exact value mirrors the result under the mirrored mode -/
theorem C20_mirror (c : Ctx) (ex : Exact) (m : Mode) :
    S c { ex with neg := !ex.neg } (mirror m) = { S c ex m with neg := !(S c ex m).neg } := by
  sorry

/-- Add commutes on finite operands (identical outcome, representation included) -/
theorem C20_add_comm (c : Ctx) (x y : Dec) (hx : x.form = .finite) (hy : y.form = .finite) :
    addOp c x y false = addOp c y x false := by
  sorry

/-- Mul commutes on finite operands -/
theorem C20_mul_comm (c : Ctx) (x y : Dec) (hx : x.form = .finite) (hy : y.form = .finite) :
    mulOp c x y = mulOp c y x := by
  sorry

/-- Sub(x, y) = Add(x, -y) for every y that is not NaN -/
theorem C20_sub_eq_add_neg (c : Ctx) (x y : Dec) :
    addOp c x y true = addOp c x { y with neg := !y.neg } false := by
  sorry

/-- Round is monotone on finite decimals of the same sign bit: a smaller magnitude never rounds
to a larger magnitude (same context, same mode). -/
theorem C20_round_monotone (c : Ctx) (hc : c.WF) (neg : Bool) (n1 n2 : Nat) (e : Int) (h : n1 ≤ n2) :
    let s1 := specRound c { neg := neg, num := n1, den := 1, e10 := e }
    let s2 := specRound c { neg := neg, num := n2, den := 1, e10 := e }
    s2.inf = true ∨ (s1.inf = false ∧
      (if s1.q ≤ s2.q then s1.m ≤ s2.m * 10 ^ (s2.q - s1.q).toNat
       else s1.m * 10 ^ (s1.q - s2.q).toNat ≤ s2.m)) := by
  sorry

end Apd.Props
