import ApdVerif.Spec.Agrees
import ApdVerif.Lemmas.C20Lemmas
/-!
# C20 — rounding modes bracket each other; mirror; commutativity; Sub = Add of the negation

Statements about the specification's rounding (`specRound`), to which C01 ties every exactly
rounded operation, plus algebraic laws of the model itself.

Two of the given statements are false as stated (`C20_mul_comm`, `C20_sub_eq_add_neg`); they are kept
in comments together with machine-checked counterexamples, and the strongest true variants are proved
as `C20_mul_comm_partial` (+ `C20_mul_comm_d_err`) and `C20_sub_eq_add_neg_partial`.
-/
namespace Apd.Props
open Apd Apd.Oracle Apd.C20L

/-- the specification's result for exact value `ex` in context `c` under mode `m` -/
def S (c : Ctx) (ex : Exact) (m : Mode) : SpecOut := specRound { c with mode := m } ex

/-- magnitude order on results of the same context/exact value (they share the quantum `q`) -/
def magLe (a b : SpecOut) : Prop := b.inf = true ∨ (a.inf = false ∧ a.m ≤ b.m)

theorem S_eq (c : Ctx) (ex : Exact) (m : Mode) :
    S c ex m = if ex.num == 0 then { neg := ex.neg, m := 0, q := ex.e10 }
      else specCore c ex (roundAt m ex.neg ex.num ex.den ex.e10 (specQ c ex)) := rfl

/-- every mode returns the RoundDown result or the RoundUp result -/
theorem C20_down_or_up (c : Ctx) (ex : Exact) (m : Mode) :
    S c ex m = S c ex .down ∨ S c ex m = S c ex .up := by
  simp only [S_eq]
  split
  · left; rfl
  · rcases roundAt_down_or_up m ex.neg ex.num ex.den ex.e10 (specQ c ex) with h | h
    · left; rw [h]
    · right; rw [h]

theorem magLe_refl (a : SpecOut) : magLe a a := by
  unfold magLe; cases h : a.inf <;> simp

theorem magLe_down_up (c : Ctx) (ex : Exact) : magLe (S c ex .down) (S c ex .up) := by
  simp only [S_eq]
  split
  · exact magLe_refl _
  · by_cases h : rN ex.num ex.e10 (specQ c ex) % rD ex.den ex.e10 (specQ c ex) = 0
    · rw [roundAt_exact _ _ _ _ _ _ h, roundAt_exact _ _ _ _ _ _ h]; exact magLe_refl _
    · rw [roundAt_down _ _ _ _ _ h, roundAt_up _ _ _ _ _ h]
      generalize rN ex.num ex.e10 (specQ c ex) / rD ex.den ex.e10 (specQ c ex) = n
      unfold magLe specCore
      by_cases hn : n = 0
      · subst hn; simp
      · have hmono : ndigits n ≤ ndigits (n + 1) := ndigits_mono (by omega) (by omega)
        by_cases h2 : specQ c ex + (ndigits (n + 1) : Int) - 1 > c.emax
        · simp [h2]
        · have h1 : ¬ specQ c ex + (ndigits n : Int) - 1 > c.emax := by omega
          simp [h1, h2]

/-- |RoundDown| ≤ |every mode| ≤ |RoundUp| -/
theorem C20_mag_bracket (c : Ctx) (ex : Exact) (m : Mode) :
    magLe (S c ex .down) (S c ex m) ∧ magLe (S c ex m) (S c ex .up) := by
  rcases C20_down_or_up c ex m with h | h <;> rw [h]
  · exact ⟨magLe_refl _, magLe_down_up c ex⟩
  · exact ⟨magLe_down_up c ex, magLe_refl _⟩

theorem roundAt_floor_ceiling (neg : Bool) (num den : Nat) (e10 q : Int) :
    roundAt .floor neg num den e10 q = roundAt (if neg then .up else .down) neg num den e10 q ∧
    roundAt .ceiling neg num den e10 q = roundAt (if neg then .down else .up) neg num den e10 q := by
  simp only [roundAt_eq]
  cases neg <;> simp [specAddOne]

/-- RoundFloor/RoundCeiling are RoundDown/RoundUp according to the sign: hence
RoundFloor ≤ every mode ≤ RoundCeiling in the signed order -/
theorem C20_floor_ceiling (c : Ctx) (ex : Exact) :
    (ex.neg = false → S c ex .floor = S c ex .down ∧ S c ex .ceiling = S c ex .up) ∧
    (ex.neg = true → S c ex .floor = S c ex .up ∧ S c ex .ceiling = S c ex .down) := by
  have h := roundAt_floor_ceiling ex.neg ex.num ex.den ex.e10 (specQ c ex)
  simp only [S_eq]
  constructor <;> intro hn <;> rw [hn] at h <;> simp only [if_true, if_false, Bool.false_eq_true] at h <;>
    rw [hn, h.1, h.2] <;> exact ⟨rfl, rfl⟩

theorem specCore_inexact_false (c : Ctx) (ex : Exact) (r : Nat × Bool)
    (h : (specCore c ex r).inexact = false) : r.2 = false := by
  unfold specCore at h
  split at h
  · simp at h
  · simpa using h

/-- Inexact does not depend on the mode, and all modes coincide when it is not raised -/
theorem C20_exact_coincide (c : Ctx) (ex : Exact) (m m' : Mode)
    (h : (S c ex m).inexact = false) : S c ex m' = S c ex m := by
  simp only [S_eq] at h ⊢
  split
  · rfl
  · rename_i hz
    simp only [hz, if_false, Bool.false_eq_true] at h
    have h2 := specCore_inexact_false _ _ _ h
    rw [roundAt_inexact] at h2
    simp only [Bool.not_eq_false', beq_iff_eq] at h2
    rw [roundAt_exact _ _ _ _ _ _ h2, roundAt_exact _ _ _ _ _ _ h2]

/-- when Inexact is raised, RoundDown and RoundUp are adjacent representable values:
one unit of the common quantum apart, or RoundUp overflows and RoundDown is the largest finite number -/
theorem C20_adjacent (c : Ctx) (hc : c.WF) (ex : Exact) (hn : ex.num ≠ 0) (hd : ex.den ≠ 0)
    (h : (S c ex .down).inexact = true) (hdn : (S c ex .down).inf = false) :
    ((S c ex .up).inf = false ∧ (S c ex .up).q = (S c ex .down).q ∧ (S c ex .up).m = (S c ex .down).m + 1) ∨
    ((S c ex .up).inf = true ∧ (S c ex .down).m + 1 = 10 ^ c.prec ∧
       (S c ex .down).q = c.emax - (c.prec : Int) + 1) := by
  obtain ⟨hp1, hpe, hemax, hemin, hemin0⟩ := hc
  have hz : (ex.num == 0) = false := by simpa using hn
  simp only [S_eq, hz, Bool.false_eq_true, if_false] at h hdn ⊢
  have hdn' : ¬ (specCore c ex (roundAt .down ex.neg ex.num ex.den ex.e10 (specQ c ex))).inf = true := by
    simp [hdn]
  rw [specCore_inf] at hdn'
  obtain ⟨-, dm, dq, di⟩ := specCore_fin _ _ _ hdn'
  rw [di, roundAt_inexact] at h
  have hr : rN ex.num ex.e10 (specQ c ex) % rD ex.den ex.e10 (specQ c ex) ≠ 0 := by simpa using h
  rw [dm, dq]
  rw [roundAt_down _ _ _ _ _ hr] at hdn' ⊢
  rw [roundAt_up _ _ _ _ _ hr]
  simp only [] at hdn' ⊢
  -- facts about the truncated quotient
  have hlt : rN ex.num ex.e10 (specQ c ex) / rD ex.den ex.e10 (specQ c ex) < 10 ^ c.prec :=
    floor_lt _ _ _ _ _ hn hd (by unfold specQ; omega)
  have hge : specQ c ex = adjRat ex.num ex.den + ex.e10 - (c.prec : Int) + 1 →
      10 ^ (c.prec - 1) ≤ rN ex.num ex.e10 (specQ c ex) / rD ex.den ex.e10 (specQ c ex) := by
    intro hq
    exact floor_ge _ _ _ _ _ hn hd (by omega)
  have hQ : specQ c ex = adjRat ex.num ex.den + ex.e10 - (c.prec : Int) + 1 ∨
      specQ c ex = c.emin - (c.prec : Int) + 1 := by unfold specQ; omega
  generalize rN ex.num ex.e10 (specQ c ex) / rD ex.den ex.e10 (specQ c ex) = n at *
  have h10 : 1 ≤ 10 ^ (c.prec - 1) := Nat.pow_pos (by decide)
  by_cases hup : (n + 1 ≠ 0 ∧ specQ c ex + (ndigits (n + 1) : Int) - 1 > c.emax)
  · right
    refine ⟨(specCore_inf _ _ _).2 hup, ?_⟩
    obtain ⟨-, hup⟩ := hup
    by_cases hn0 : n = 0
    · exfalso
      subst hn0
      have : ndigits (0 + 1) = 1 := by decide
      rw [this] at hup
      rcases hQ with hQ | hQ
      · have := hge hQ; omega
      · omega
    · have hnd : ¬ specQ c ex + (ndigits n : Int) - 1 > c.emax := fun hh => hdn' ⟨hn0, hh⟩
      have hcar := carry n (by omega) (by omega)
      have hnd1 : ndigits (n + 1) = ndigits n + 1 := by rw [hcar, ndigits_pow]
      have hle : ndigits n ≤ c.prec := (ndigits_le_iff n c.prec (by omega) hp1).2 hlt
      have hndp : ndigits n = c.prec := by
        by_contra hne
        have hlt2 : ndigits n ≤ c.prec - 1 := by omega
        have hp2 : 1 ≤ c.prec - 1 := by have := ndigits_pos n; omega
        have := (ndigits_le_iff n (c.prec - 1) (by omega) hp2).1 hlt2
        rcases hQ with hQ | hQ
        · have := hge hQ; omega
        · omega
      rw [hcar, hndp]
      exact ⟨rfl, by omega⟩
  · left
    obtain ⟨a, b, c', -⟩ := specCore_fin c ex (n + 1, true) hup
    exact ⟨a, c', b⟩

/-- mirrored mode -/
def mirror : Mode → Mode
  | .floor => .ceiling | .ceiling => .floor | m => m

theorem roundAt_mirror (m : Mode) (neg : Bool) (num den : Nat) (e10 q : Int) :
    roundAt (mirror m) (!neg) num den e10 q = roundAt m neg num den e10 q := by
  simp only [roundAt_eq]
  rw [specAddOne_mirror m _ neg _ (mirror m) (by cases m <;> rfl)]

/-- negating the exact value mirrors the result under the mirrored mode -/
theorem C20_mirror (c : Ctx) (ex : Exact) (m : Mode) :
    S c { ex with neg := !ex.neg } (mirror m) = { S c ex m with neg := !(S c ex m).neg } := by
  simp only [S_eq]
  split
  · rfl
  · rw [roundAt_mirror]
    show specCore c { ex with neg := !ex.neg } _ = _
    unfold specCore specQ
    simp only []
    split <;> rfl

/-- Add commutes on finite operands (identical outcome, representation included) -/
theorem C20_add_comm (c : Ctx) (x y : Dec) (hx : x.form = .finite) (hy : y.form = .finite) :
    addOp c x y false = addOp c y x false := by
  unfold addOp
  simp only [shouldSetAsNaN, isNaN_of_finite x hx, isNaN_of_finite y hy, hx, hy, Bool.or_self,
    Bool.false_eq_true, if_false, Bool.bne_false]
  rw [upscale_swap x y]
  cases h : upscale x y with
  | none => rfl
  | some t =>
    obtain ⟨a, b, s⟩ := t
    simp only [Option.map_some]
    apply congrArg (fun d => finish c (ctxRound c d))
    rcases Nat.lt_trichotomy a b with hab | hab | hab
    · have h1 : ¬ b < a := by omega
      have h2 : ¬ b = a := by omega
      cases hxn : x.neg <;> cases hyn : y.neg <;> simp [hab, h1, h2, Nat.add_comm]
    · subst hab
      cases hxn : x.neg <;> cases hyn : y.neg <;> simp
    · have h1 : ¬ a < b := by omega
      have h3 : ¬ a = b := by omega
      cases hxn : x.neg <;> cases hyn : y.neg <;> simp [hab, h1, h3, Nat.add_comm]

/-
ORIGINAL STATEMENT (FALSE):

/-- Mul commutes on finite operands -/
theorem C20_mul_comm (c : Ctx) (x y : Dec) (hx : x.form = .finite) (hy : y.form = .finite) :
    mulOp c x y = mulOp c y x

Counterexample: `setExponent` reports the FIRST out-of-range summand, so with one exponent above
MaxExponent and the other below MinExponent the two orders raise different system flags
(SystemUnderflow|Underflow versus SystemOverflow|Overflow).  Both outcomes are `sys` errors with the
same destination; only the flag words differ.
-/
example :
    mulOp { prec := 5, emax := 10, emin := -10 } { exp := -200000, coeff := 1 } { exp := 200000, coeff := 1 } ≠
    mulOp { prec := 5, emax := 10, emin := -10 } { exp := 200000, coeff := 1 } { exp := -200000, coeff := 1 } := by
  decide

/-- C20_mul_comm as stated is FALSE (see the counterexample in Props/C20.lean): `setExponent` reports
the FIRST out-of-range summand, so with one exponent above MaxExponent and the other below
MinExponent the two orders raise different system flags.  Excluding exactly that situation: -/
theorem C20_mul_comm_partial (c : Ctx) (x y : Dec) (hx : x.form = .finite) (hy : y.form = .finite)
    (h : ¬ (x.exp > MaxExponent ∧ y.exp < MinExponent) ∧ ¬ (y.exp > MaxExponent ∧ x.exp < MinExponent)) :
    mulOp c x y = mulOp c y x := by
  unfold mulOp
  simp only [shouldSetAsNaN, isNaN_of_finite x hx, isNaN_of_finite y hy, hx, hy, Bool.or_self,
    Bool.false_eq_true, if_false]
  rw [setExponent2_comm c _ _ x.exp y.exp (checkXs2_comm _ _ h), Nat.mul_comm x.coeff y.coeff,
    bne_comm (a := x.neg)]
  rfl

/-- without any side condition, only the flags can differ (and then both outcomes are `sys` errors) -/
theorem C20_mul_comm_d_err (c : Ctx) (x y : Dec) (hx : x.form = .finite) (hy : y.form = .finite) :
    (mulOp c x y).d = (mulOp c y x).d ∧ (mulOp c x y).err = (mulOp c y x).err ∧
    (mulOp c x y).aux = (mulOp c y x).aux := by
  unfold mulOp
  simp only [shouldSetAsNaN, isNaN_of_finite x hx, isNaN_of_finite y hy, hx, hy, Bool.or_self,
    Bool.false_eq_true, if_false]
  rw [Nat.mul_comm x.coeff y.coeff, bne_comm (a := x.neg)]
  have hfi : (Form.finite == Form.infinite) = false := rfl
  simp only [hfi, Bool.false_eq_true, if_false]
  rcases setExponent2_swap c { form := .finite, neg := y.neg != x.neg, exp := 0, coeff := y.coeff * x.coeff }
      {} x.exp y.exp with h | ⟨h1, h2, h3, h4⟩
  · rw [h]; exact ⟨rfl, rfl, rfl⟩
  · simp only [finish]
    rw [h1, h2, goError_sys _ _ _ h3, goError_sys _ _ _ h4]
    exact ⟨rfl, rfl, trivial⟩

/-
ORIGINAL STATEMENT (FALSE; its own doc comment restricts it to "every y that is not NaN", but the
hypothesis is missing):

/-- Sub(x, y) = Add(x, -y) for every y that is not NaN -/
theorem C20_sub_eq_add_neg (c : Ctx) (x y : Dec) :
    addOp c x y true = addOp c x { y with neg := !y.neg } false

Counterexample: x = 1, y = NaN: the NaN operand is propagated with its own sign bit.
-/
example :
    addOp { prec := 5, emax := 10, emin := -10 } { coeff := 1 } { form := .nan } true ≠
    addOp { prec := 5, emax := 10, emin := -10 } { coeff := 1 }
      { ({ form := .nan } : Dec) with neg := !({ form := .nan } : Dec).neg } false := by
  decide

/-- Sub(x, y) = Add(x, -y) for every y that is not NaN — and also whenever `y` is not the operand
that `setAsNaN` propagates (x signalling, or both quiet NaNs).  In the remaining NaN cases the
statement fails (the propagated NaN carries `y`'s sign bit). -/
theorem C20_sub_eq_add_neg_partial (c : Ctx) (x y : Dec)
    (h : y.isNaN = false ∨ x.form = .nanSignaling ∨ (x.form = .nan ∧ y.form = .nan)) :
    addOp c x y true = addOp c x { y with neg := !y.neg } false := by
  unfold addOp
  have e1 : shouldSetAsNaN x (some { y with neg := !y.neg }) = shouldSetAsNaN x (some y) := rfl
  have e2 : upscale x { y with neg := !y.neg } = upscale x y := rfl
  rw [e1, e2]
  by_cases hn : shouldSetAsNaN x (some y) = true
  · simp only [hn, if_true]
    unfold setAsNaN
    rcases h with h | h | ⟨h, h'⟩
    · simp only [Dec.isNaN, Bool.or_eq_false_iff, beq_eq_false_iff_ne, ne_eq] at h
      have hx : x.isNaN = true := by simpa [shouldSetAsNaN, Dec.isNaN, h] using hn
      simp only [Dec.isNaN, Bool.or_eq_true, beq_iff_eq] at hx
      rcases hx with hx | hx <;> simp [hx, h]
    · simp [h]
    · simp [h, h']
  · simp only [hn, Bool.false_eq_true, if_false]
    simp only [Bool.bne_true, Bool.bne_false]

/-- the variant announced by the original doc comment -/
theorem C20_sub_eq_add_neg_notNaN (c : Ctx) (x y : Dec) (hy : y.isNaN = false) :
    addOp c x y true = addOp c x { y with neg := !y.neg } false :=
  C20_sub_eq_add_neg_partial c x y (Or.inl hy)

/-- Round is monotone on finite decimals of the same sign bit: a smaller magnitude never rounds
to a larger magnitude (same context, same mode). -/
theorem C20_round_monotone (c : Ctx) (hc : c.WF) (neg : Bool) (n1 n2 : Nat) (e : Int) (h : n1 ≤ n2) :
    let s1 := specRound c { neg := neg, num := n1, den := 1, e10 := e }
    let s2 := specRound c { neg := neg, num := n2, den := 1, e10 := e }
    s2.inf = true ∨ (s1.inf = false ∧
      (if s1.q ≤ s2.q then s1.m ≤ s2.m * 10 ^ (s2.q - s1.q).toNat
       else s1.m * 10 ^ (s1.q - s2.q).toNat ≤ s2.m)) := by
  intro s1 s2
  by_cases hinf : s2.inf = true
  · left; exact hinf
  right
  rw [cmp_iff]
  have e1 : s1 = specRound c { neg := neg, num := n1, den := 1, e10 := e } := rfl
  have e2 : s2 = specRound c { neg := neg, num := n2, den := 1, e10 := e } := rfl
  rw [specRound_eq] at e1 e2
  simp only [] at e1 e2
  by_cases hn1 : n1 = 0
  · have hz : (n1 == 0) = true := by simpa using hn1
    rw [if_pos hz] at e1
    rw [e1]
    refine ⟨rfl, ?_⟩
    simp only [Nat.cast_zero, zero_mul]
    exact mul_nonneg (Nat.cast_nonneg _) (tp _).le
  · have hn2 : n2 ≠ 0 := by omega
    have hz1 : ¬ (n1 == 0) = true := by simpa using hn1
    have hz2 : ¬ (n2 == 0) = true := by simpa using hn2
    rw [if_neg hz1] at e1
    rw [if_neg hz2] at e2
    have hm := round_mono_val c hc neg n1 n2 e h hn1
    rw [e2, specCore_inf, inf_iff] at hinf
    have hfin2 := specCore_fin c { neg := neg, num := n2, den := 1, e10 := e } _
      (by rw [inf_iff]; exact hinf)
    have hinf1 : ¬ (10 : ℚ) ^ (c.emax + 1) ≤ _ := fun hh => hinf (le_trans hh hm)
    have hfin1 := specCore_fin c { neg := neg, num := n1, den := 1, e10 := e } _
      (by rw [inf_iff]; exact hinf1)
    rw [← e1] at hfin1
    rw [← e2] at hfin2
    obtain ⟨i1, m1, q1, -⟩ := hfin1
    obtain ⟨i2, m2, q2, -⟩ := hfin2
    rw [m1, m2, q1, q2]
    exact ⟨i1, hm⟩

end Apd.Props

#print axioms Apd.Props.C20_down_or_up
#print axioms Apd.Props.C20_mag_bracket
#print axioms Apd.Props.C20_floor_ceiling
#print axioms Apd.Props.C20_exact_coincide
#print axioms Apd.Props.C20_adjacent
#print axioms Apd.Props.C20_mirror
#print axioms Apd.Props.C20_add_comm
#print axioms Apd.Props.C20_mul_comm_partial
#print axioms Apd.Props.C20_mul_comm_d_err
#print axioms Apd.Props.C20_sub_eq_add_neg_partial
#print axioms Apd.Props.C20_sub_eq_add_neg_notNaN
#print axioms Apd.Props.C20_round_monotone
