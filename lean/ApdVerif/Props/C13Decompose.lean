import ApdVerif.Lemmas.C13DecomposeLemmas
/-!
# C13 — `Compose(Decompose(d))` reproduces `d` (signaling NaN becoming quiet)

Model: `ApdVerif/Model/Decompose.lean` (`/repo/decomposer.go`).  Core Lean only.
-/
namespace Apd.Props
open Apd Apd.Decomp

/-! ## bit length and bytes -/

theorem C13_bitLen_zero : bitLen 0 = 0 := rfl

theorem C13_bitLen (n : Nat) (h : 0 < n) : 2 ^ (bitLen n - 1) ≤ n ∧ n < 2 ^ bitLen n := by
  have hn : n ≠ 0 := by omega
  unfold bitLen
  rw [if_neg hn]
  refine ⟨?_, Nat.lt_log2_self⟩
  have : Nat.log2 n + 1 - 1 = Nat.log2 n := by omega
  rw [this]
  exact Nat.log2_self_le hn

theorem C13_bytes_roundtrip (n : Nat) : bytesNat (natBytes n) = n := by
  unfold natBytes
  rw [bytesNat_natBytesAux n n [] (Nat.le_refl n)]
  simp [bytesNat]

theorem C13_bytes_minimal (n : Nat) :
    (natBytes n).length = (bitLen n + 7) / 8 ∧ (natBytes n).head? ≠ some 0 := by
  constructor
  · unfold natBytes; rw [length_natBytesAux n n [] (Nat.le_refl n)]; simp
  · by_cases hn : n = 0
    · subst hn; simp [natBytes, natBytesAux]
    · exact head_natBytesAux n n [] (Nat.le_refl n) hn

theorem C13_bytesNat_leading_zeros (k : Nat) (l : List UInt8) :
    bytesNat (List.replicate k 0 ++ l) = bytesNat l := by
  induction k with
  | zero => simp
  | succ k ih =>
    rw [List.replicate_succ, List.cons_append, bytesNat_cons, ih]
    simp

/-! ## `FillBytes` into a buffer of the exact size is `Bytes` (the two branches of `Decompose` agree) -/

/-- `FillBytes` is `Bytes` zero-extended on the left -/
theorem C13_fillBytes (len n : Nat) (h : (bitLen n + 7) / 8 ≤ len) :
    fillBytes len n = some (List.replicate (len - (bitLen n + 7) / 8) 0 ++ natBytes n) := by
  unfold fillBytes natBytes
  rw [if_pos h, fillBytesAux_eq len n n [] (Nat.le_refl n) h]

theorem C13_fillBytes_exact (n : Nat) : fillBytes ((bitLen n + 7) / 8) n = some (natBytes n) := by
  rw [C13_fillBytes _ _ (Nat.le_refl _)]; simp

/-- whatever buffer is passed, `Decompose` does not panic and returns the same parts -/
theorem C13_decomposeBuf (d : Dec) (bufCap : Nat) : decomposeBuf d bufCap = some (decompose d) := by
  unfold decomposeBuf decompose
  cases hf : d.form <;> simp only []
  have e : (bitLen d.coeff + 8 - 1) / 8 = (bitLen d.coeff + 7) / 8 := by omega
  rw [e, C13_fillBytes_exact]
  split <;> rfl

/-! ## the round trip -/

theorem C13_compose_decompose (dst d : Dec) :
    ∃ r, compose dst (decompose d) = some r ∧ r.neg = d.neg ∧
         r.form = (if d.form = .nanSignaling then .nan else d.form) ∧
         (d.form = .finite → r.coeff = d.coeff ∧ r.exp = d.exp) ∧
         (d.form ≠ .finite → r.coeff = dst.coeff ∧ r.exp = dst.exp) := by
  unfold decompose
  cases hf : d.form <;> simp [compose, C13_bytes_roundtrip]

/-- a fresh destination reproduces a finite `d` field for field -/
theorem C13_compose_fresh (d : Dec) (hf : d.form = .finite) : compose {} (decompose d) = some d := by
  unfold decompose
  rw [hf]
  simp only [compose, C13_bytes_roundtrip]
  cases d
  simp_all

theorem C13_compose_unknown_form (dst : Dec) (p : Parts) (h : 2 < p.form.toNat) : compose dst p = none := by
  unfold compose
  have h0 : p.form ≠ 0 := fun e => by rw [e] at h; simp at h
  have h1 : p.form ≠ 1 := fun e => by rw [e] at h; simp at h
  have h2 : p.form ≠ 2 := fun e => by rw [e] at h; simp at h
  simp [h0, h1, h2]

/-- any byte string is accepted as a coefficient, any exponent, any sign -/
theorem C13_compose_total (dst : Dec) (p : Parts) (h : p.form.toNat ≤ 2) : (compose dst p).isSome := by
  unfold compose
  by_cases h0 : p.form = 0
  · simp [h0]
  by_cases h1 : p.form = 1
  · simp [h1]
  by_cases h2 : p.form = 2
  · simp [h2]
  exfalso
  have e0 : p.form.toNat ≠ 0 := fun e => h0 (UInt8.toNat_inj.1 (by simpa using e))
  have e1 : p.form.toNat ≠ 1 := fun e => h1 (UInt8.toNat_inj.1 (by simpa using e))
  have e2 : p.form.toNat ≠ 2 := fun e => h2 (UInt8.toNat_inj.1 (by simpa using e))
  omega

/-- what `Compose` stores for an arbitrary (possibly zero-padded) coefficient -/
theorem C13_compose_finite (dst : Dec) (neg : Bool) (c : List UInt8) (e : Int) :
    compose dst ⟨0, neg, c, e⟩ = some { form := .finite, neg := neg, coeff := bytesNat c, exp := e } := by
  simp [compose]

/-! ## non-vacuity -/

example : natBytes 0 = [] := by decide
example : natBytes 255 = [255] := by decide
example : natBytes 256 = [1, 0] := by decide
example : natBytes 65535 = [255, 255] := by decide
example : bytesNat [0, 0, 1, 0] = 256 := by decide
example : bitLen 0 = 0 ∧ bitLen 1 = 1 ∧ bitLen 255 = 8 ∧ bitLen 256 = 9 := by decide
example : fillBytes 3 256 = some [0, 1, 0] ∧ fillBytes 1 256 = none := by decide
/-- `1.8446744073709551615E-7` = 18446744073709551615 × 10^-26 -/
example : decompose { neg := true, coeff := 18446744073709551615, exp := -26 } =
    ⟨0, true, [255, 255, 255, 255, 255, 255, 255, 255], -26⟩ := by decide
example : decompose { coeff := 18446744073709551616, exp := 3 } = ⟨0, false, [1, 0, 0, 0, 0, 0, 0, 0, 0], 3⟩ := by
  decide
example : decompose { form := .nanSignaling, neg := true, coeff := 7, exp := 5 } = ⟨2, true, [], 0⟩ := by decide
example : decompose { form := .infinite, coeff := 7, exp := 5 } = ⟨1, false, [], 0⟩ := by decide
/-- a non-finite form leaves the receiver's coefficient and exponent in place -/
example : compose { coeff := 123, exp := 4 } (decompose { form := .nanSignaling, neg := true }) =
    some { form := .nan, neg := true, coeff := 123, exp := 4 } := by decide
example : compose {} ⟨3, false, [], 0⟩ = none := by decide
example : compose {} ⟨0, true, [0, 0, 1, 2], -3⟩ = some { neg := true, coeff := 258, exp := -3 } := by decide

end Apd.Props

#print axioms Apd.Props.C13_bytes_roundtrip
#print axioms Apd.Props.C13_bytes_minimal
#print axioms Apd.Props.C13_bitLen
#print axioms Apd.Props.C13_bitLen_zero
#print axioms Apd.Props.C13_bytesNat_leading_zeros
#print axioms Apd.Props.C13_fillBytes
#print axioms Apd.Props.C13_decomposeBuf
#print axioms Apd.Props.C13_compose_decompose
#print axioms Apd.Props.C13_compose_fresh
#print axioms Apd.Props.C13_compose_unknown_form
#print axioms Apd.Props.C13_compose_total
#print axioms Apd.Props.C13_compose_finite
