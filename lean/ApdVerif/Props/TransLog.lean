import ApdVerif.Props.RoundCore
import ApdVerif.Props.C08
import ApdVerif.Model.Dispatch
import ApdVerif.Lemmas.TransLogLemmas
import Mathlib.Tactic.IntervalCases
/-!
# Exp, Ln, Log10, Pow on the tape-steered model (`Model/TransLog.lean`) — for EVERY decision tape

The float64-steered decisions of these functions (precision bump, number of series terms, starting
estimate) enter the model as a tape. Every theorem here quantifies over all tapes `tp`: whatever the
floating-point unit decided, the stated property of the outcome holds. (What the tape cannot give is
accuracy: a bad estimate costs iterations or ulps, which C12's interval oracle judges per case.)
-/
namespace Apd.Props
open Apd Apd.Oracle Apd.Spec Apd.TL

/-- a composite function delivered its result: nil error, or a trap error explained by the flags -/
def DeliveredT (c : Ctx) (o : Out) : Prop := o.err = .none ∨ (o.err = .trap ∧ (o.fl &&& c.traps).any = true)

/-! non-vacuity inputs: e^15, ln 2, log10 2, 2^0.5 at five digits, with tapes as the Go hook records them -/
def exCtx : Ctx := { prec := 5, emax := 99, emin := -99 }
def exEst : Dec := { neg := true, coeff := 16094379124341003, exp := -16 }   -- float64 ln 0.2
def exTapeExp : Tape := [.cp 5, .n 12]
def exTapeLn : Tape := [.est exEst, .cp 7, .n 12, .cp 7, .n 12]
def exTapePow : Tape := [.est exEst, .cp 19, .n 30, .cp 19, .n 30, .cp 19, .n 30]
def exTwo : Dec := { coeff := 2 }
def exHalf : Dec := { coeff := 5, exp := -1 }

/-- turn a kernel-evaluated run into the existential the theorems quantify over -/
theorem ex_of_run {f : Option (Out × Tape)} {c : Ctx}
    (h : f.map (fun p => (p.1.err, p.2.length)) = some (.none, 0)) :
    ∃ o, f = some (o, []) ∧ DeliveredT c o := by
  cases f with
  | none => cases h
  | some p =>
    obtain ⟨o, r⟩ := p
    simp only [Option.map_some, Option.some.injEq, Prod.mk.injEq, List.length_eq_zero_iff] at h
    obtain ⟨h1, rfl⟩ := h
    exact ⟨o, rfl, Or.inl h1⟩

/-! ## C03: no silent failure — a nil error means no trapped flag; an error is either the trap of the
returned flags or an internal failure that delivered nothing -/

theorem C03T_exp_nil (c : Ctx) (x : Dec) (tp r : Tape) (o : Out)
    (h : expT c x tp = some (o, r)) (he : o.err = .none) : goError c.traps o.fl = .none := by
  rcases expT_shape c x tp r o h with hs | ⟨_, hf | hc⟩
  · exact nil_of_special (expSpecials_ok c x o hs) he
  · exact absurd he (not_nil_of_failed hf)
  · rw [← err_of_computed hc]; exact he

theorem C03T_ln_nil (c : Ctx) (x : Dec) (tp r : Tape) (o : Out)
    (h : lnT c x tp = some (o, r)) (he : o.err = .none) : goError c.traps o.fl = .none := by
  rcases lnT_shape c x tp r o h with hs | ⟨_, hf | hc⟩
  · exact nil_of_special (logSpecials_ok c x o hs) he
  · exact absurd he (not_nil_of_failed hf)
  · rw [← err_of_computed hc]; exact he

theorem C03T_log10_nil (c : Ctx) (x : Dec) (tp r : Tape) (o : Out)
    (h : log10T c x tp = some (o, r)) (he : o.err = .none) : goError c.traps o.fl = .none := by
  rcases log10T_shape c x tp r o h with hs | ⟨_, hf | hc⟩
  · exact nil_of_special (logSpecials_ok c x o hs) he
  · exact absurd he (not_nil_of_failed hf)
  · rw [← err_of_computed hc]; exact he

theorem C03T_pow_nil (c : Ctx) (x y : Dec) (tp r : Tape) (o : Out)
    (h : powT c x y tp = some (o, r)) (he : o.err = .none) : goError c.traps o.fl = .none := by
  rcases powT_shape c x y tp r o h with hs | hf | hc
  · exact nil_of_special (powSpecials_ok c x y o hs) he
  · exact absurd he hf
  · rw [← err_of_computed hc]; exact he

set_option linter.unusedVariables false in
/-- Exp: an error is the class of the returned flags, or nothing was delivered (`failOut`) -/
theorem C03T_exp_err (c : Ctx) (x : Dec) (tp r : Tape) (o : Out)
    (h : expT c x tp = some (o, r)) (he : o.err ≠ .none) :
    o.err = goError c.traps o.fl ∨ o = failOut o.err ∨ o = failWith o.err := by
  rcases expT_shape c x tp r o h with hs | ⟨_, hf | hc⟩
  · rcases err_of_special (expSpecials_ok c x o hs) with h1 | h1
    · exact Or.inl h1
    · exact Or.inr (Or.inl h1)
  · exact Or.inr (Or.inl (err_of_failed hf))
  · exact Or.inl (err_of_computed hc)

set_option linter.unusedVariables false in
theorem C03T_ln_err (c : Ctx) (x : Dec) (tp r : Tape) (o : Out)
    (h : lnT c x tp = some (o, r)) (he : o.err ≠ .none) :
    o.err = goError c.traps o.fl ∨ o = failOut o.err := by
  rcases lnT_shape c x tp r o h with hs | ⟨_, hf | hc⟩
  · exact err_of_special (logSpecials_ok c x o hs)
  · exact Or.inr (err_of_failed hf)
  · exact Or.inl (err_of_computed hc)

set_option linter.unusedVariables false in
theorem C03T_log10_err (c : Ctx) (x : Dec) (tp r : Tape) (o : Out)
    (h : log10T c x tp = some (o, r)) (he : o.err ≠ .none) :
    o.err = goError c.traps o.fl ∨ o = failOut o.err := by
  rcases log10T_shape c x tp r o h with hs | ⟨_, hf | hc⟩
  · exact err_of_special (logSpecials_ok c x o hs)
  · exact Or.inr (err_of_failed hf)
  · exact Or.inl (err_of_computed hc)

/-- the hypotheses of the C03T theorems are satisfiable on ordinary inputs (and the results are the right ones:
e^15 = 3.2690E+6, ln 2 = 0.69315, log10 2 = 0.30103, 2^0.5 = 1.4142) -/
example : (expT exCtx { coeff := 15 } exTapeExp).map (fun p => (p.1.d, p.1.err, p.2.length))
    = some ({ coeff := 32690, exp := 2 }, .none, 0) := by decide +kernel
example : (lnT exCtx exTwo exTapeLn).map (fun p => (p.1.d, p.1.err, p.2.length))
    = some ({ coeff := 69315, exp := -5 }, .none, 0) := by decide +kernel
example : (log10T exCtx exTwo exTapeLn).map (fun p => (p.1.d, p.1.err, p.2.length))
    = some ({ coeff := 30103, exp := -5 }, .none, 0) := by decide +kernel
example : (powT exCtx exTwo exHalf exTapePow).map (fun p => (p.1.d, p.1.err, p.2.length))
    = some ({ coeff := 14142, exp := -4 }, .none, 0) := by decide +kernel
/-- … and error outcomes: an Overflow trap on e^1000 returns the trap error with the result and flags
(first disjunct of `C03T_exp_err`, `DeliveredT` holds); under an Inexact trap the first internal step already traps
and Exp returns the error with nothing delivered (second disjunct, `failOut .trap`) -/
example : (expT { exCtx with traps := Cond.cOverflow } { coeff := 1000 } [.cp 5]).map
    (fun p => (p.1.d, p.1.fl.overflow, p.1.err, p.2.length)) = some (decInf, true, .trap, 0) := by decide +kernel
example : (expT { exCtx with traps := Cond.cInexact } { coeff := 15 } exTapeExp).map
    (fun p => (p.1.d, p.1.fl, p.1.err, p.2.length)) = some ({}, {}, .trap, 0) := by decide +kernel
/-- … and an internal failure (a negative term count on the tape = "too many iterations") delivers nothing -/
example : (expT exCtx { coeff := 15 } [.cp 5, .n (-1)]).map (fun p => (p.1.d, p.1.fl, p.1.err, p.2.length))
    = some ({}, {}, .other, 0) := by
  decide +kernel

/-! ## C07: a delivered finite result fits the caller's context, whatever the tape -/

theorem C07T_exp (c : Ctx) (hc : c.WF) (x : Dec) (tp r : Tape) (o : Out)
    (h : expT c x tp = some (o, r)) (hd : DeliveredT c o) : fits c o.d = true := by
  rcases expT_shape c x tp r o h with hs | ⟨_, hf | hcm⟩
  · exact (expSpecials_ok c x o hs).2 hc
  · exact (not_deliv_of_failed hf hd).elim
  · obtain ⟨⟨_, _, hP⟩, hn⟩ := deliv_computed hcm hd
    exact hP hc hn

theorem C07T_ln (c : Ctx) (hc : c.WF) (x : Dec) (tp r : Tape) (o : Out)
    (h : lnT c x tp = some (o, r)) (hd : DeliveredT c o) : fits c o.d = true := by
  rcases lnT_shape c x tp r o h with hs | ⟨_, hf | hcm⟩
  · exact (logSpecials_ok c x o hs).2 hc
  · exact (not_deliv_of_failed hf hd).elim
  · obtain ⟨⟨_, _, hP⟩, hn⟩ := deliv_computed hcm hd
    exact hP hc hn

theorem C07T_log10 (c : Ctx) (hc : c.WF) (x : Dec) (tp r : Tape) (o : Out)
    (h : log10T c x tp = some (o, r)) (hd : DeliveredT c o) : fits c o.d = true := by
  rcases log10T_shape c x tp r o h with hs | ⟨_, hf | hcm⟩
  · exact (logSpecials_ok c x o hs).2 hc
  · exact (not_deliv_of_failed hf hd).elim
  · obtain ⟨⟨_, _, hP⟩, hn⟩ := deliv_computed hcm hd
    exact hP hc hn

/-- Pow: stated for a nil error (on an internal trap Pow returns the integer-power intermediate) -/
theorem C07T_pow (c : Ctx) (hc : c.WF) (x y : Dec) (tp r : Tape) (o : Out)
    (h : powT c x y tp = some (o, r)) (he : o.err = .none) : fits c o.d = true := by
  rcases powT_shape c x y tp r o h with hs | hf | hcm
  · exact (powSpecials_ok c x y o hs).2 hc
  · exact absurd he hf
  · obtain ⟨hP, hn⟩ := deliv_computed hcm (Or.inl he)
    exact hP hc hn

/-- the hypotheses of the C07T theorems are satisfiable -/
example : exCtx.WF ∧ (∃ o, expT exCtx { coeff := 15 } exTapeExp = some (o, []) ∧ DeliveredT exCtx o) ∧
    (∃ o, lnT exCtx exTwo exTapeLn = some (o, []) ∧ DeliveredT exCtx o) ∧
    (∃ o, log10T exCtx exTwo exTapeLn = some (o, []) ∧ DeliveredT exCtx o) ∧
    (∃ o, powT exCtx exTwo exHalf exTapePow = some (o, []) ∧ DeliveredT exCtx o) :=
  ⟨by decide, ex_of_run (by decide +kernel), ex_of_run (by decide +kernel), ex_of_run (by decide +kernel),
    ex_of_run (by decide +kernel)⟩

/-! ## C02: Inexact implies Rounded on the non-special paths; the series paths always report Inexact -/

theorem C02T_exp_inexact_rounded (c : Ctx) (x : Dec) (tp r : Tape) (o : Out)
    (h : expT c x tp = some (o, r)) (hd : DeliveredT c o) (hs : expSpecials c x = none) :
    o.fl.inexact = true ∧ o.fl.rounded = true := by
  rcases expT_shape c x tp r o h with hs' | ⟨_, hf | hcm⟩
  · rw [hs] at hs'; cases hs'
  · exact (not_deliv_of_failed hf hd).elim
  · obtain ⟨⟨h1, h2, _⟩, _⟩ := deliv_computed hcm hd
    exact ⟨h1, h2⟩

theorem C02T_ln_inexact (c : Ctx) (x : Dec) (tp r : Tape) (o : Out)
    (h : lnT c x tp = some (o, r)) (hd : DeliveredT c o) (hs : logSpecials c x = none) :
    o.fl.inexact = true := by
  rcases lnT_shape c x tp r o h with hs' | ⟨_, hf | hcm⟩
  · rw [hs] at hs'; cases hs'
  · exact (not_deliv_of_failed hf hd).elim
  · obtain ⟨⟨h1, _⟩, _⟩ := deliv_computed hcm hd
    exact h1

theorem C02T_ln_inexact_rounded (c : Ctx) (x : Dec) (tp r : Tape) (o : Out)
    (h : lnT c x tp = some (o, r)) (hd : DeliveredT c o) (hs : logSpecials c x = none) :
    o.fl.inexact = true ∧ o.fl.rounded = true := by
  rcases lnT_shape c x tp r o h with hs' | ⟨_, hf | hcm⟩
  · rw [hs] at hs'; cases hs'
  · exact (not_deliv_of_failed hf hd).elim
  · obtain ⟨⟨h1, h2, _⟩, _⟩ := deliv_computed hcm hd
    exact ⟨h1, h2⟩

theorem C02T_log10_inexact_rounded (c : Ctx) (x : Dec) (tp r : Tape) (o : Out)
    (h : log10T c x tp = some (o, r)) (hd : DeliveredT c o) (hs : logSpecials c x = none) :
    o.fl.inexact = true ∧ o.fl.rounded = true := by
  rcases log10T_shape c x tp r o h with hs' | ⟨_, hf | hcm⟩
  · rw [hs] at hs'; cases hs'
  · exact (not_deliv_of_failed hf hd).elim
  · obtain ⟨⟨h1, h2, _⟩, _⟩ := deliv_computed hcm hd
    exact ⟨h1, h2⟩

/-- the hypotheses of the C02T theorems are satisfiable -/
example : (∃ o, expT exCtx { coeff := 15 } exTapeExp = some (o, []) ∧ DeliveredT exCtx o) ∧
    expSpecials exCtx { coeff := 15 } = none ∧
    (∃ o, lnT exCtx exTwo exTapeLn = some (o, []) ∧ DeliveredT exCtx o) ∧ logSpecials exCtx exTwo = none :=
  ⟨ex_of_run (by decide +kernel), by decide +kernel, ex_of_run (by decide +kernel), by decide +kernel⟩

/-! ## C08 / C12: the special values and the exact cases do not depend on the tape -/

theorem C08T_exp (c : Ctx) (x : Dec) (tp : Tape) (o : Out) (hs : expSpecials c x = some o) :
    expT c x tp = some (o, tp) := by
  unfold expT; rw [hs]

theorem C08T_ln (c : Ctx) (x : Dec) (tp : Tape) (o : Out) (hs : logSpecials c x = some o) :
    lnT c x tp = some (o, tp) := by
  unfold lnT; rw [hs]

theorem C08T_log10 (c : Ctx) (x : Dec) (tp : Tape) (o : Out) (hs : logSpecials c x = some o) :
    log10T c x tp = some (o, tp) := by
  unfold log10T; rw [hs]

theorem C08T_pow (c : Ctx) (x y : Dec) (tp : Tape) (o : Out) (hs : powSpecials c x y = some o) :
    powT c x y tp = some (o, tp) := by
  unfold powT; rw [hs]

/- ORIGINAL STATEMENT (false as stated: it has no "delivered" hypothesis, unlike `C08_specials`):

theorem C08T_specials (op : String) (hop : op ∈ allOps) (c : Ctx) (x y : Dec) (i : Int) (tp : Tape) (e : Expect) (o : Out)
    (hs : Spec.specials op x y = some e) (h : runCtxOpT op c x y i tp = some o) :
    e.meets o.d o.fl = true

Counterexample (checked below): op = "sqrt", c = {prec 5, emax 99, emin -99}, x = 0E+300000, empty tape.
The table prescribes a zero; the model (like the Go code) halves the exponent to 150000, `Context.round` hits the
system limit and returns SystemOverflow|Overflow with error class `sys`: nothing is delivered, and the flags are
not clean.  `C08_specials` excludes this by `o.err = .none ∨ o.err = .trap`; the same hypothesis is needed here. -/

example :
    let c : Ctx := { prec := 5, emax := 99, emin := -99 }
    let x : Dec := { coeff := 0, exp := 300000 }
    runCtxOpT "sqrt" c x {} 0 [] = some (sqrtOp c x) ∧ (sqrtOp c x).err = .sys ∧
    (Spec.specials "sqrt" x {}).map (fun e => e.meets (sqrtOp c x).d (sqrtOp c x).fl) = some false := by
  decide +kernel

/-- the tape dispatch agrees with the plain dispatch whenever the special-value table prescribes a result -/
theorem runCtxOpT_of_specials (op : String) (hop : op ∈ allOps) (c : Ctx) (x y : Dec) (i : Int) (tp : Tape) (e : Expect) (o : Out)
    (hs : Spec.specials op x y = some e) (h : runCtxOpT op c x y i tp = some o) :
    runCtxOp op c x y i = some o := by
  simp only [allOps, List.mem_cons, List.not_mem_nil, or_false] at hop
  rcases hop with rfl | rfl | rfl | rfl | rfl | rfl | rfl | rfl | rfl | rfl | rfl | rfl | rfl | rfl | rfl | rfl |
    rfl | rfl | rfl | rfl | rfl | rfl
  case _ => exact h
  case _ => exact h
  case _ => exact h
  case _ => exact h
  case _ => exact h
  case _ => exact h
  case _ => exact h
  case _ => exact h
  case _ => exact h
  case _ => exact h
  case _ => exact h
  case _ => exact h
  case _ => exact h
  case _ => exact h
  case _ => exact h
  case _ => exact h
  case _ => exact h
  case _ => exact h
  case _ =>
    obtain ⟨o', h1, _⟩ := C08L.C08_exp c x y e hs
    have h2 : runCtxOpT "exp" c x y i tp = (match expT c x tp with | some (o, []) => some o | _ => none) := rfl
    rw [h2, C08T_exp c x tp o' h1] at h
    have h3 : runCtxOp "exp" c x y i = expSpecials c x := rfl
    rw [h3, h1]
    cases tp with
    | nil => exact h
    | cons a t => cases h
  case _ =>
    obtain ⟨o', h1, _⟩ := C08L.C08_log c x y e true (by simpa using hs)
    have h2 : runCtxOpT "ln" c x y i tp = (match lnT c x tp with | some (o, []) => some o | _ => none) := rfl
    rw [h2, C08T_ln c x tp o' h1] at h
    have h3 : runCtxOp "ln" c x y i = logSpecials c x := rfl
    rw [h3, h1]
    cases tp with
    | nil => exact h
    | cons a t => cases h
  case _ =>
    obtain ⟨o', h1, _⟩ := C08L.C08_log c x y e false (by simpa using hs)
    have h2 : runCtxOpT "log10" c x y i tp = (match log10T c x tp with | some (o, []) => some o | _ => none) := rfl
    rw [h2, C08T_log10 c x tp o' h1] at h
    have h3 : runCtxOp "log10" c x y i = logSpecials c x := rfl
    rw [h3, h1]
    cases tp with
    | nil => exact h
    | cons a t => cases h
  case _ =>
    obtain ⟨o', h1, _⟩ := C08L.C08_pow c x y e hs
    have h2 : runCtxOpT "pow" c x y i tp = (match powT c x y tp with | some (o, []) => some o | _ => none) := rfl
    rw [h2, C08T_pow c x y tp o' h1] at h
    have h3 : runCtxOp "pow" c x y i = powIntOp c x y := rfl
    rw [h3, C08L.powIntOp_of_specials h1]
    cases tp with
    | nil => exact h
    | cons a t => cases h

/-- the special-value table (`Spec.specials`) holds for the tape dispatch exactly as for the prologues:
strongest true variant of `C08T_specials` — for every delivered outcome -/
theorem C08T_specials_partial (op : String) (hop : op ∈ allOps) (c : Ctx) (x y : Dec) (i : Int) (tp : Tape) (e : Expect) (o : Out)
    (hs : Spec.specials op x y = some e) (h : runCtxOpT op c x y i tp = some o)
    (hd : o.err = .none ∨ o.err = .trap) :
    e.meets o.d o.fl = true :=
  C08_specials op hop c x y i e o hs (runCtxOpT_of_specials op hop c x y i tp e o hs h) hd

/-- for the four tape-steered operations themselves no extra hypothesis is needed -/
theorem C08T_specials_four (op : String) (hop : op ∈ oracleOnlyOps) (c : Ctx) (x y : Dec) (i : Int) (tp : Tape) (e : Expect) (o : Out)
    (hs : Spec.specials op x y = some e) (h : runCtxOpT op c x y i tp = some o) :
    e.meets o.d o.fl = true := by
  have hop' : op ∈ allOps := by
    simp only [oracleOnlyOps, List.mem_cons, List.not_mem_nil, or_false] at hop
    rcases hop with rfl | rfl | rfl | rfl <;> simp [allOps]
  have h' := runCtxOpT_of_specials op hop' c x y i tp e o hs h
  simp only [oracleOnlyOps, List.mem_cons, List.not_mem_nil, or_false] at hop
  rcases hop with rfl | rfl | rfl | rfl
  · obtain ⟨o', h1, h2⟩ := C08L.C08_exp c x y e hs
    have h3 : runCtxOp "exp" c x y i = expSpecials c x := rfl
    rw [h3, h1] at h'; cases h'; exact h2
  · obtain ⟨o', h1, h2⟩ := C08L.C08_log c x y e true (by simpa using hs)
    have h3 : runCtxOp "ln" c x y i = logSpecials c x := rfl
    rw [h3, h1] at h'; cases h'; exact h2
  · obtain ⟨o', h1, h2⟩ := C08L.C08_log c x y e false (by simpa using hs)
    have h3 : runCtxOp "log10" c x y i = logSpecials c x := rfl
    rw [h3, h1] at h'; cases h'; exact h2
  · obtain ⟨o', h1, h2⟩ := C08L.C08_pow c x y e hs
    have h3 : runCtxOp "pow" c x y i = powIntOp c x y := rfl
    rw [h3, C08L.powIntOp_of_specials h1] at h'; cases h'; exact h2

/-- the hypotheses are satisfiable: Exp of +Infinity, on any tape -/
example : Spec.specials "exp" decInf {} = some (Spec.inf false) ∧
    runCtxOpT "exp" exCtx decInf {} 0 [] = some { d := decInf } := by
  constructor <;> rfl

/-- Pow with an integer exponent never consults the tape -/
theorem C12T_pow_integer (c : Ctx) (x y : Dec) (tp : Tape) (hy : (modf y).2.isZero = true) :
    powT c x y tp = (powIntOp c x y).map (fun o => (o, tp)) := by
  unfold powT powIntOp
  cases hs : powSpecials c x y with
  | some o => rfl
  | none => simp [hy]

theorem C12T_exp_zero (c : Ctx) (x : Dec) (tp : Tape) (hx : x.form = .finite) (h0 : x.coeff = 0) :
    expT c x tp = some ({ d := decOne }, tp) := by
  apply C08T_exp
  simp [expSpecials, shouldSetAsNaN, Dec.isNaN, Dec.isZero, hx, h0]

theorem C12T_ln_one (c : Ctx) (tp : Tape) : lnT c decOne tp = some ({ d := decZero }, tp) := by
  exact C08T_ln c decOne tp _ rfl

/-- 2^3 with a non-empty tape: the tape is returned untouched -/
example : (modf { coeff := 3 }).2.isZero = true ∧
    (powT exCtx exTwo { coeff := 3 } exTapePow).map (fun p => (p.1.d, p.2.length)) = some ({ coeff := 8 }, 7) := by
  decide +kernel

/-! ## the constants -/

/-- every table entry of ln 10 the model derives is the correct half-up rounding of the digit string:
within half a unit of its last digit -/
theorem C12T_ln10_table (i : Nat) (hi : i < 12) :
    let d := constGet ln10Coeff ln10Exp ln10StrLen (2 ^ i)
    ndigits d.coeff = 2 ^ i ∧
    2 * (d.coeff * 10 ^ (ln10Exp.natAbs - d.exp.natAbs)) ≤ 2 * ln10Coeff + 10 ^ (ln10Exp.natAbs - d.exp.natAbs) ∧
    2 * ln10Coeff ≤ 2 * (d.coeff * 10 ^ (ln10Exp.natAbs - d.exp.natAbs)) + 10 ^ (ln10Exp.natAbs - d.exp.natAbs) := by
  interval_cases i <;> decide +kernel

/-- e.g. the 8-digit entry is 2.3025851 -/
example : constGet ln10Coeff ln10Exp ln10StrLen 8 = { coeff := 23025851, exp := -7 } := by decide +kernel

end Apd.Props

#print axioms Apd.Props.C03T_exp_nil
#print axioms Apd.Props.C03T_ln_nil
#print axioms Apd.Props.C03T_log10_nil
#print axioms Apd.Props.C03T_pow_nil
#print axioms Apd.Props.C03T_exp_err
#print axioms Apd.Props.C03T_ln_err
#print axioms Apd.Props.C03T_log10_err
#print axioms Apd.Props.C07T_exp
#print axioms Apd.Props.C07T_ln
#print axioms Apd.Props.C07T_log10
#print axioms Apd.Props.C07T_pow
#print axioms Apd.Props.C02T_exp_inexact_rounded
#print axioms Apd.Props.C02T_ln_inexact
#print axioms Apd.Props.C02T_ln_inexact_rounded
#print axioms Apd.Props.C02T_log10_inexact_rounded
#print axioms Apd.Props.C08T_exp
#print axioms Apd.Props.C08T_ln
#print axioms Apd.Props.C08T_log10
#print axioms Apd.Props.C08T_pow
#print axioms Apd.Props.runCtxOpT_of_specials
#print axioms Apd.Props.C08T_specials_partial
#print axioms Apd.Props.C08T_specials_four
#print axioms Apd.Props.C12T_pow_integer
#print axioms Apd.Props.C12T_exp_zero
#print axioms Apd.Props.C12T_ln_one
#print axioms Apd.Props.C12T_ln10_table
