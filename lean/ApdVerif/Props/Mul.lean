import ApdVerif.Spec.Agrees
/-! # Mul agrees with the specification (exact product, `setExponent`, then `round`: no double rounding) -/
namespace Apd.Props
open Apd Apd.Oracle

theorem C01_mul (c : Ctx) (hc : c.WF) (x y : Dec) (hx : x.form = .finite) (hy : y.form = .finite)
    (h : Delivered (mulOp c x y).err) :
    Agrees c (exactMul x y) (mulOp c x y).d (mulOp c x y).fl := by
  sorry

theorem C01_mul_prec0 (c : Ctx) (hc : c.WF0) (hp : c.prec = 0) (x y : Dec)
    (hx : x.form = .finite) (hy : y.form = .finite) (h : Delivered (mulOp c x y).err) :
    AgreesExact c (exactMul x y) (mulOp c x y).d (mulOp c x y).fl := by
  sorry

end Apd.Props
