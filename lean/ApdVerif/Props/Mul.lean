import ApdVerif.Spec.Agrees
import ApdVerif.Lemmas.MulLemmas
/-! # Mul agrees with the specification (exact product, `setExponent`, then `round`: no double rounding) -/
namespace Apd.Props
open Apd Apd.Oracle Apd.MulL

theorem empty_or (a : Cond) : ({} : Cond) ||| a = a := by
  apply Cond.ext' <;> simp

/-- `mulOp` on finite operands -/
theorem mulOp_finite (c : Ctx) (x y : Dec) (hx : x.form = .finite) (hy : y.form = .finite) :
    mulOp c x y =
      finish c ((ctxRound c (setExponent c
          { form := .finite, neg := x.neg != y.neg, exp := 0, coeff := x.coeff * y.coeff } {} [x.exp, y.exp]).1).1,
        (setExponent c
          { form := .finite, neg := x.neg != y.neg, exp := 0, coeff := x.coeff * y.coeff } {} [x.exp, y.exp]).2 |||
        (ctxRound c (setExponent c
          { form := .finite, neg := x.neg != y.neg, exp := 0, coeff := x.coeff * y.coeff } {} [x.exp, y.exp]).1).2) := by
  simp [mulOp, shouldSetAsNaN, Dec.isNaN, hx, hy]

/-- agreement for an exact zero only depends on the result being a fitting zero of the right sign -/
theorem agrees_zero (c : Ctx) (neg : Bool) (E : Int) (d : Dec) (fl : Cond)
    (hf : d.form = .finite) (h0 : d.coeff = 0) (hn : d.neg = neg) (hb : Benign fl)
    (hp : 1 ≤ c.prec) (he : d.exp ≤ c.emax) :
    Agrees c { neg := neg, num := 0, den := 1, e10 := E } d fl := by
  obtain ⟨b1, b2, b3, b4, b5, b6, b7, b8⟩ := hb
  unfold Agrees FlagsOK
  rw [spec_zero]
  refine ⟨?_, ?_, ?_⟩
  · simp [SpecOut.matches, hf, h0, hn]
  · simp [SpecOut.underflow, *]
  · simp [fits, hf, h0, ndigits_zero]
    omega

theorem mul_core (c : Ctx) (hc : c.WF) (neg : Bool) (N : Nat) (xe ye : Int)
    (hns : NoSys ((setExponent c { form := .finite, neg := neg, exp := 0, coeff := N } {} [xe, ye]).2 |||
      (roundX c (setExponent c { form := .finite, neg := neg, exp := 0, coeff := N } {} [xe, ye]).1 true).2)) :
    Agrees c { neg := neg, num := N, den := 1, e10 := xe + ye }
      (roundX c (setExponent c { form := .finite, neg := neg, exp := 0, coeff := N } {} [xe, ye]).1 true).1
      ((setExponent c { form := .finite, neg := neg, exp := 0, coeff := N } {} [xe, ye]).2 |||
      (roundX c (setExponent c { form := .finite, neg := neg, exp := 0, coeff := N } {} [xe, ye]).1 true).2) := by
  have hc' := hc
  obtain ⟨hc1, hc2, hc3, hc4, hc5⟩ := hc'
  obtain ⟨hns1, hns2⟩ := noSys_or.1 hns
  generalize hd0 : ({ form := .finite, neg := neg, exp := 0, coeff := N } : Dec) = d0 at *
  have hd0f : d0.form = .finite := by rw [← hd0]
  have hd0n : d0.neg = neg := by rw [← hd0]
  have hd0c : d0.coeff = N := by rw [← hd0]
  by_cases hN : N = 0
  · -- exact zero
    subst hN
    obtain ⟨z1, z2, z3, z4, _⟩ := setExponent_zero c d0 {} [xe, ye] hd0f hd0c benign_empty hns1
    generalize setExponent c d0 {} [xe, ye] = r1 at *
    rw [roundX_finite c r1.1 true z1] at hns2 ⊢
    rw [roundX_zero_eq c r1.1 hc1 z1 z2] at hns2 ⊢
    obtain ⟨w1, w2, w3, w4, w5⟩ := setExponent_zero c r1.1 {} [r1.1.exp, 0] z1 z2 benign_empty hns2
    exact agrees_zero c neg _ _ _ w1 w2 (by rw [w3, z3, hd0n]) (benign_or z4 w4) hc1 (w5 hc1 (by omega))
  · have hNpos : 0 < N := Nat.pos_of_ne_zero hN
    subst hd0
    obtain ⟨k1, k2, k3⟩ := setExponent_noSys hns1
    have hsum : sumInts [xe, ye] = xe + ye := by simp [sumInts]
    simp only [hsum] at k2 k3
    have hz : ({ form := .finite, neg := neg, exp := 0, coeff := N } : Dec).isZero = false :=
      isZero_of_pos _ hNpos
    have k2' : -100000 ≤ sumInts [xe, ye] +
        (ndigits ({ form := .finite, neg := neg, exp := 0, coeff := N } : Dec).coeff : Int) - 1 := by
      rw [hsum]; exact k2
    have k3' : sumInts [xe, ye] +
        (ndigits ({ form := .finite, neg := neg, exp := 0, coeff := N } : Dec).coeff : Int) - 1 ≤ 100000 := by
      rw [hsum]; exact k3
    have kadj : sumInts [xe, ye] +
        (ndigits ({ form := .finite, neg := neg, exp := 0, coeff := N } : Dec).coeff : Int) - 1
        = xe + ye + (ndigits N : Int) - 1 := by rw [hsum]
    by_cases hsub : xe + ye + (ndigits N : Int) - 1 < c.emin
    · by_cases hr : xe + ye < c.emin - (c.prec : Int) + 1
      · -- subnormal, the first call rounds to Etiny; `round` then changes nothing
        have het : c.emin - ((c.prec : Int) - 1) = c.emin - (c.prec : Int) + 1 := by omega
        have e1 : ∃ fl1, setExponent c { form := .finite, neg := neg, exp := 0, coeff := N } {} [xe, ye] =
            ({ form := .finite, neg := neg, exp := c.emin - (c.prec : Int) + 1,
               coeff := rndCoeff c.mode neg N (c.emin - (c.prec : Int) + 1 - (xe + ye)).toNat }, fl1) ∧
            fl1.inexact = (N % 10 ^ (c.emin - (c.prec : Int) + 1 - (xe + ye)).toNat != 0) ∧
            fl1.subnormal = true ∧
            fl1.underflow = (N % 10 ^ (c.emin - (c.prec : Int) + 1 - (xe + ye)).toNat != 0) ∧
            fl1.overflow = false ∧ fl1.rounded = true ∧ fl1.divUndefined = false ∧ fl1.divByZero = false ∧
            fl1.divImpossible = false ∧ fl1.invalidOp = false := by
          rw [setExponent_sub_round c _ {} _ k1 k2' k3' (by rw [kadj]; omega) (by rw [hsum]; omega)]
          simp only [hz, het, hsum, seFinish_eq]
          refine ⟨_, rfl, ?_⟩
          by_cases hix : N % 10 ^ (c.emin - (c.prec : Int) + 1 - (xe + ye)).toNat = 0 <;>
          by_cases hm0 : rndCoeff c.mode neg N (c.emin - (c.prec : Int) + 1 - (xe + ye)).toNat = 0 <;>
          simp [hix, hm0, Cond.cSubnormal, Cond.cInexact, Cond.cClamped, Cond.cRounded, Cond.cUnderflow]
        obtain ⟨fl1, e1, g1, g2, g3, g4, g5, g6, g7, g8, g9⟩ := e1
        rw [e1] at hns2 ⊢
        simp only at hns2 ⊢
        rw [roundX_finite c _ true rfl] at hns2 ⊢
        obtain ⟨hmin, _⟩ := roundX_noSys_exp c _ (by omega) hns2
        simp only at hmin
        have hdig := sub_rnd_digits c hc neg N (xe + ye) hNpos hsub hr
        rw [roundX_id c hc _ rfl hdig (by simp only; omega) hmin (by simp only; omega)]
        simp only
        unfold Agrees FlagsOK
        rw [spec_sub_round c hc neg N (xe + ye) hNpos hsub hr]
        generalize rndCoeff c.mode neg N (c.emin - (c.prec : Int) + 1 - (xe + ye)).toNat = m at *
        generalize (N % 10 ^ (c.emin - (c.prec : Int) + 1 - (xe + ye)).toNat != 0) = ix at *
        refine ⟨?_, ?_, ?_⟩
        · simp [SpecOut.matches]
        · split <;> simp [SpecOut.underflow, Cond.cSubnormal, *]
        · simp [fits]
          omega
      · -- subnormal but nothing to drop
        have e1 : setExponent c { form := .finite, neg := neg, exp := 0, coeff := N } {} [xe, ye] =
            ({ form := .finite, neg := neg, exp := xe + ye, coeff := N }, Cond.cSubnormal) := by
          rw [setExponent_sub_exact c _ {} _ k1 k2' k3' (by rw [kadj]; omega) (by rw [hsum]; omega), hsum]
          simp [hz, seFinish_eq, empty_or, Cond.cSubnormal]
        rw [e1] at hns2 ⊢
        simp only at hns2 ⊢
        rw [roundX_finite c _ true rfl] at hns2 ⊢
        obtain ⟨hmin, _⟩ := roundX_noSys_exp c _ (by omega) hns2
        simp only at hmin
        have hp := ndigits_pos N
        rw [roundX_id c hc _ rfl (show ndigits N ≤ c.prec by omega)
          (show c.emin - (c.prec : Int) + 1 ≤ xe + ye by omega) hmin
          (show xe + ye + (ndigits N : Int) - 1 ≤ c.emax by omega)]
        simp only
        rw [if_pos ⟨hNpos, hsub⟩]
        unfold Agrees FlagsOK
        rw [spec_sub_exact c hc neg N (xe + ye) hNpos hsub (by omega)]
        refine ⟨?_, ?_, ?_⟩
        · simp [SpecOut.matches]
          omega
        · simp [SpecOut.underflow, Cond.cSubnormal]
        · simp [fits]
          omega
    · by_cases hov : xe + ye + (ndigits N : Int) - 1 > c.emax
      · -- overflow: the first call already produces the infinity
        have e1 : setExponent c { form := .finite, neg := neg, exp := 0, coeff := N } {} [xe, ye] =
            ({ form := .infinite, neg := neg, exp := xe + ye, coeff := N },
              ({} : Cond) ||| Cond.cOverflow ||| Cond.cInexact) := by
          rw [setExponent_over c _ {} _ k1 k2' k3' (by rw [kadj]; omega) (by rw [kadj]; omega), hz, hsum]
          simp [seFinish_eq, Cond.cOverflow, Cond.cInexact]
        rw [e1]
        simp only
        rw [roundX_nonfinite c _ true (by simp)]
        simp only
        unfold Agrees FlagsOK
        rw [spec_over c hc neg N _ hNpos (by omega)]
        refine ⟨?_, ?_, ?_⟩
        · simp [SpecOut.matches, specInf]
        · simp [specInf, SpecOut.underflow, Cond.cOverflow, Cond.cInexact]
        · simp [fits]
      · -- normal range: the first call only sets the exponent
        have e1 : setExponent c { form := .finite, neg := neg, exp := 0, coeff := N } {} [xe, ye] =
            ({ form := .finite, neg := neg, exp := xe + ye, coeff := N }, {}) := by
          rw [setExponent_norm c _ {} _ k1 k2' k3' (by rw [kadj]; omega) (by rw [kadj]; omega), hsum]
          simp [seFinish_eq]
        rw [e1] at hns2 ⊢
        simp only at hns2 ⊢
        rw [roundX_finite c _ true rfl] at hns2 ⊢
        have post := roundX_norm c hc _ hNpos
          (show c.emin ≤ xe + ye + (ndigits N : Int) - 1 by omega) hns2
        simp only at post
        rw [empty_or]
        exact agrees_of_post post

theorem mul_core0 (c : Ctx) (hc : c.WF0) (hp : c.prec = 0) (neg : Bool) (N : Nat) (xe ye : Int)
    (hns : NoSys ((setExponent c { form := .finite, neg := neg, exp := 0, coeff := N } {} [xe, ye]).2 |||
      (roundX c (setExponent c { form := .finite, neg := neg, exp := 0, coeff := N } {} [xe, ye]).1 true).2)) :
    AgreesExact c { neg := neg, num := N, den := 1, e10 := xe + ye }
      (roundX c (setExponent c { form := .finite, neg := neg, exp := 0, coeff := N } {} [xe, ye]).1 true).1
      ((setExponent c { form := .finite, neg := neg, exp := 0, coeff := N } {} [xe, ye]).2 |||
      (roundX c (setExponent c { form := .finite, neg := neg, exp := 0, coeff := N } {} [xe, ye]).1 true).2) := by
  obtain ⟨hc1, hc2, hc3, hc4, hc5⟩ := hc
  obtain ⟨hns1, hns2⟩ := noSys_or.1 hns
  intro s hs
  by_cases hN : N = 0
  · subst hN
    simp [specExact] at hs
    subst hs
    generalize hd0 : ({ form := .finite, neg := neg, exp := 0, coeff := 0 } : Dec) = d0 at *
    have hd0f : d0.form = .finite := by rw [← hd0]
    have hd0n : d0.neg = neg := by rw [← hd0]
    have hd0c : d0.coeff = 0 := by rw [← hd0]
    obtain ⟨z1, z2, z3, z4, _⟩ := setExponent_zero c d0 {} [xe, ye] hd0f hd0c benign_empty hns1
    generalize setExponent c d0 {} [xe, ye] = r1 at *
    rw [roundX_finite c r1.1 true z1] at hns2 ⊢
    rw [roundX_prec0 c r1.1 hp] at hns2 ⊢
    obtain ⟨w1, w2, w3, w4, _⟩ := setExponent_zero c r1.1 {} [r1.1.exp] z1 z2 benign_empty hns2
    obtain ⟨b1, b2, b3, b4, _⟩ := benign_or z4 w4
    refine ⟨?_, b1, b4, b3⟩
    simp [SpecOut.matches, w1, w2, w3, z3, hd0n]
  · have hNpos : 0 < N := Nat.pos_of_ne_zero hN
    have hne : (N == 0) = false := by simp; omega
    obtain ⟨k1, k2, k3⟩ := setExponent_noSys hns1
    have hsum : sumInts [xe, ye] = xe + ye := by simp [sumInts]
    have hsum1 : sumInts [xe + ye] = xe + ye := by simp [sumInts]
    simp only [specExact, hne] at hs
    by_cases hrange : (ndigits N : Int) - 1 + (xe + ye) < c.emin ∨ (ndigits N : Int) - 1 + (xe + ye) > c.emax
    · simp [hrange] at hs
    · have hr1 : ¬ ((ndigits N : Int) - 1 + (xe + ye) < c.emin) := fun h => hrange (Or.inl h)
      have hr2 : ¬ ((ndigits N : Int) - 1 + (xe + ye) > c.emax) := fun h => hrange (Or.inr h)
      simp [hr1, hr2] at hs
      subst hs
      have e1 : setExponent c { form := .finite, neg := neg, exp := 0, coeff := N } {} [xe, ye] =
          ({ form := .finite, neg := neg, exp := xe + ye, coeff := N }, {}) := by
        rw [setExponent_norm c _ {} _ k1 k2 k3 (by rw [hsum]; show c.emin ≤ xe + ye + (ndigits N : Int) - 1; omega)
          (by rw [hsum]; show xe + ye + (ndigits N : Int) - 1 ≤ c.emax; omega), hsum]
        simp [seFinish_eq]
      rw [e1] at hns2 ⊢
      simp only at hns2 ⊢
      rw [roundX_finite c _ true rfl] at hns2 ⊢
      rw [roundX_prec0 c _ hp] at hns2 ⊢
      obtain ⟨j1, j2, j3⟩ := setExponent_noSys hns2
      have e2 : setExponent c { form := .finite, neg := neg, exp := xe + ye, coeff := N } {} [xe + ye] =
          ({ form := .finite, neg := neg, exp := xe + ye, coeff := N }, {}) := by
        rw [setExponent_norm c _ {} _ j1 j2 j3
          (by rw [hsum1]; show c.emin ≤ xe + ye + (ndigits N : Int) - 1; omega)
          (by rw [hsum1]; show xe + ye + (ndigits N : Int) - 1 ≤ c.emax; omega), hsum1]
        simp [seFinish_eq]
      rw [e2]
      simp [SpecOut.matches]

theorem C01_mul (c : Ctx) (hc : c.WF) (x y : Dec) (hx : x.form = .finite) (hy : y.form = .finite)
    (h : Delivered (mulOp c x y).err) :
    Agrees c (exactMul x y) (mulOp c x y).d (mulOp c x y).fl := by
  rw [mulOp_finite c x y hx hy] at h ⊢
  simp only [finish] at h ⊢
  exact mul_core c hc _ _ _ _ (noSys_of_delivered h)

theorem C01_mul_prec0 (c : Ctx) (hc : c.WF0) (hp : c.prec = 0) (x y : Dec)
    (hx : x.form = .finite) (hy : y.form = .finite) (h : Delivered (mulOp c x y).err) :
    AgreesExact c (exactMul x y) (mulOp c x y).d (mulOp c x y).fl := by
  rw [mulOp_finite c x y hx hy] at h ⊢
  simp only [finish] at h ⊢
  exact mul_core0 c hc hp _ _ _ _ (noSys_of_delivered h)

end Apd.Props

#print axioms Apd.Props.C01_mul
#print axioms Apd.Props.C01_mul_prec0
