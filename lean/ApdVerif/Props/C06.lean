import ApdVerif.Props.C05
import ApdVerif.Lemmas.FootLemmas
/-!
# C06 — results depend only on operands and context; operands, context and shared constants are never modified

* `C06_writes_<op>`  : every write of the program goes to the destination cell (`WritesOnly (· = d)`); the `Context`
  is a Lean value and the package constants are `Src.const` values, which no program can write;
* `C06_foot_<op>`    : the footprint: reads within `{x, y} ∪ {d}`, writes within `{d}` (used by C18);
* `C06_<op>`         : when `d ∉ {x, y}` the run does not depend on the previous contents of `d`;
* `C06_ctxOp_operands_only` : two runs on heaps that agree on the operand cells have the same error class and, when
  delivered, the same flags, aux value and final destination (no assumption on aliasing).
-/
namespace Apd.Props
open Apd Apd.Cond Apd.Imp Apd.Imp.Prog

/-- two runs whose value-level models coincide -/
theorem opSpec_agree {p : Prog Res} {d : Cell} {h1 h2 : Heap} {m : Out}
    (s1 : OpSpec p d h1 m) (s2 : OpSpec p d h2 m) :
    (run p h1).1.2.1 = (run p h2).1.2.1 ∧
    (Delivered (run p h1).1.2.1 →
      (run p h1).1.1 = (run p h2).1.1 ∧ (run p h1).2 d = (run p h2).2 d ∧ (run p h1).1.2.2 = (run p h2).1.2.2) := by
  obtain ⟨e1, d1, _⟩ := s1
  obtain ⟨e2, d2, _⟩ := s2
  refine ⟨e1.trans e2.symm, fun hd => ?_⟩
  obtain ⟨a1, a2, a3⟩ := d1 hd
  obtain ⟨b1, b2, b3⟩ := d2 (by rw [e2, ← e1]; exact hd)
  exact ⟨a1.trans b1.symm, a2.trans b2.symm, a3.trans b3.symm⟩

/-- C06 for the whole table: the outcome is a function of the operand VALUES and the context only -/
theorem C06_ctxOp_operands_only {op : String} {c : Ctx} {d x y : Cell} {iarg : Int} {p : Prog Res}
    (hp : runCtxOp op c d x y iarg = some p) (h1 h2 : Heap) (hx : h1 x = h2 x) (hy : h1 y = h2 y) :
    (run p h1).1.2.1 = (run p h2).1.2.1 ∧
    (Delivered (run p h1).1.2.1 →
      (run p h1).1.1 = (run p h2).1.1 ∧ (run p h1).2 d = (run p h2).2 d ∧ (run p h1).1.2.2 = (run p h2).1.2.2) := by
  obtain ⟨m1, hm1, s1⟩ := C05_ctxOp hp h1
  obtain ⟨m2, hm2, s2⟩ := C05_ctxOp hp h2
  rw [hx, hy] at hm1
  have : m1 = m2 := Option.some.inj (hm1.symm.trans hm2)
  subst this
  exact opSpec_agree s1 s2

/-- C06 for the whole table: only the destination is written -/
theorem C06_writes_ctxOp {op : String} {c : Ctx} {d x y : Cell} {iarg : Int} {p : Prog Res}
    (hp : runCtxOp op c d x y iarg = some p) : WritesOnly (· = d) p :=
  (Foot_runCtxOp hp).writesOnly

/-- C06 for the whole table: operands (when they are not the destination) and all other cells are unchanged -/
theorem C06_frame_ctxOp {op : String} {c : Ctx} {d x y : Cell} {iarg : Int} {p : Prog Res}
    (hp : runCtxOp op c d x y iarg = some p) (h : Heap) : ∀ cell, cell ≠ d → (run p h).2 cell = h cell :=
  (C06_writes_ctxOp hp).frame h

/-- C06 for the whole table: with `d ∉ {x, y}` the previous contents of `d` are irrelevant -/
theorem C06_ctxOp {op : String} {c : Ctx} {d x y : Cell} {iarg : Int} {p : Prog Res}
    (hp : runCtxOp op c d x y iarg = some p) (hdx : d ≠ x) (hdy : d ≠ y) (h : Heap) (v : Dec) :
    (run p h).1.2.1 = (run p (h.set d v)).1.2.1 ∧
    (Delivered (run p h).1.2.1 →
      (run p h).1.1 = (run p (h.set d v)).1.1 ∧ (run p h).2 d = (run p (h.set d v)).2 d ∧
      (run p h).1.2.2 = (run p (h.set d v)).1.2.2) :=
  C06_ctxOp_operands_only hp h (h.set d v) (Heap.set_other _ _ (Ne.symm hdx)).symm (Heap.set_other _ _ (Ne.symm hdy)).symm

/-! ## per operation -/

theorem C06_foot_add (c : Ctx) (d x y : Cell) : Foot (footR x y) (footW d) (addP c d (.cell x) (.cell y) false) := by
  have hd : footW d d := rfl
  have hx : SrcOK (footR x y) (footW d) (.cell x) := SrcOK.read (Or.inl rfl)
  have hy : SrcOK (footR x y) (footW d) (.cell y) := SrcOK.read (Or.inr rfl)
  exact Foot_addP hd hx hy c false
theorem C06_writes_add (c : Ctx) (d x y : Cell) : WritesOnly (· = d) (addP c d (.cell x) (.cell y) false) :=
  (C06_foot_add c d x y).writesOnly
theorem C06_add (c : Ctx) (d x y : Cell) (hdx : d ≠ x) (hdy : d ≠ y) (h : Heap) (v : Dec) :
    let r1 := run (addP c d (.cell x) (.cell y) false) h
    let r2 := run (addP c d (.cell x) (.cell y) false) (h.set d v)
    r1.1.2.1 = r2.1.2.1 ∧ (Delivered r1.1.2.1 → r1.1.1 = r2.1.1 ∧ r1.2 d = r2.2 d ∧ r1.1.2.2 = r2.1.2.2) := by
  have s1 := C05_add c d x y h
  have s2 := C05_add c d x y (h.set d v)
  simp only [Heap.set_other _ _ (Ne.symm hdx), Heap.set_other _ _ (Ne.symm hdy)] at s2
  exact opSpec_agree s1 s2

theorem C06_foot_sub (c : Ctx) (d x y : Cell) : Foot (footR x y) (footW d) (addP c d (.cell x) (.cell y) true) := by
  have hd : footW d d := rfl
  have hx : SrcOK (footR x y) (footW d) (.cell x) := SrcOK.read (Or.inl rfl)
  have hy : SrcOK (footR x y) (footW d) (.cell y) := SrcOK.read (Or.inr rfl)
  exact Foot_addP hd hx hy c true
theorem C06_writes_sub (c : Ctx) (d x y : Cell) : WritesOnly (· = d) (addP c d (.cell x) (.cell y) true) :=
  (C06_foot_sub c d x y).writesOnly
theorem C06_sub (c : Ctx) (d x y : Cell) (hdx : d ≠ x) (hdy : d ≠ y) (h : Heap) (v : Dec) :
    let r1 := run (addP c d (.cell x) (.cell y) true) h
    let r2 := run (addP c d (.cell x) (.cell y) true) (h.set d v)
    r1.1.2.1 = r2.1.2.1 ∧ (Delivered r1.1.2.1 → r1.1.1 = r2.1.1 ∧ r1.2 d = r2.2 d ∧ r1.1.2.2 = r2.1.2.2) := by
  have s1 := C05_sub c d x y h
  have s2 := C05_sub c d x y (h.set d v)
  simp only [Heap.set_other _ _ (Ne.symm hdx), Heap.set_other _ _ (Ne.symm hdy)] at s2
  exact opSpec_agree s1 s2

theorem C06_foot_mul (c : Ctx) (d x y : Cell) : Foot (footR x y) (footW d) (mulP c d (.cell x) (.cell y)) := by
  have hd : footW d d := rfl
  have hx : SrcOK (footR x y) (footW d) (.cell x) := SrcOK.read (Or.inl rfl)
  have hy : SrcOK (footR x y) (footW d) (.cell y) := SrcOK.read (Or.inr rfl)
  exact Foot_mulP hd hx hy c
theorem C06_writes_mul (c : Ctx) (d x y : Cell) : WritesOnly (· = d) (mulP c d (.cell x) (.cell y)) :=
  (C06_foot_mul c d x y).writesOnly
theorem C06_mul (c : Ctx) (d x y : Cell) (hdx : d ≠ x) (hdy : d ≠ y) (h : Heap) (v : Dec) :
    let r1 := run (mulP c d (.cell x) (.cell y)) h
    let r2 := run (mulP c d (.cell x) (.cell y)) (h.set d v)
    r1.1.2.1 = r2.1.2.1 ∧ (Delivered r1.1.2.1 → r1.1.1 = r2.1.1 ∧ r1.2 d = r2.2 d ∧ r1.1.2.2 = r2.1.2.2) := by
  have s1 := C05_mul c d x y h
  have s2 := C05_mul c d x y (h.set d v)
  simp only [Heap.set_other _ _ (Ne.symm hdx), Heap.set_other _ _ (Ne.symm hdy)] at s2
  exact opSpec_agree s1 s2

theorem C06_foot_quo (c : Ctx) (d x y : Cell) : Foot (footR x y) (footW d) (quoP c d (.cell x) (.cell y)) := by
  have hd : footW d d := rfl
  have hx : SrcOK (footR x y) (footW d) (.cell x) := SrcOK.read (Or.inl rfl)
  have hy : SrcOK (footR x y) (footW d) (.cell y) := SrcOK.read (Or.inr rfl)
  exact Foot_quoP hd hx hy c
theorem C06_writes_quo (c : Ctx) (d x y : Cell) : WritesOnly (· = d) (quoP c d (.cell x) (.cell y)) :=
  (C06_foot_quo c d x y).writesOnly
theorem C06_quo (c : Ctx) (d x y : Cell) (hdx : d ≠ x) (hdy : d ≠ y) (h : Heap) (v : Dec) :
    let r1 := run (quoP c d (.cell x) (.cell y)) h
    let r2 := run (quoP c d (.cell x) (.cell y)) (h.set d v)
    r1.1.2.1 = r2.1.2.1 ∧ (Delivered r1.1.2.1 → r1.1.1 = r2.1.1 ∧ r1.2 d = r2.2 d ∧ r1.1.2.2 = r2.1.2.2) := by
  have s1 := C05_quo c d x y h
  have s2 := C05_quo c d x y (h.set d v)
  simp only [Heap.set_other _ _ (Ne.symm hdx), Heap.set_other _ _ (Ne.symm hdy)] at s2
  exact opSpec_agree s1 s2

theorem C06_foot_quoint (c : Ctx) (d x y : Cell) : Foot (footR x y) (footW d) (quoIntegerP c d (.cell x) (.cell y)) := by
  have hd : footW d d := rfl
  have hx : SrcOK (footR x y) (footW d) (.cell x) := SrcOK.read (Or.inl rfl)
  have hy : SrcOK (footR x y) (footW d) (.cell y) := SrcOK.read (Or.inr rfl)
  exact Foot_quoIntegerP hd hx hy c
theorem C06_writes_quoint (c : Ctx) (d x y : Cell) : WritesOnly (· = d) (quoIntegerP c d (.cell x) (.cell y)) :=
  (C06_foot_quoint c d x y).writesOnly
theorem C06_quoint (c : Ctx) (d x y : Cell) (hdx : d ≠ x) (hdy : d ≠ y) (h : Heap) (v : Dec) :
    let r1 := run (quoIntegerP c d (.cell x) (.cell y)) h
    let r2 := run (quoIntegerP c d (.cell x) (.cell y)) (h.set d v)
    r1.1.2.1 = r2.1.2.1 ∧ (Delivered r1.1.2.1 → r1.1.1 = r2.1.1 ∧ r1.2 d = r2.2 d ∧ r1.1.2.2 = r2.1.2.2) := by
  have s1 := C05_quoint c d x y h
  have s2 := C05_quoint c d x y (h.set d v)
  simp only [Heap.set_other _ _ (Ne.symm hdx), Heap.set_other _ _ (Ne.symm hdy)] at s2
  exact opSpec_agree s1 s2

theorem C06_foot_rem (c : Ctx) (d x y : Cell) : Foot (footR x y) (footW d) (remP c d (.cell x) (.cell y)) := by
  have hd : footW d d := rfl
  have hx : SrcOK (footR x y) (footW d) (.cell x) := SrcOK.read (Or.inl rfl)
  have hy : SrcOK (footR x y) (footW d) (.cell y) := SrcOK.read (Or.inr rfl)
  exact Foot_remP hd hx hy c
theorem C06_writes_rem (c : Ctx) (d x y : Cell) : WritesOnly (· = d) (remP c d (.cell x) (.cell y)) :=
  (C06_foot_rem c d x y).writesOnly
theorem C06_rem (c : Ctx) (d x y : Cell) (hdx : d ≠ x) (hdy : d ≠ y) (h : Heap) (v : Dec) :
    let r1 := run (remP c d (.cell x) (.cell y)) h
    let r2 := run (remP c d (.cell x) (.cell y)) (h.set d v)
    r1.1.2.1 = r2.1.2.1 ∧ (Delivered r1.1.2.1 → r1.1.1 = r2.1.1 ∧ r1.2 d = r2.2 d ∧ r1.1.2.2 = r2.1.2.2) := by
  have s1 := C05_rem c d x y h
  have s2 := C05_rem c d x y (h.set d v)
  simp only [Heap.set_other _ _ (Ne.symm hdx), Heap.set_other _ _ (Ne.symm hdy)] at s2
  exact opSpec_agree s1 s2

theorem C06_foot_cmp (c : Ctx) (d x y : Cell) : Foot (footR x y) (footW d) (cmpOpP c d (.cell x) (.cell y)) := by
  have hd : footW d d := rfl
  have hx : SrcOK (footR x y) (footW d) (.cell x) := SrcOK.read (Or.inl rfl)
  have hy : SrcOK (footR x y) (footW d) (.cell y) := SrcOK.read (Or.inr rfl)
  exact Foot_cmpOpP hd hx hy c
theorem C06_writes_cmp (c : Ctx) (d x y : Cell) : WritesOnly (· = d) (cmpOpP c d (.cell x) (.cell y)) :=
  (C06_foot_cmp c d x y).writesOnly
theorem C06_cmp (c : Ctx) (d x y : Cell) (hdx : d ≠ x) (hdy : d ≠ y) (h : Heap) (v : Dec) :
    let r1 := run (cmpOpP c d (.cell x) (.cell y)) h
    let r2 := run (cmpOpP c d (.cell x) (.cell y)) (h.set d v)
    r1.1.2.1 = r2.1.2.1 ∧ (Delivered r1.1.2.1 → r1.1.1 = r2.1.1 ∧ r1.2 d = r2.2 d ∧ r1.1.2.2 = r2.1.2.2) := by
  have s1 := C05_cmp c d x y h
  have s2 := C05_cmp c d x y (h.set d v)
  simp only [Heap.set_other _ _ (Ne.symm hdx), Heap.set_other _ _ (Ne.symm hdy)] at s2
  exact opSpec_agree s1 s2

theorem C06_foot_abs (c : Ctx) (d x : Cell) : Foot (footR x x) (footW d) (absP c d (.cell x)) := by
  have hd : footW d d := rfl
  have hx : SrcOK (footR x x) (footW d) (.cell x) := SrcOK.read (Or.inl rfl)
  exact Foot_absP hd hx c
theorem C06_writes_abs (c : Ctx) (d x : Cell) : WritesOnly (· = d) (absP c d (.cell x)) :=
  (C06_foot_abs c d x).writesOnly
theorem C06_abs (c : Ctx) (d x : Cell) (hdx : d ≠ x) (h : Heap) (v : Dec) :
    let r1 := run (absP c d (.cell x)) h
    let r2 := run (absP c d (.cell x)) (h.set d v)
    r1.1.2.1 = r2.1.2.1 ∧ (Delivered r1.1.2.1 → r1.1.1 = r2.1.1 ∧ r1.2 d = r2.2 d ∧ r1.1.2.2 = r2.1.2.2) := by
  have s1 := C05_abs c d x h
  have s2 := C05_abs c d x (h.set d v)
  simp only [Heap.set_other _ _ (Ne.symm hdx)] at s2
  exact opSpec_agree s1 s2

theorem C06_foot_neg (c : Ctx) (d x : Cell) : Foot (footR x x) (footW d) (negP c d (.cell x)) := by
  have hd : footW d d := rfl
  have hx : SrcOK (footR x x) (footW d) (.cell x) := SrcOK.read (Or.inl rfl)
  exact Foot_negP hd hx c
theorem C06_writes_neg (c : Ctx) (d x : Cell) : WritesOnly (· = d) (negP c d (.cell x)) :=
  (C06_foot_neg c d x).writesOnly
theorem C06_neg (c : Ctx) (d x : Cell) (hdx : d ≠ x) (h : Heap) (v : Dec) :
    let r1 := run (negP c d (.cell x)) h
    let r2 := run (negP c d (.cell x)) (h.set d v)
    r1.1.2.1 = r2.1.2.1 ∧ (Delivered r1.1.2.1 → r1.1.1 = r2.1.1 ∧ r1.2 d = r2.2 d ∧ r1.1.2.2 = r2.1.2.2) := by
  have s1 := C05_neg c d x h
  have s2 := C05_neg c d x (h.set d v)
  simp only [Heap.set_other _ _ (Ne.symm hdx)] at s2
  exact opSpec_agree s1 s2

theorem C06_foot_round (c : Ctx) (d x : Cell) : Foot (footR x x) (footW d) (roundOpP c d (.cell x)) := by
  have hd : footW d d := rfl
  have hx : SrcOK (footR x x) (footW d) (.cell x) := SrcOK.read (Or.inl rfl)
  exact Foot_roundOpP hd hx c
theorem C06_writes_round (c : Ctx) (d x : Cell) : WritesOnly (· = d) (roundOpP c d (.cell x)) :=
  (C06_foot_round c d x).writesOnly
theorem C06_round (c : Ctx) (d x : Cell) (hdx : d ≠ x) (h : Heap) (v : Dec) :
    let r1 := run (roundOpP c d (.cell x)) h
    let r2 := run (roundOpP c d (.cell x)) (h.set d v)
    r1.1.2.1 = r2.1.2.1 ∧ (Delivered r1.1.2.1 → r1.1.1 = r2.1.1 ∧ r1.2 d = r2.2 d ∧ r1.1.2.2 = r2.1.2.2) := by
  have s1 := C05_round c d x h
  have s2 := C05_round c d x (h.set d v)
  simp only [Heap.set_other _ _ (Ne.symm hdx)] at s2
  exact opSpec_agree s1 s2

theorem C06_foot_reduce (c : Ctx) (d x : Cell) : Foot (footR x x) (footW d) (reduceP c d (.cell x)) := by
  have hd : footW d d := rfl
  have hx : SrcOK (footR x x) (footW d) (.cell x) := SrcOK.read (Or.inl rfl)
  exact Foot_reduceP hd hx c
theorem C06_writes_reduce (c : Ctx) (d x : Cell) : WritesOnly (· = d) (reduceP c d (.cell x)) :=
  (C06_foot_reduce c d x).writesOnly
theorem C06_reduce (c : Ctx) (d x : Cell) (hdx : d ≠ x) (h : Heap) (v : Dec) :
    let r1 := run (reduceP c d (.cell x)) h
    let r2 := run (reduceP c d (.cell x)) (h.set d v)
    r1.1.2.1 = r2.1.2.1 ∧ (Delivered r1.1.2.1 → r1.1.1 = r2.1.1 ∧ r1.2 d = r2.2 d ∧ r1.1.2.2 = r2.1.2.2) := by
  have s1 := C05_reduce c d x h
  have s2 := C05_reduce c d x (h.set d v)
  simp only [Heap.set_other _ _ (Ne.symm hdx)] at s2
  exact opSpec_agree s1 s2

theorem C06_foot_rtie (c : Ctx) (d x : Cell) : Foot (footR x x) (footW d) (rtieP c d (.cell x)) := by
  have hd : footW d d := rfl
  have hx : SrcOK (footR x x) (footW d) (.cell x) := SrcOK.read (Or.inl rfl)
  exact Foot_rtieP hd hx c
theorem C06_writes_rtie (c : Ctx) (d x : Cell) : WritesOnly (· = d) (rtieP c d (.cell x)) :=
  (C06_foot_rtie c d x).writesOnly
theorem C06_rtie (c : Ctx) (d x : Cell) (hdx : d ≠ x) (h : Heap) (v : Dec) :
    let r1 := run (rtieP c d (.cell x)) h
    let r2 := run (rtieP c d (.cell x)) (h.set d v)
    r1.1.2.1 = r2.1.2.1 ∧ (Delivered r1.1.2.1 → r1.1.1 = r2.1.1 ∧ r1.2 d = r2.2 d ∧ r1.1.2.2 = r2.1.2.2) := by
  have s1 := C05_rtie c d x h
  have s2 := C05_rtie c d x (h.set d v)
  simp only [Heap.set_other _ _ (Ne.symm hdx)] at s2
  exact opSpec_agree s1 s2

theorem C06_foot_rtiv (c : Ctx) (d x : Cell) : Foot (footR x x) (footW d) (rtivP c d (.cell x)) := by
  have hd : footW d d := rfl
  have hx : SrcOK (footR x x) (footW d) (.cell x) := SrcOK.read (Or.inl rfl)
  exact Foot_rtivP hd hx c
theorem C06_writes_rtiv (c : Ctx) (d x : Cell) : WritesOnly (· = d) (rtivP c d (.cell x)) :=
  (C06_foot_rtiv c d x).writesOnly
theorem C06_rtiv (c : Ctx) (d x : Cell) (hdx : d ≠ x) (h : Heap) (v : Dec) :
    let r1 := run (rtivP c d (.cell x)) h
    let r2 := run (rtivP c d (.cell x)) (h.set d v)
    r1.1.2.1 = r2.1.2.1 ∧ (Delivered r1.1.2.1 → r1.1.1 = r2.1.1 ∧ r1.2 d = r2.2 d ∧ r1.1.2.2 = r2.1.2.2) := by
  have s1 := C05_rtiv c d x h
  have s2 := C05_rtiv c d x (h.set d v)
  simp only [Heap.set_other _ _ (Ne.symm hdx)] at s2
  exact opSpec_agree s1 s2

theorem C06_foot_ceil (c : Ctx) (d x : Cell) : Foot (footR x x) (footW d) (ceilP c d (.cell x)) := by
  have hd : footW d d := rfl
  have hx : SrcOK (footR x x) (footW d) (.cell x) := SrcOK.read (Or.inl rfl)
  exact Foot_ceilP hd hx c
theorem C06_writes_ceil (c : Ctx) (d x : Cell) : WritesOnly (· = d) (ceilP c d (.cell x)) :=
  (C06_foot_ceil c d x).writesOnly
theorem C06_ceil (c : Ctx) (d x : Cell) (hdx : d ≠ x) (h : Heap) (v : Dec) :
    let r1 := run (ceilP c d (.cell x)) h
    let r2 := run (ceilP c d (.cell x)) (h.set d v)
    r1.1.2.1 = r2.1.2.1 ∧ (Delivered r1.1.2.1 → r1.1.1 = r2.1.1 ∧ r1.2 d = r2.2 d ∧ r1.1.2.2 = r2.1.2.2) := by
  have s1 := C05_ceil c d x h
  have s2 := C05_ceil c d x (h.set d v)
  simp only [Heap.set_other _ _ (Ne.symm hdx)] at s2
  exact opSpec_agree s1 s2

theorem C06_foot_floor (c : Ctx) (d x : Cell) : Foot (footR x x) (footW d) (floorP c d (.cell x)) := by
  have hd : footW d d := rfl
  have hx : SrcOK (footR x x) (footW d) (.cell x) := SrcOK.read (Or.inl rfl)
  exact Foot_floorP hd hx c
theorem C06_writes_floor (c : Ctx) (d x : Cell) : WritesOnly (· = d) (floorP c d (.cell x)) :=
  (C06_foot_floor c d x).writesOnly
theorem C06_floor (c : Ctx) (d x : Cell) (hdx : d ≠ x) (h : Heap) (v : Dec) :
    let r1 := run (floorP c d (.cell x)) h
    let r2 := run (floorP c d (.cell x)) (h.set d v)
    r1.1.2.1 = r2.1.2.1 ∧ (Delivered r1.1.2.1 → r1.1.1 = r2.1.1 ∧ r1.2 d = r2.2 d ∧ r1.1.2.2 = r2.1.2.2) := by
  have s1 := C05_floor c d x h
  have s2 := C05_floor c d x (h.set d v)
  simp only [Heap.set_other _ _ (Ne.symm hdx)] at s2
  exact opSpec_agree s1 s2

theorem C06_foot_quantize (c : Ctx) (d x : Cell) (exp : Int) :
    Foot (footR x x) (footW d) (quantizeP c d (.cell x) exp) := by
  have hd : footW d d := rfl
  have hx : SrcOK (footR x x) (footW d) (.cell x) := SrcOK.read (Or.inl rfl)
  exact Foot_quantizeP hd hx c exp
theorem C06_writes_quantize (c : Ctx) (d x : Cell) (exp : Int) : WritesOnly (· = d) (quantizeP c d (.cell x) exp) :=
  (C06_foot_quantize c d x exp).writesOnly
theorem C06_quantize (c : Ctx) (d x : Cell) (exp : Int) (hdx : d ≠ x) (h : Heap) (v : Dec) :
    let r1 := run (quantizeP c d (.cell x) exp) h
    let r2 := run (quantizeP c d (.cell x) exp) (h.set d v)
    r1.1.2.1 = r2.1.2.1 ∧ (Delivered r1.1.2.1 → r1.1.1 = r2.1.1 ∧ r1.2 d = r2.2 d ∧ r1.1.2.2 = r2.1.2.2) := by
  have s1 := C05_quantize c d x exp h
  have s2 := C05_quantize c d x exp (h.set d v)
  simp only [Heap.set_other _ _ (Ne.symm hdx)] at s2
  exact opSpec_agree s1 s2

/-! ## the `Decimal` methods -/

theorem C06_writes_set (d x : Cell) : WritesOnly (· = d) (setDec d (.cell x)) :=
  (Foot_setDec (R := footR x x) (W := footW d) rfl (SrcOK.read (Or.inl rfl))).writesOnly
theorem C06_writes_negDec (d x : Cell) : WritesOnly (· = d) (negDec d (.cell x)) :=
  (Foot_negDec (R := footR x x) (W := footW d) rfl (SrcOK.read (Or.inl rfl))).writesOnly
theorem C06_writes_absDec (d x : Cell) : WritesOnly (· = d) (absDec d (.cell x)) :=
  (Foot_absDec (R := footR x x) (W := footW d) rfl (SrcOK.read (Or.inl rfl))).writesOnly
theorem C06_writes_reduceDec (d x : Cell) : WritesOnly (· = d) (reduceDec d (.cell x)) :=
  (Foot_reduceDec (R := footR x x) (W := footW d) rfl (SrcOK.read (Or.inl rfl))).writesOnly
/-- `Modf` writes only its two outputs -/
theorem C06_writes_modf (r : Cell) (integ frac : Option Cell) :
    WritesOnly (fun cell => integ = some cell ∨ frac = some cell) (modfP (.cell r) integ frac) :=
  (Foot_modfP (R := footR r r) (W := fun cell => integ = some cell ∨ frac = some cell)
    (SrcOK.read (Or.inl rfl)) (fun _ e => Or.inl e) (fun _ e => Or.inr e)).writesOnly
theorem C06_writes_Round (c : Ctx) (d x : Cell) (b : Bool) : WritesOnly (· = d) (roundP c d (.cell x) b) :=
  (Foot_roundP (R := footR x x) (W := footW d) rfl (SrcOK.read (Or.inl rfl)) c b).writesOnly
theorem C06_writes_setExponent (c : Ctx) (d : Cell) (nd : Option Nat) (res : Cond) (xs : List Int) :
    WritesOnly (· = d) (setExponentP c d nd res xs) :=
  (Foot_setExponentP (R := fun _ => False) (W := footW d) rfl c nd res xs).writesOnly

end Apd.Props

#print axioms Apd.Props.C06_add
#print axioms Apd.Props.C06_writes_add
#print axioms Apd.Props.C06_sub
#print axioms Apd.Props.C06_writes_sub
#print axioms Apd.Props.C06_mul
#print axioms Apd.Props.C06_writes_mul
#print axioms Apd.Props.C06_quo
#print axioms Apd.Props.C06_writes_quo
#print axioms Apd.Props.C06_quoint
#print axioms Apd.Props.C06_writes_quoint
#print axioms Apd.Props.C06_rem
#print axioms Apd.Props.C06_writes_rem
#print axioms Apd.Props.C06_cmp
#print axioms Apd.Props.C06_writes_cmp
#print axioms Apd.Props.C06_abs
#print axioms Apd.Props.C06_writes_abs
#print axioms Apd.Props.C06_neg
#print axioms Apd.Props.C06_writes_neg
#print axioms Apd.Props.C06_round
#print axioms Apd.Props.C06_writes_round
#print axioms Apd.Props.C06_reduce
#print axioms Apd.Props.C06_writes_reduce
#print axioms Apd.Props.C06_rtie
#print axioms Apd.Props.C06_writes_rtie
#print axioms Apd.Props.C06_rtiv
#print axioms Apd.Props.C06_writes_rtiv
#print axioms Apd.Props.C06_ceil
#print axioms Apd.Props.C06_writes_ceil
#print axioms Apd.Props.C06_floor
#print axioms Apd.Props.C06_writes_floor
#print axioms Apd.Props.C06_quantize
#print axioms Apd.Props.C06_writes_quantize
#print axioms Apd.Props.C06_ctxOp
#print axioms Apd.Props.C06_ctxOp_operands_only
#print axioms Apd.Props.C06_writes_ctxOp
#print axioms Apd.Props.C06_frame_ctxOp
#print axioms Apd.Props.C06_writes_modf
#print axioms Apd.Props.C06_writes_Round
