import ApdVerif.Props.C20
import ApdVerif.Props.Mul
import ApdVerif.Props.Quo
import ApdVerif.Props.RoundCore
import Mathlib.Tactic.SplitIfs
/-!
# C20 — scaling law: multiplying the exact value by a power of ten shifts the rounded result

The modes stream checks on implementation outputs that scaling the operands by `10^k` scales the result
(`rel scale` lines) as long as both results are in the normal range.  Here it is a theorem: first about the
specification (`specRound`), then about the model through the C01 theorems.
-/
namespace Apd.Props
open Apd Apd.Oracle

/-- the scaling law of the specification, without side conditions on the exact value (an exact zero keeps
its exponent in `specRound`, so it scales too; `den` plays no role) -/
theorem C20_scale_spec_any (c : Ctx) (v : Exact) (k : Int) :
    let s := specRound c v
    let s' := specRound c { v with e10 := v.e10 + k }
    s.subnormal = false → s'.subnormal = false → s.inf = false → s'.inf = false →
    s'.m = s.m ∧ s'.q = s.q + k ∧ s'.inexact = s.inexact ∧ s'.neg = s.neg := by
  intro s s' hs hs' hi hi'
  by_cases hn : v.num = 0
  · have e : s = { neg := v.neg, m := 0, q := v.e10 } := by
      show specRound c v = _
      unfold specRound; simp [hn]
    have e' : s' = { neg := v.neg, m := 0, q := v.e10 + k } := by
      show specRound c { v with e10 := v.e10 + k } = _
      unfold specRound; simp [hn]
    rw [e, e']; simp
  have hn0 : (v.num == 0) = false := by simp; omega
  have key : ∀ (e q : Int), roundAt c.mode v.neg v.num v.den (e + k) (q + k) = roundAt c.mode v.neg v.num v.den e q := by
    intro e q
    unfold roundAt
    have : q + k - (e + k) = q - e := by omega
    rw [this]
  -- generic description of `specRound` on a non-subnormal, non-overflowing value
  have gen : ∀ (e : Int), (specRound c { v with e10 := e }).subnormal = false →
      (specRound c { v with e10 := e }).inf = false →
      specRound c { v with e10 := e } =
        { neg := v.neg, m := (roundAt c.mode v.neg v.num v.den e (adjRat v.num v.den + e - (c.prec : Int) + 1)).1,
          q := adjRat v.num v.den + e - (c.prec : Int) + 1,
          inexact := (roundAt c.mode v.neg v.num v.den e (adjRat v.num v.den + e - (c.prec : Int) + 1)).2,
          subnormal := false } := by
    intro e h1 h2
    unfold specRound at h1 h2 ⊢
    simp only [hn0, Bool.false_eq_true, if_false] at h1 h2 ⊢
    have hsub : decide (adjRat v.num v.den + e < c.emin) = false := by
      split at h1 <;> exact h1
    have hge : c.emin ≤ adjRat v.num v.den + e := by simpa using hsub
    have hq : max (adjRat v.num v.den + e - (c.prec : Int) + 1) (c.emin - (c.prec : Int) + 1)
        = adjRat v.num v.den + e - (c.prec : Int) + 1 := by omega
    rw [hq] at h2 ⊢
    rw [hsub]
    split
    · rename_i hc
      rw [if_pos hc] at h2
      simp at h2
    · rfl
  have e0 : s = specRound c { v with e10 := v.e10 } := rfl
  have g := gen v.e10 hs hi
  have g' := gen (v.e10 + k) hs' hi'
  have hq : adjRat v.num v.den + (v.e10 + k) - (c.prec : Int) + 1
      = (adjRat v.num v.den + v.e10 - (c.prec : Int) + 1) + k := by omega
  rw [hq, key] at g'
  change specRound c { v with e10 := v.e10 } = _ at g
  change specRound c { v with e10 := v.e10 + k } = _ at g'
  show (specRound c { v with e10 := v.e10 + k }).m = (specRound c { v with e10 := v.e10 }).m ∧ _
  simp only [show s' = specRound c { v with e10 := v.e10 + k } from rfl, e0]
  rw [g, g']
  simp

set_option linter.unusedVariables false in
/-- **scaling law of the specification**: when neither the value nor the scaled value is subnormal or
overflows, the rounded coefficient and the Inexact verdict are the same and the exponent is shifted by `k` -/
theorem C20_scale_spec (c : Ctx) (v : Exact) (k : Int) (hn : 0 < v.num) (hd : 0 < v.den) :
    let s := specRound c v
    let s' := specRound c { v with e10 := v.e10 + k }
    s.subnormal = false → s'.subnormal = false → s.inf = false → s'.inf = false →
    s'.m = s.m ∧ s'.q = s.q + k ∧ s'.inexact = s.inexact ∧ s'.neg = s.neg :=
  C20_scale_spec_any c v k

/-- a finite decimal can only match a specification result that did not overflow -/
theorem matches_finite_inf (s : SpecOut) (d : Dec) (hd : d.form = .finite) (h : s.matches d = true) :
    s.inf = false := by
  unfold SpecOut.matches at h
  rw [hd] at h
  simp only [Bool.and_eq_true, Bool.not_eq_true'] at h
  exact h.1.1

/-- shifting the decimal back by `k` against shifting the specified exponent forward by `k` -/
theorem matches_shift (s s' : SpecOut) (d : Dec) (k : Int) (hd : d.form = .finite)
    (hinf : s.inf = s'.inf) (hneg : s'.neg = s.neg) (hm : s'.m = s.m) (hq : s'.q = s.q + k)
    (h : s'.matches d = true) : s.matches { d with exp := d.exp - k } = true := by
  unfold SpecOut.matches at h ⊢
  simp only [hd] at h ⊢
  rw [hinf, ← hneg, ← hm]
  have e1 : d.exp - k - s.q = d.exp - s'.q := by omega
  have e2 : s.q - (d.exp - k) = s'.q - d.exp := by omega
  have e3 : (d.exp - k ≥ s.q) ↔ (d.exp ≥ s'.q) := by omega
  rw [e1, e2]
  simp only [e3]
  exact h

/-- transfer of the scaling law through `Agrees`: two delivered finite outcomes that agree with the
specification on an exact value and on the same value scaled by `10^k`, neither Subnormal -/
theorem scale_of_agrees (c : Ctx) (ex : Exact) (k : Int) (d d' : Dec) (fl fl' : Cond)
    (A : Agrees c ex d fl) (A' : Agrees c { ex with e10 := ex.e10 + k } d' fl')
    (hf : d.form = .finite) (hf' : d'.form = .finite)
    (hsub : fl.subnormal = false) (hsub' : fl'.subnormal = false) :
    (specRound c ex).matches { d' with exp := d'.exp - k } = true ∧ fl'.inexact = fl.inexact := by
  obtain ⟨hm, hfl, _⟩ := A
  obtain ⟨hm', hfl', _⟩ := A'
  have hi := matches_finite_inf _ _ hf hm
  have hi' := matches_finite_inf _ _ hf' hm'
  have hs : (specRound c ex).subnormal = false := by rw [← hfl.2.1]; exact hsub
  have hs' : (specRound c { ex with e10 := ex.e10 + k }).subnormal = false := by
    rw [← hfl'.2.1]; exact hsub'
  obtain ⟨e1, e2, e3, e4⟩ := C20_scale_spec_any c ex k hs hs' hi hi'
  refine ⟨matches_shift _ _ _ k hf' (by rw [hi, hi']) e4 e1 e2 hm', ?_⟩
  rw [hfl'.1, hfl.1, e3]

set_option linter.unusedVariables false in
/-- **scaling law for Mul on the model**: scaling one operand of a product by `10^k` shifts the delivered
result, when both results are delivered, finite, and neither raised Subnormal or Overflow -/
theorem C20_scale_mul (c : Ctx) (hc : c.WF) (x y : Dec) (k : Int) (hx : x.form = .finite) (hy : y.form = .finite)
    (hx0 : x.coeff ≠ 0) (hy0 : y.coeff ≠ 0) :
    let o := mulOp c x y
    let o' := mulOp c { x with exp := x.exp + k } y
    NoSys o.fl → NoSys o'.fl → Delivered o.err → Delivered o'.err →
    o.d.form = .finite → o'.d.form = .finite → o.fl.subnormal = false → o'.fl.subnormal = false →
    (specRound c (exactMul x y)).matches { o'.d with exp := o'.d.exp - k } = true ∧ o'.fl.inexact = o.fl.inexact := by
  intro o o' _ _ hdel hdel' hf hf' hsub hsub'
  have A := C01_mul c hc x y hx hy hdel
  have A' := C01_mul c hc { x with exp := x.exp + k } y hx hy hdel'
  have ev : exactMul { x with exp := x.exp + k } y = { exactMul x y with e10 := (exactMul x y).e10 + k } := by
    simp only [exactMul]
    congr 1
    omega
  rw [ev] at A'
  exact scale_of_agrees c _ k _ _ _ _ A A' hf hf' hsub hsub'

/-- the same law when the second operand is scaled -/
theorem C20_scale_mul_right (c : Ctx) (hc : c.WF) (x y : Dec) (k : Int) (hx : x.form = .finite) (hy : y.form = .finite) :
    let o := mulOp c x y
    let o' := mulOp c x { y with exp := y.exp + k }
    Delivered o.err → Delivered o'.err →
    o.d.form = .finite → o'.d.form = .finite → o.fl.subnormal = false → o'.fl.subnormal = false →
    (specRound c (exactMul x y)).matches { o'.d with exp := o'.d.exp - k } = true ∧ o'.fl.inexact = o.fl.inexact := by
  intro o o' hdel hdel' hf hf' hsub hsub'
  have A := C01_mul c hc x y hx hy hdel
  have A' := C01_mul c hc x { y with exp := y.exp + k } hx hy hdel'
  have ev : exactMul x { y with exp := y.exp + k } = { exactMul x y with e10 := (exactMul x y).e10 + k } := by
    simp only [exactMul]
    congr 1
    omega
  rw [ev] at A'
  exact scale_of_agrees c _ k _ _ _ _ A A' hf hf' hsub hsub'

/-- **scaling law for Quo on the model**: scaling the dividend by `10^k` shifts the delivered quotient -/
theorem C20_scale_quo (c : Ctx) (hc : c.WF) (x y : Dec) (k : Int) (hx : x.form = .finite) (hy : y.form = .finite)
    (hy0 : y.coeff ≠ 0) :
    let o := quoOp c x y
    let o' := quoOp c { x with exp := x.exp + k } y
    Delivered o.err → Delivered o'.err →
    o.d.form = .finite → o'.d.form = .finite → o.fl.subnormal = false → o'.fl.subnormal = false →
    (specRound c (exactQuo x y)).matches { o'.d with exp := o'.d.exp - k } = true ∧ o'.fl.inexact = o.fl.inexact := by
  intro o o' hdel hdel' hf hf' hsub hsub'
  have A := C01_quo c hc x y hx hy hy0 hdel
  have A' := C01_quo c hc { x with exp := x.exp + k } y hx hy hy0 hdel'
  have ev : exactQuo { x with exp := x.exp + k } y = { exactQuo x y with e10 := (exactQuo x y).e10 + k } := by
    simp only [exactQuo]
    congr 1
    omega
  rw [ev] at A'
  exact scale_of_agrees c _ k _ _ _ _ A A' hf hf' hsub hsub'

/-- scaling the divisor by `10^k` shifts the delivered quotient by `-k` -/
theorem C20_scale_quo_right (c : Ctx) (hc : c.WF) (x y : Dec) (k : Int) (hx : x.form = .finite) (hy : y.form = .finite)
    (hy0 : y.coeff ≠ 0) :
    let o := quoOp c x y
    let o' := quoOp c x { y with exp := y.exp + k }
    Delivered o.err → Delivered o'.err →
    o.d.form = .finite → o'.d.form = .finite → o.fl.subnormal = false → o'.fl.subnormal = false →
    (specRound c (exactQuo x y)).matches { o'.d with exp := o'.d.exp - (-k) } = true ∧ o'.fl.inexact = o.fl.inexact := by
  intro o o' hdel hdel' hf hf' hsub hsub'
  have A := C01_quo c hc x y hx hy hy0 hdel
  have A' := C01_quo c hc x { y with exp := y.exp + k } hx hy hy0 hdel'
  have ev : exactQuo x { y with exp := y.exp + k } = { exactQuo x y with e10 := (exactQuo x y).e10 + (-k) } := by
    simp only [exactQuo]
    congr 1
    omega
  rw [ev] at A'
  exact scale_of_agrees c _ (-k) _ _ _ _ A A' hf hf' hsub hsub'

/-- the exact sum of two operands both scaled by `10^k` is the exact sum scaled by `10^k` -/
theorem exactAdd_scale (c : Ctx) (x y : Dec) (sub : Bool) (k : Int) :
    exactAdd c { x with exp := x.exp + k } { y with exp := y.exp + k } sub
      = { exactAdd c x y sub with e10 := (exactAdd c x y sub).e10 + k } := by
  unfold exactAdd
  have e0 : min (x.exp + k) (y.exp + k) = min x.exp y.exp + k := by omega
  have e1 : x.exp + k - (min x.exp y.exp + k) = x.exp - min x.exp y.exp := by omega
  have e2 : y.exp + k - (min x.exp y.exp + k) = y.exp - min x.exp y.exp := by omega
  simp only [e0, e1, e2]
  split_ifs <;> rfl

/-- **scaling law for Add/Sub on the model**: scaling both operands by `10^k` shifts the delivered sum
(an exact zero result included) -/
theorem C20_scale_add (c : Ctx) (hc : c.WF) (x y : Dec) (sub : Bool) (k : Int)
    (hx : x.form = .finite) (hy : y.form = .finite) :
    let o := addOp c x y sub
    let o' := addOp c { x with exp := x.exp + k } { y with exp := y.exp + k } sub
    Delivered o.err → Delivered o'.err →
    o.d.form = .finite → o'.d.form = .finite → o.fl.subnormal = false → o'.fl.subnormal = false →
    (specRound c (exactAdd c x y sub)).matches { o'.d with exp := o'.d.exp - k } = true ∧ o'.fl.inexact = o.fl.inexact := by
  intro o o' hdel hdel' hf hf' hsub hsub'
  have A := C01_add c hc x y sub hx hy hdel
  have A' := C01_add c hc { x with exp := x.exp + k } { y with exp := y.exp + k } sub hx hy hdel'
  rw [exactAdd_scale] at A'
  exact scale_of_agrees c _ k _ _ _ _ A A' hf hf' hsub hsub'

/-- non-vacuity -/
example : (specRound { prec := 3, emax := 9, emin := -9 } { neg := false, num := 12345, den := 1, e10 := 0 }).m = 123 := by decide

#print axioms C20_scale_spec
#print axioms C20_scale_mul
#print axioms C20_scale_mul_right
#print axioms C20_scale_quo
#print axioms C20_scale_quo_right
#print axioms C20_scale_add

end Apd.Props
