import ApdVerif.Lemmas.C13Lemmas
/-!
# C13 — text round trips: `parse ∘ append = id`

`Text.parse` returns the decimal with its exponent field still `0` and the summed exponent
separately (what `setString` hands to `setExponent`); `reparsed d` is that pair for `d`.
-/
namespace Apd.Props
open Apd Apd.Text Apd.TextL

/-- what the parser must hand back for the text of `d`: for a finite `d` its sign and coefficient
and, separately, its exponent; for NaN / sNaN / Infinity the form and the sign only (apd has no
payloads: coefficient and exponent of the parsed special are 0) -/
def reparsed (d : Dec) : Dec × Int :=
  if d.form = .finite then ({ form := .finite, neg := d.neg, exp := 0, coeff := d.coeff }, d.exp)
  else ({ form := d.form, neg := d.neg, exp := 0, coeff := 0 }, 0)

theorem parseL_special (d : Dec) (verb : Char) (h : d.form ≠ .finite) :
    parseL (appendL d verb) = some (reparsed d) := by
  unfold appendL reparsed
  cases hf : d.form <;> simp only [hf] at h ⊢
  · exact absurd rfl h
  all_goals (cases d.neg <;> rfl)

theorem parseL_E (d : Dec) (h : d.WF) (hf : d.form = .finite) (fmt : Char) (hfmt : fmt = 'e' ∨ fmt = 'E') :
    parseL ((if d.neg then ['-'] else []) ++ fmtE fmt d (natDigits d.coeff)) = some (reparsed d) := by
  have hD := Digs.natDigits d.coeff
  have hne := natDigits_ne_nil d.coeff
  obtain ⟨h1, h2, h3, h4⟩ := h
  rw [parseL_signed_body d.neg (fmtE_head fmt d hD hne), asciiLower_fmtE fmt hfmt d hD,
    parseNumeric_fmtE d.neg d hD hne (by rw [natDigits_length]; omega) (by rw [natDigits_length]; omega),
    natDigits_val]
  simp [reparsed, hf]

theorem parseL_F_nonpos (d : Dec) (hf : d.form = .finite) (he : d.exp ≤ 0) :
    parseL ((if d.neg then ['-'] else []) ++ fmtF d (natDigits d.coeff)) = some (reparsed d) := by
  have hD := Digs.natDigits d.coeff
  have hne := natDigits_ne_nil d.coeff
  rw [parseL_signed_body d.neg (fmtF_head d hD hne), asciiLower_fmtF d hD,
    parseNumeric_fmtF d.neg d hD hne, natDigits_val]
  by_cases h0 : d.exp < 0
  · simp [reparsed, hf, h0]
  · have : d.exp = 0 := by omega
    simp [reparsed, hf, this]

theorem ite_cases {α : Type} (P : Prop) [Decidable P] (a b : α) (Q : α → Prop)
    (ha : P → Q a) (hb : ¬ P → Q b) : Q (if P then a else b) := by
  split
  · exact ha ‹_›
  · exact hb ‹_›

theorem parseL_roundtrip (d : Dec) (h : d.WF) (verb : Char)
    (hv : verb = 'G' ∨ verb = 'g' ∨ verb = 'E' ∨ verb = 'e') :
    parseL (appendL d verb) = some (reparsed d) := by
  by_cases hf : d.form = .finite
  · unfold appendL
    simp only [hf]
    rcases hv with rfl | rfl | rfl | rfl
    · simp only [show ('G' : Char) ≠ 'e' by decide, show ('G' : Char) ≠ 'E' by decide, show ('G' : Char) ≠ 'f' by decide,
        show ('G' : Char) ≠ 'g' by decide, or_true, if_true, if_false, or_self]
      refine ite_cases _ _ _ (fun x => parseL x = some (reparsed d)) (fun hc => ?_) (fun _ => ?_)
      · exact parseL_F_nonpos d hf hc.1
      · exact parseL_E d h hf 'E' (Or.inr rfl)
    · simp only [show ('g' : Char) ≠ 'e' by decide, show ('g' : Char) ≠ 'E' by decide, show ('g' : Char) ≠ 'f' by decide,
        true_or, if_true, if_false, or_self]
      refine ite_cases _ _ _ (fun x => parseL x = some (reparsed d)) (fun hc => ?_) (fun _ => ?_)
      · exact parseL_F_nonpos d hf hc.1
      · exact parseL_E d h hf 'e' (Or.inl rfl)
    · simp only [or_true, if_true]
      exact parseL_E d h hf 'E' (Or.inr rfl)
    · simp only [true_or, if_true]
      exact parseL_E d h hf 'e' (Or.inl rfl)
  · exact parseL_special d verb hf

/-- **C13 (G, g, E, e)**: for every decimal within the package limits, of any form and sign,
parsing `Text(verb)` returns the same form and sign and — for finite values — the same coefficient
and the same exponent; for NaN, sNaN and Infinity the parsed coefficient and exponent are 0. -/
theorem C13_roundtrip_G (d : Dec) (h : d.WF) (verb : Char)
    (hv : verb = 'G' ∨ verb = 'g' ∨ verb = 'E' ∨ verb = 'e') :
    Text.parse (Text.append d verb) = some (reparsed d) := by
  unfold Text.parse Text.append
  rw [String.toList_ofList]
  exact parseL_roundtrip d h verb hv

/-- the same, field by field -/
theorem C13_roundtrip_G_fields (d : Dec) (h : d.WF) (verb : Char)
    (hv : verb = 'G' ∨ verb = 'g' ∨ verb = 'E' ∨ verb = 'e') :
    ∃ d' e, Text.parse (Text.append d verb) = some (d', e) ∧
      d'.form = d.form ∧ d'.neg = d.neg ∧ d'.exp = 0 ∧
      (d.form = .finite → d'.coeff = d.coeff ∧ e = d.exp) ∧
      (d.form ≠ .finite → d'.coeff = 0 ∧ e = 0) := by
  refine ⟨(reparsed d).1, (reparsed d).2, C13_roundtrip_G d h verb hv, ?_⟩
  unfold reparsed
  by_cases hf : d.form = .finite <;> simp [hf]

theorem C13_roundtrip_string (d : Dec) (h : d.WF) : Text.parse (Text.string d) = some (reparsed d) :=
  C13_roundtrip_G d h 'G' (Or.inl rfl)

/-! ## 'f' -/

/-- what the parser returns for the plain text of a finite `d`: the same sign; exponent `min d.exp 0`
and the coefficient scaled accordingly -/
def reparsedF (d : Dec) : Dec × Int :=
  if d.form = .finite then
    ({ form := .finite, neg := d.neg, exp := 0, coeff := if d.exp < 0 then d.coeff else d.coeff * 10 ^ d.exp.toNat },
     if d.exp < 0 then d.exp else 0)
  else reparsed d

theorem parseL_roundtrip_f (d : Dec) : parseL (appendL d 'f') = some (reparsedF d) := by
  by_cases hf : d.form = .finite
  · unfold appendL
    simp only [hf, show ('f' : Char) ≠ 'e' by decide, show ('f' : Char) ≠ 'E' by decide, or_self, if_true, if_false]
    have hD := Digs.natDigits d.coeff
    have hne := natDigits_ne_nil d.coeff
    rw [parseL_signed_body d.neg (fmtF_head d hD hne), asciiLower_fmtF d hD,
      parseNumeric_fmtF d.neg d hD hne, natDigits_val]
    simp [reparsedF, hf]
  · rw [parseL_special d 'f' hf]; simp [reparsedF, hf]

/-- **C13 ('f')**: for every decimal (no limits needed) parsing `Text('f')` gives the same form and
sign and, for a finite value, the exponent `min(exp, 0)` with the coefficient scaled by `10^max(exp,0)`… -/
theorem C13_roundtrip_f (d : Dec) : Text.parse (Text.append d 'f') = some (reparsedF d) := by
  unfold Text.parse Text.append
  rw [String.toList_ofList]
  exact parseL_roundtrip_f d

/-- … that is, the same numeric value `coeff × 10^exp` and the same sign: the parsed exponent `e`
is `≤ d.exp` and the parsed coefficient is `d.coeff × 10^(d.exp - e)`. -/
theorem C13_roundtrip_f_value (d : Dec) :
    ∃ d' e, Text.parse (Text.append d 'f') = some (d', e) ∧
      d'.form = d.form ∧ d'.neg = d.neg ∧ d'.exp = 0 ∧
      (d.form = .finite → e ≤ d.exp ∧ d'.coeff = d.coeff * 10 ^ (d.exp - e).toNat) ∧
      (d.form ≠ .finite → d'.coeff = 0 ∧ e = 0) := by
  refine ⟨(reparsedF d).1, (reparsedF d).2, C13_roundtrip_f d, ?_⟩
  unfold reparsedF reparsed
  by_cases hf : d.form = .finite
  · by_cases he : d.exp < 0
    · simp [hf, he]
    · simp [hf, he]; omega
  · simp [hf]

/-! ## the whole cycle through `SetString` under `BaseContext` -/

theorem setExponent_base (d : Dec) (h : d.WF) (hf : d.form = .finite) :
    setExponent baseCtx { form := .finite, neg := d.neg, exp := 0, coeff := d.coeff } {} [d.exp] = (d, {}) := by
  obtain ⟨h1, h2, h3, h4⟩ := h
  have e1 : ¬ d.exp > 100000 := by omega
  have e2 : ¬ d.exp < -100000 := by omega
  have e3 : ¬ d.exp + (ndigits d.coeff : Int) - 1 > 100000 := by omega
  have e4 : ¬ d.exp + (ndigits d.coeff : Int) - 1 < -100000 := by omega
  simp only [setExponent, checkXs, sumInts, baseCtx, MaxExponent, MinExponent, seFinish, e1, e2, e3, e4,
    if_false, Int.add_zero]
  cases d
  simp at hf
  simp [hf]

theorem ctxRound_base (d : Dec) (h : d.WF) : ctxRound baseCtx d = (d, {}) := by
  obtain ⟨h1, h2, h3, h4⟩ := h
  have e1 : ¬ d.exp > 100000 := by omega
  have e2 : ¬ d.exp < -100000 := by omega
  have e3 : ¬ d.exp + (ndigits d.coeff : Int) - 1 > 100000 := by omega
  have e4 : ¬ d.exp + (ndigits d.coeff : Int) - 1 < -100000 := by omega
  by_cases hf : d.form = .finite
  · rw [ctxRound_finite _ _ hf]
    simp only [ctxRoundFin, roundXFin, baseCtx, setExponent, checkXs, sumInts, MaxExponent, MinExponent, seFinish,
      e1, e2, e3, e4, if_false, Int.add_zero]
    simp
  · exact ctxRound_nonfinite _ _ hf

/-- the value `SetString` stores for the text of `d` -/
def stored (d : Dec) : Dec :=
  if d.form = .finite then d else { form := d.form, neg := d.neg, exp := 0, coeff := 0 }

/-- **C13, whole cycle**: `Decimal.setString` under `BaseContext` on `Text(verb)` of a decimal
within the limits stores the identical decimal (for specials: form and sign), no flags, no error. -/
theorem C13_setString_roundtrip (d : Dec) (h : d.WF) (verb : Char)
    (hv : verb = 'G' ∨ verb = 'g' ∨ verb = 'E' ∨ verb = 'e') :
    Text.setString baseCtx (Text.append d verb) = some { d := stored d, fl := {}, err := .none } := by
  unfold Text.setString
  rw [C13_roundtrip_G d h verb hv]
  unfold reparsed stored
  by_cases hf : d.form = .finite
  · simp only [hf, if_true]
    rw [setExponent_base d h hf]
    rfl
  · simp [hf]

/-- … and so does `Context.SetString` / `NewFromString` / `apd.NewFromString`. -/
theorem C13_ctxSetString_roundtrip (d : Dec) (h : d.WF) (verb : Char)
    (hv : verb = 'G' ∨ verb = 'g' ∨ verb = 'E' ∨ verb = 'e') :
    Text.ctxSetString baseCtx (Text.append d verb) = some { d := stored d, fl := {}, err := .none } := by
  unfold Text.ctxSetString
  rw [C13_setString_roundtrip d h verb hv]
  have hw : (stored d).WF := by
    unfold stored
    by_cases hf : d.form = .finite
    · simpa [hf] using h
    · simp only [hf, if_false]; unfold Dec.WF; simp only []; decide
  simp only [if_true]
  rw [ctxRound_base _ hw]
  rfl

#print axioms C13_roundtrip_G
#print axioms C13_roundtrip_f
#print axioms C13_roundtrip_f_value
#print axioms C13_setString_roundtrip
#print axioms C13_ctxSetString_roundtrip
#print axioms C13_roundtrip_G_fields

end Apd.Props
