import ApdVerif.Lemmas.CbrtConvMain
/-!
# C04 — `Context.Cbrt` always returns (no hang)

With the repair of the scaling loops (`if err := ed.Err(); err != nil { return 0, err }` after every
multiplication) a round of a scaling loop either leaves through the error exit or multiplies `z` by `8` / `0.125` with
one rounding at `2P+2 ≥ 2` digits — a factor of at least `7` / at most `1/7`.  A multiplication that did not fail
delivered a result that is neither subnormal nor an overflow (both are trapped in the working context), i.e. inside
`[10^-100001, 10^100001)`: so after its first round a loop can make at most `2·100001` further rounds, whatever the
operand was (any exponent, any number of digits).  The Newton loop is bounded by its own counter.  Hence the fuel of
the model (400000 per scaling loop, `maxIterations + 2` for the Newton loop) is never exhausted:
`C04_cbrt_total`.

The only hypothesis is `c.prec * 2 + 2 ≤ 100000` (the working precision does not exceed the package's exponent limit —
the domain of the single-operation theorems `C01_mul`; weaker than the `c.prec * 3 + 2 ≤ 100000` of the other Cbrt
theorems); nothing is assumed about the operand.
-/
set_option linter.unusedVariables false

namespace Apd.CbrtC
open Apd Apd.Oracle Apd.RatSpec Apd.C20L Apd.SqrtL Apd.CbrtL Apd.CbrtR Cond

theorem eps_le_20 (p : ℕ) (hp : 2 ≤ p) : eps p ≤ 1 / 20 := by
  unfold eps
  have : (10 : ℚ) ^ (-(p : ℤ)) ≤ (10 : ℚ) ^ (-2 : ℤ) := zpow_le_zpow_right₀ ten_ge (by omega)
  rw [tm2] at this
  linarith

/-- a multiplication of positive decimals that returned no error under the working context: the result is positive,
within `ε` of the product, the product is not subnormal and the result is below `10^100001` -/
theorem mul_back (cc : Ctx) (p : Nat) (hw : NCtx cc p) (hp1 : 1 ≤ p) (hp2 : p ≤ 100000)
    (x y : Dec) (hx : Pos x) (hy : Pos y) (he : (mulOp cc x y).err = .none) :
    Pos (mulOp cc x y).d ∧ x.toRat * y.toRat * (1 - eps p) ≤ (mulOp cc x y).d.toRat ∧
    (mulOp cc x y).d.toRat ≤ x.toRat * y.toRat * (1 + eps p) ∧
    (10 : ℚ) ^ (-100000 : ℤ) ≤ x.toRat * y.toRat ∧ (mulOp cc x y).d.toRat < (10 : ℚ) ^ (100001 : ℤ) := by
  have hc := hw.wf hp1 hp2
  have hv : 0 < x.toRat * y.toRat := mul_pos hx.toRat_pos hy.toRat_pos
  have R := mul_rel cc p hw hp1 hp2 x y hx.hf hy.hf he
  obtain ⟨l, u⟩ := opr_bounds R hv
  have hP := R.pos hv
  have herr : (mulOp cc x y).err = goError cc.traps (mulOp cc x y).fl := by
    rw [Props.mulOp_finite cc x y hx.hf hy.hf]; rfl
  rw [he, hw.ht] at herr
  obtain ⟨-, -, -, fsub, -⟩ := goError_default _ herr.symm
  have hA := Props.C01_mul cc hc x y hx.hf hy.hf (Or.inl he)
  have hn : 0 < (exactMul x y).num := Nat.mul_pos hx.h0 hy.h0
  have hmag : (exactMul x y).mag = x.toRat * y.toRat := by
    rw [← Exact.abs_toRat, Rat_exactMul_toRat, abs_of_pos hv]
  refine ⟨hP, l, u, ?_, ?_⟩
  · by_contra hlt
    have hlt := lt_of_not_ge hlt
    have := (Rat_specRound_subnormal cc (exactMul x y) hn Nat.one_pos).2 (by rw [hmag, hw.hemin]; exact hlt)
    rw [← hA.2.1.2.1, fsub] at this
    exact Bool.noConfusion this
  · have hfit := hA.2.2
    unfold fits at hfit
    rw [hP.hf] at hfit
    simp only [Bool.and_eq_true, Bool.or_eq_true, beq_iff_eq, decide_eq_true_eq] at hfit
    have h2 := hfit.1.2
    rw [hw.hemax] at h2
    have hb := (toRat_bounds hP).2
    exact lt_of_lt_of_le hb (zpow_le_zpow_right₀ ten_ge (by omega))

/-! ## a scaling loop never runs out of fuel -/

/-- the counting argument: `v` grows by a factor 7 with every successful round, is below 1 while the test holds, and
is at least `L` after a successful round -/
theorem scaleLoop_total_aux (cc : Ctx) (test : Dec → Bool) (k : Dec) (v : Dec → ℚ) (L : ℚ) (B : ℕ)
    (hL0 : 0 < L) (hL : 1 ≤ L * 7 ^ B)
    (hstep : ∀ (e : ED) (z : Dec), Good cc e z → test z = true →
      (e.step z (fun c => mulOp c z k)).1.failed = false →
      Good cc (e.step z (fun c => mulOp c z k)).1 (e.step z (fun c => mulOp c z k)).2 ∧
      7 * v z ≤ v (e.step z (fun c => mulOp c z k)).2 ∧ L ≤ v (e.step z (fun c => mulOp c z k)).2 ∧ v z < 1) :
    ∀ (fuel j n : ℕ) (e : ED) (z : Dec), Good cc e z → (e.failed = false → L * 7 ^ j ≤ v z) → j ≤ B → B < fuel + j →
      (scaleLoop test k fuel e z n).isSome = true := by
  intro fuel
  induction fuel with
  | zero => intro j n e z _ _ h1 h2; omega
  | succ fuel ih =>
    intro j n e z hG hv hj hf
    simp only [scaleLoop]
    by_cases ht : test z = true
    · rw [if_pos ht]
      by_cases hfl : (e.step z (fun c => mulOp c z k)).1.failed = true
      · rw [if_pos hfl]; rfl
      · rw [if_neg hfl]
        have hnf : (e.step z (fun c => mulOp c z k)).1.failed = false := by simpa using hfl
        obtain ⟨f0, -⟩ := step_back _ _ _ hnf
        obtain ⟨g1, g2, g3, g4⟩ := hstep e z hG ht hnf
        have hvz := hv f0
        have hjB : j < B := by
          by_contra hc
          have : (7 : ℚ) ^ B ≤ 7 ^ j := pow_le_pow_right₀ (by norm_num) (by omega)
          have : L * 7 ^ B ≤ L * 7 ^ j := mul_le_mul_of_nonneg_left this hL0.le
          linarith
        apply ih (j + 1) _ _ _ g1 _ (by omega) (by omega)
        intro _
        calc L * 7 ^ (j + 1) = 7 * (L * 7 ^ j) := by ring
          _ ≤ 7 * v z := by linarith
          _ ≤ _ := g2
    · rw [if_neg ht]; rfl

theorem scaleLoop_total (cc : Ctx) (test : Dec → Bool) (k : Dec) (v : Dec → ℚ) (L : ℚ) (B : ℕ)
    (hL0 : 0 < L) (hL : 1 ≤ L * 7 ^ B)
    (hstep : ∀ (e : ED) (z : Dec), Good cc e z → test z = true →
      (e.step z (fun c => mulOp c z k)).1.failed = false →
      Good cc (e.step z (fun c => mulOp c z k)).1 (e.step z (fun c => mulOp c z k)).2 ∧
      7 * v z ≤ v (e.step z (fun c => mulOp c z k)).2 ∧ L ≤ v (e.step z (fun c => mulOp c z k)).2 ∧ v z < 1)
    (fuel n : ℕ) (hfuel : B + 2 ≤ fuel) (e : ED) (z : Dec) (hG : Good cc e z) :
    (scaleLoop test k fuel e z n).isSome = true := by
  obtain ⟨fuel', rfl⟩ : ∃ f, fuel = f + 1 := ⟨fuel - 1, by omega⟩
  simp only [scaleLoop]
  by_cases ht : test z = true
  · rw [if_pos ht]
    by_cases hfl : (e.step z (fun c => mulOp c z k)).1.failed = true
    · rw [if_pos hfl]; rfl
    · rw [if_neg hfl]
      have hnf : (e.step z (fun c => mulOp c z k)).1.failed = false := by simpa using hfl
      obtain ⟨g1, g2, g3, g4⟩ := hstep e z hG ht hnf
      exact scaleLoop_total_aux cc test k v L B hL0 hL hstep fuel' 0 _ _ _ g1 (fun _ => by simpa using g3)
        (by omega) (by omega)
  · rw [if_neg ht]; rfl

theorem L_bound : (1 : ℚ) ≤ (10 : ℚ) ^ (-100001 : ℤ) * 7 ^ (2 * 100001) := by
  have h1 := seven_pow' 100001
  have h2 : (10 : ℚ) ^ (-100001 : ℤ) * (10 : ℚ) ^ (100001 : ℕ) = 1 := by
    rw [← zpow_natCast, ← zpow_add₀ ten_ne]; norm_num
  have h3 := tp (-100001 : ℤ)
  calc (1 : ℚ) = (10 : ℚ) ^ (-100001 : ℤ) * (10 : ℚ) ^ (100001 : ℕ) := h2.symm
    _ ≤ (10 : ℚ) ^ (-100001 : ℤ) * 7 ^ (2 * 100001) := mul_le_mul_of_nonneg_left h1 h3.le

theorem Lm : (10 : ℚ) ^ (-100001 : ℤ) = (10 : ℚ) ^ (-100000 : ℤ) / 10 := by
  rw [show (-100001 : ℤ) = -100000 - 1 by norm_num, zpow_sub_one₀ ten_ne]; ring

/-- the rounds of `z ← z·8` while `z < 1/8` -/
theorem down_step (cc : Ctx) (p : ℕ) (hw : NCtx cc p) (hp : 2 ≤ p) (hp2 : p ≤ 100000) (e : ED) (z : Dec)
    (hG : Good cc e z) (ht : (fun z => decide (z.cmp decOneEighth < 0)) z = true)
    (hnf : (e.step z (fun c => mulOp c z decEight)).1.failed = false) :
    Good cc (e.step z (fun c => mulOp c z decEight)).1 (e.step z (fun c => mulOp c z decEight)).2 ∧
    7 * z.toRat ≤ (e.step z (fun c => mulOp c z decEight)).2.toRat ∧
    (10 : ℚ) ^ (-100001 : ℤ) ≤ (e.step z (fun c => mulOp c z decEight)).2.toRat ∧ z.toRat < 1 := by
  obtain ⟨f0, g1, v1, c1⟩ := step_back _ _ _ hnf
  obtain ⟨hc, hz⟩ := hG f0
  rw [hc] at g1 v1 c1
  obtain ⟨m1, m2, m3, m4, m5⟩ := mul_back cc p hw (by omega) hp2 z decEight hz decEight_pos g1
  rw [decEight_toRat] at m2 m3 m4
  have he := eps_le_20 p hp
  have hzp := hz.toRat_pos
  have hlt := (test_down z hz).1 ht
  rw [v1]
  refine ⟨fun _ => ⟨c1, m1⟩, ?_, ?_, by linarith⟩
  · nlinarith
  · rw [Lm]
    have := tp (-100000 : ℤ)
    nlinarith

/-- the rounds of `z ← z·0.125` while `z > 1` -/
theorem up_step (cc : Ctx) (p : ℕ) (hw : NCtx cc p) (hp : 2 ≤ p) (hp2 : p ≤ 100000) (e : ED) (z : Dec)
    (hG : Good cc e z) (ht : (fun z => decide (z.cmp decOne > 0)) z = true)
    (hnf : (e.step z (fun c => mulOp c z decOneEighth)).1.failed = false) :
    Good cc (e.step z (fun c => mulOp c z decOneEighth)).1 (e.step z (fun c => mulOp c z decOneEighth)).2 ∧
    7 * (z.toRat)⁻¹ ≤ ((e.step z (fun c => mulOp c z decOneEighth)).2.toRat)⁻¹ ∧
    (10 : ℚ) ^ (-100001 : ℤ) ≤ ((e.step z (fun c => mulOp c z decOneEighth)).2.toRat)⁻¹ ∧ (z.toRat)⁻¹ < 1 := by
  obtain ⟨f0, g1, v1, c1⟩ := step_back _ _ _ hnf
  obtain ⟨hc, hz⟩ := hG f0
  rw [hc] at g1 v1 c1
  obtain ⟨m1, m2, m3, m4, m5⟩ := mul_back cc p hw (by omega) hp2 z decOneEighth hz decOneEighth_pos g1
  rw [decOneEighth_toRat] at m2 m3 m4
  have he := eps_le_20 p hp
  have hzp := hz.toRat_pos
  have hgt := (test_up z hz).1 ht
  have hz'p := m1.toRat_pos
  rw [v1]
  refine ⟨fun _ => ⟨c1, m1⟩, ?_, ?_, ?_⟩
  · rw [← div_eq_mul_inv, div_le_iff₀ hzp, mul_comm, ← div_eq_mul_inv, le_div_iff₀ hz'p]
    nlinarith
  · rw [show (-100001 : ℤ) = -(100001 : ℤ) by norm_num, zpow_neg]
    exact inv_anti₀ hz'p m5.le
  · exact inv_lt_one_of_one_lt₀ hgt

/-! ## the Newton loop never runs out of fuel -/

theorem loopDone_continue_i (c : Ctx) (prec : Int) (maxIter : Nat) (l l' : LoopSt) (z : Dec)
    (h : loopDone c prec maxIter l z = .continue l') : l'.i = l.i + 1 ∧ l.i + 1 ≠ maxIter := by
  unfold loopDone at h
  dsimp only at h
  split_ifs at h <;>
    (injection h with h; rw [← h]; refine ⟨rfl, ?_⟩; intro hc; simp_all)

theorem cbrtIter_total (c : Ctx) (prec : Int) (maxIter : Nat) (ax : Dec) :
    ∀ (fuel : Nat) (e : ED) (z : Dec) (l : LoopSt), l.i < maxIter → maxIter ≤ fuel + l.i →
      (cbrtIter c prec maxIter ax fuel e z l).isSome = true := by
  intro fuel
  induction fuel with
  | zero => intro e z l h1 h2; omega
  | succ fuel ih =>
    intro e z l h1 h2
    rw [cbrtIter_succ]
    split_ifs
    · rfl
    · split
      · rfl
      · rfl
      · rename_i l' hd
        obtain ⟨i1, i2⟩ := loopDone_continue_i _ _ _ _ _ _ hd
        exact ih _ _ _ (by omega) (by omega)

end Apd.CbrtC

namespace Apd.Props
open Apd Apd.CbrtL Apd.CbrtC Apd.SqrtL Apd.C20L

theorem rootSpecials3_none_inv (c : Ctx) (x : Dec) (h : rootSpecials c x 3 = none) :
    x.form = .finite ∧ x.coeff ≠ 0 := by
  unfold rootSpecials at h
  cases hf : x.form <;> simp [hf, shouldSetAsNaN, Dec.isNaN, Dec.sign] at h ⊢
  by_cases h0 : x.coeff = 0
  · simp [h0] at h
  · exact h0

/-- **C04, Cbrt: no hang.**  With the error test inside the scaling loops `Context.Cbrt` returns for EVERY operand
(any form, any exponent, any number of digits) and every context whose working precision `2·Precision + 2` does not
exceed 100000: the model never runs out of fuel. -/
theorem C04_cbrt_total (c : Ctx) (hp : c.prec * 2 + 2 ≤ 100000) (x : Dec) : (cbrtOp c x).isSome = true := by
  cases h : rootSpecials c x 3 with
  | some o => simp [cbrtOp, h]
  | none =>
    obtain ⟨hx, h0⟩ := rootSpecials3_none_inv c x h
    have hw := nc_nctx c
    have hax := absD_pos x hx h0
    have G0 : Good (nc c) { c := nc c } x.absD := fun _ => ⟨rfl, hax⟩
    have T1 := scaleLoop_total (nc c) (fun z => decide (z.cmp decOneEighth < 0)) decEight (fun z => z.toRat)
      ((10 : ℚ) ^ (-100001 : ℤ)) (2 * 100001) (tp _) L_bound
      (fun e z hG ht hnf => down_step (nc c) _ hw (by omega) hp e z hG ht hnf) 400000 0 (by norm_num) _ _ G0
    unfold cbrtOp
    rw [h]
    dsimp only
    split
    · rename_i h1
      have : (scaleLoop (fun z => decide (z.cmp decOneEighth < 0)) decEight 400000 { c := nc c } x.absD 0).isSome = true := T1
      rw [show ({ c := nc c } : ED) = { c := { baseCtx with prec := c.prec * 2 + 2 } } from rfl, h1] at this
      exact absurd this (by simp)
    · rfl
    · rename_i ed1 z1 down h1
      have G1 : Good (nc c) ed1 z1 :=
        (scaleLoop_good (nc c) _ hw (by omega) hp _ decEight decEight_pos _ _ _ _ _ _ _ G0 h1).1
      have T2 := scaleLoop_total (nc c) (fun z => decide (z.cmp decOne > 0)) decOneEighth (fun z => (z.toRat)⁻¹)
        ((10 : ℚ) ^ (-100001 : ℤ)) (2 * 100001) (tp _) L_bound
        (fun e z hG ht hnf => up_step (nc c) _ hw (by omega) hp e z hG ht hnf) 400000 0 (by norm_num) ed1 z1 G1
      split
      · rename_i h2
        rw [h2] at T2
        exact absurd T2 (by simp)
      · rfl
      · rename_i ed2 z2 up h2
        have T3 := cbrtIter_total { baseCtx with prec := c.prec * 2 + 2 } ((c.prec : Int) + 1) (10 + (c.prec + 1)) x.absD
          (10 + (c.prec + 1) + 2)
        split
        · rename_i h3
          refine absurd (?_ : (none : Option (Sum ErrKind Dec)).isSome = true) (by simp)
          rw [← h3]
          exact T3 _ _ {} (by show 0 < _; omega) (by show _ ≤ _ + 0; omega)
        · rfl
        · split_ifs <;> rfl

#print axioms C04_cbrt_total

end Apd.Props
