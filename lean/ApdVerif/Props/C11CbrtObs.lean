import ApdVerif.Model.TransObs
/-!
# C11 — the observation point of Cbrt is an intermediate value of the model

`cbrtOp` is exactly `cbrtPrefix` followed by `cbrtTail`: the iterate compared with the real code's at the
observation point (`cbrtLastIter`) is the one the model's result is computed from.
-/
namespace Apd.Props
open Apd

theorem C11_cbrt_obs_factor (c : Ctx) (x : Dec) :
    cbrtOp c x = (cbrtPrefix c x).map (fun s => match s with
      | .inl o => o
      | .inr (fl0, z) => cbrtTail c x fl0 z) := by
  unfold cbrtOp cbrtPrefix
  cases h0 : rootSpecials c x 3 with
  | some o => simp
  | none =>
    simp only []
    cases h1 : scaleLoop (fun z => decide (z.cmp decOneEighth < 0)) decEight 400000 { c := { baseCtx with prec := c.prec * 2 + 2 } } x.absD 0 with
    | none => simp
    | some r1 =>
      rcases r1 with er | ⟨ed, z, down⟩
      · simp
      simp only []
      cases h2 : scaleLoop (fun z => decide (z.cmp decOne > 0)) decOneEighth 400000 ed z 0 with
      | none => simp
      | some r2 =>
        rcases r2 with er | ⟨ed2, z2, up⟩
        · simp
        simp only []
        generalize (if down > up then mulN decHalf (down - up) _ _ else mulN decTwo (up - down) _ _) = r5
        generalize cbrtIter _ _ _ _ _ _ _ _ = r
        rcases r with _ | (er | z3)
        · rfl
        · rfl
        · show _ = some (cbrtTail _ _ _ _)
          unfold cbrtTail
          simp only []
          split
          · rfl
          · split <;> rfl

/-- the observed iterate determines the result: whenever the loop ends, the outcome is the tail applied to it -/
theorem C11_cbrt_obs (c : Ctx) (x : Dec) (z : Dec) (h : cbrtLastIter c x = some (some z)) :
    ∃ fl0, cbrtOp c x = some (cbrtTail c x fl0 z) := by
  unfold cbrtLastIter at h
  rw [C11_cbrt_obs_factor]
  cases hp : cbrtPrefix c x with
  | none => simp [hp] at h
  | some s =>
    cases s with
    | inl o => simp [hp] at h
    | inr p =>
      obtain ⟨fl0, z'⟩ := p
      simp [hp] at h
      subst h
      exact ⟨fl0, by simp⟩

#print axioms C11_cbrt_obs_factor
#print axioms C11_cbrt_obs
end Apd.Props
