import ApdVerif.Model.Dispatch
import ApdVerif.Oracle.TransOps
import ApdVerif.Spec.Defs
import ApdVerif.Lemmas.C12Lemmas
/-!
# C12 (partial) — Exp, Ln, Log10 and Pow

Proved for all inputs: the results that are exactly representable by definition are returned
exactly (exp(0), ln(1), log10(1), x**0, x**1, integer powers whose exact value fits the
precision), for the modelled part of the code (the special-value prologues and the integer-power
path of Pow, which involve no floating point).  The one-ulp accuracy of the series is NOT proved;
it is judged per generated case by the interval enclosures of `Oracle/Interval.lean`, whose
soundness is the subject of `Props/C12Interval.lean`.
-/
namespace Apd.Props
open Apd Apd.Oracle Apd.C12L

theorem C12_exp_zero (c : Ctx) (x : Dec) (hx : x.form = .finite) (h0 : x.coeff = 0) :
    expSpecials c x = some { d := decOne } := by
  simp [expSpecials, shouldSetAsNaN, Dec.isNaN, Dec.isZero, hx, h0]

theorem C12_ln_one (c : Ctx) : logSpecials c decOne = some { d := decZero } := by
  rfl

/-- ln / log10 of any representation of one (1, 1.0, 1.00 …) is exactly zero -/
theorem C12_log_one_any (c : Ctx) (k : Nat) :
    logSpecials c { form := .finite, neg := false, exp := -(k : Int), coeff := 10 ^ k } = some { d := decZero } := by
  have hnd := MulL.ndigits_pow k
  have hn1 : ndigits 1 = 1 := by decide
  rcases Nat.eq_zero_or_pos k with hk | hk
  · subst hk; rfl
  · have hk' : ¬ (-(k:Int) = 0) := by omega
    simp [logSpecials, shouldSetAsNaN, Dec.isNaN, Dec.sign, Dec.cmp, decZero, decOne, hnd, hn1, hk', cmpNat]
    intro h; omega

/-- x ** 0 = 1 for every finite non-zero x -/
theorem C12_pow_zero_exponent (c : Ctx) (x y : Dec) (hx : x.form = .finite) (hxc : x.coeff ≠ 0)
    (hy : y.form = .finite) (hyc : y.coeff = 0) : powIntOp c x y = some { d := decOne } := by
  have h : powSpecials c x y = some { d := decOne } := by
    simp [powSpecials, shouldSetAsNaN, Dec.isNaN, Dec.sign, hx, hy, hxc, hyc]
    cases x.neg <;> simp
  simp [powIntOp, h]

/-- the exact integer power of a finite decimal -/
def exactPow (x : Dec) (n : Nat) : Dec :=
  { form := .finite, neg := x.neg && n % 2 == 1, exp := x.exp * n, coeff := x.coeff ^ n }

/-- Integer powers whose exact value fits are returned exactly: for a finite non-zero x and a
non-negative integer exponent y = n (written with exponent 0), if x^n has at most Precision digits
(so every intermediate of square-and-multiply is exact at the working precision
max(Precision, digits x) + 10) and all exponents stay inside the limits, Pow returns x^n rounded to
the context — i.e. exactly x^n when it is in the context's exponent range. -/
theorem C12_integer_power_exact (c : Ctx) (hc : c.WF) (x : Dec) (n : Nat)
    (hx : x.form = .finite) (hxc : x.coeff ≠ 0) (hn : 0 < n)
    (hfit : ndigits (x.coeff ^ n) ≤ c.prec)
    (hrange : ∀ k, k ≤ n → -90000 ≤ x.exp * k ∧ x.exp * k + (ndigits (x.coeff ^ k) : Int) ≤ 90000) :
    powIntOp c x { form := .finite, neg := false, exp := 0, coeff := n } =
      some (finish c (ctxRound c (exactPow x n))) := by
  have hfit' : ndigits (x.coeff ^ n) ≤ (if c.prec < ndigits x.coeff then ndigits x.coeff else c.prec) + 10 := by
    split_ifs <;> omega
  exact powIntOp_exact c x n hx hxc hn hfit' hrange

/-- x ** 1 is x rounded to the context -/
theorem C12_pow_one (c : Ctx) (hc : c.WF) (x : Dec) (hx : x.form = .finite) (hxc : x.coeff ≠ 0)
    (hr : -90000 ≤ x.exp ∧ x.exp + (ndigits x.coeff : Int) ≤ 90000) :
    powIntOp c x decOne = some (finish c (ctxRound c { x with form := .finite })) := by
  have hfit' : ndigits (x.coeff ^ 1) ≤ (if c.prec < ndigits x.coeff then ndigits x.coeff else c.prec) + 10 := by
    rw [pow_one]; split_ifs <;> omega
  have hrange : ∀ k : Nat, k ≤ 1 → -90000 ≤ x.exp * (k : Int) ∧
      x.exp * (k : Int) + (ndigits (x.coeff ^ k) : Int) ≤ 90000 := by
    intro k hk
    have hn1 : ndigits 1 = 1 := by decide
    rcases Nat.le_one_iff_eq_zero_or_eq_one.mp hk with h | h <;> subst h
    · simp [hn1]
    · simp only [pow_one, Nat.cast_one, mul_one]; omega
  have h := powIntOp_exact c x 1 hx hxc (by decide) hfit' hrange
  have hx1 : xpow x 1 = { x with form := .finite } := by
    rw [xpow_one x hx]; cases x; simp_all
  rw [hx1] at h
  exact h

example : (powIntOp { prec := 5, emax := 99, emin := -99 } { coeff := 12, exp := -1 } { coeff := 3 }).map (·.d)
    = some { coeff := 1728, exp := -3 } := by decide

#print axioms C12_exp_zero
#print axioms C12_ln_one
#print axioms C12_log_one_any
#print axioms C12_pow_zero_exponent
#print axioms C12_integer_power_exact
#print axioms C12_pow_one

end Apd.Props
