import ApdVerif.Model.Arith
import ApdVerif.Gen.Misc
/-!
# Regenerated tie (constants, cmpOrder, etiny): definitions re-extracted from the Go source on every run
(`ApdVerif/Gen/*.lean`, written by harness/cmd/xlate) are the ones the hand-written model uses.
If the Go source changes one of these functions, the regenerated definition changes and the
corresponding theorem below stops checking.
-/
namespace Apd.Props
open Apd

/-- index of a form in the Go iota order -/
def formIdx : Form → Int
  | .finite => 0 | .infinite => 1 | .nanSignaling => 2 | .nan => 3

theorem GenTie_consts :
    Gen.MaxExponent = Apd.MaxExponent ∧ Gen.MinExponent = Apd.MinExponent ∧
    Gen.digitsTableSize = 128 ∧ Gen.powerTenTableSize = 128 ∧ Gen.inlineWords = 2 ∧
    Gen.lowestZeroNegativeCoefficientCockroach = -2000 ∧ Gen.adjExponentLimit = -6 ∧
    Gen.unknownNumDigits = -1 ∧ Gen.systemErrors = 3 ∧
    Gen.bigOne = 1 ∧ Gen.bigTwo = 2 ∧ Gen.bigFive = 5 ∧ Gen.bigTen = 10 := by
  refine ⟨rfl, rfl, rfl, rfl, rfl, rfl, rfl, rfl, rfl, rfl, rfl, rfl, rfl⟩


theorem GenTie_forms :
    Gen.formOrder = [("Finite", 0), ("Infinite", 1), ("NaNSignaling", 2), ("NaN", 3)] := by
  rfl


theorem GenTie_cmpOrder (d : Dec) :
    Gen.Decimal_cmpOrder (formIdx d.form) d.neg = d.cmpOrder := by
  rcases d with ⟨f, n, e, c⟩
  cases f <;> cases n <;> rfl


/-- `Context.etiny` -/
theorem GenTie_etiny (c : Ctx) :
    Gen.Context_etiny c.prec c.emin = c.emin - (c.prec : Int) + 1 := by
  rfl


#print axioms Apd.Props.GenTie_consts
#print axioms Apd.Props.GenTie_forms
#print axioms Apd.Props.GenTie_cmpOrder
#print axioms Apd.Props.GenTie_etiny

end Apd.Props
