import ApdVerif.Props.C11Sqrt
import ApdVerif.Lemmas.SqrtExactLoop
import ApdVerif.Lemmas.SqrtExactTail
/-!
# C11 — an exactly representable square root is reported without Inexact

`C11_sqrt_correct_partial` leaves one direction of C11's flag clause open: "Inexact raised iff the root is not
exactly representable" was proved only from right to left.  The other direction needs more than closeness of
the Newton iterate: the iterate has to BE the root when the root is a decimal of at most `Precision` digits,
because `Sqrt` keeps the Inexact flag of the rounding of the iterate.  The Newton map with half-even rounded
operations locks onto such a root in the last round of the loop: that is `iter_exact`.

Proof of `iter_exact` (Lemmas/SqrtExactRnd, SqrtExactMath, SqrtExactInv, SqrtExactLoop): every operation of a
round is a nearest rounding to `p` digits (`SqrtX.Rnd`, from `C01_quo/add/mul`); an ABSOLUTE invariant
`|A_p - r| ≤ Bd r g p · 10^(-p)` (`SqrtX.Bd`: four ranges of `r`, by which roundings can cross a power of ten,
and three warm-up rounds 4, 6, 10) is carried on top of `SqrtI.Inv`; the root `r = m·10^(-g)` (`10 ∤ m`) has
`2g + 4 ≤ workp + 5` because the operand has at least `2g - 1` digits (`SqrtX.root_grid`), so the round before
the last has precision `≥ max 10 (g+3)` and the last round returns `r` exactly (`SqrtX.lock`).  The digit
hypothesis of `iter_exact` is not needed (`iter_exact'`).

`C11_sqrt_exact`: when the specification says the root is exactly representable, `Sqrt` does not raise Inexact.
With `C11_sqrt_correct_partial` this gives `C11_sqrt_inexact_iff`: the Inexact flag of `Sqrt` IS the
specification's.

History: the former code re-checked exactness by squaring the result under a context
(`BaseContext.Mul(&sq, d, d)`); that multiplication failed with a system-limit error when twice the result's
exponent was below `-100000`, and the failed check counted as "not exact".  So `Sqrt(4E-100000)` at precision 5
(root `2E-50000`, delivered as `20000E-50004`, exact according to `specSqrt`) was reported Inexact|Rounded, and
`C11_sqrt_exact` was false for that code (it needed the extra hypothesis `-100000 ≤ 2 * (specSqrt c x).q`).
The code was repaired (apd 2ba0159): the square is formed on the coefficient (`sq.Coeff.Mul(&d.Coeff, &d.Coeff);
sq.Exponent = 2 * d.Exponent`), no exponent limit is involved, and the theorem holds as stated; the former
counterexample is now an `example` below.
-/
namespace Apd.Props
open Apd Apd.Oracle Apd.SqrtD Apd.C11Q Apd.C20L Apd.RatSpec

/-- **lock-in**: if the scaled operand `f` is the square of a decimal `R·10^k` with at most `Precision`
digits, the iterate the loop ends with is exactly that decimal -/
theorem iter_exact (c : Ctx) (x : Dec) (h : Dom c x) (R : Nat) (k : Int)
    (hR : ndigits R ≤ c.prec) (hsq : (f x).toRat = ((R : ℚ) * (10 : ℚ) ^ k) ^ 2) :
    (iter c x).2.toRat = (R : ℚ) * (10 : ℚ) ^ k := by
  have _ := hR
  obtain ⟨g, m, e1, hg, hr1, hr2⟩ := SqrtX.root_grid c x h R k hsq
  exact SqrtX.iter_root c x _ g ⟨h, hsq, hr1, hr2, ⟨(m : ℤ), by rw [e1]; push_cast; rfl⟩, hg⟩

/-- `iter_exact` without the digit count (it is not needed: the operand has at least twice as many digits as
its root, and the working precision follows the operand) -/
theorem iter_exact' (c : Ctx) (x : Dec) (h : Dom c x) (R : Nat) (k : Int)
    (hsq : (f x).toRat = ((R : ℚ) * (10 : ℚ) ^ k) ^ 2) :
    (iter c x).2.toRat = (R : ℚ) * (10 : ℚ) ^ k := by
  obtain ⟨g, m, e1, hg, hr1, hr2⟩ := SqrtX.root_grid c x h R k hsq
  exact SqrtX.iter_root c x _ g ⟨h, hsq, hr1, hr2, ⟨(m : ℤ), by rw [e1]; push_cast; rfl⟩, hg⟩

/-- the specification reports an exact root: no overflow, the exactness test of `specSqrt` holds, and the
quantum is `sQ` -/
theorem spec_exact_facts (c : Ctx) (x : Dec) (hex : (specSqrt c x).inexact = false) :
    ¬ (sM c x ≠ 0 ∧ sQ c x + (ndigits (sM c x) : Int) - 1 > c.emax) ∧ sExact c x = true ∧
    (specSqrt c x).q = sQ c x := by
  rw [specSqrt_eq] at hex ⊢
  by_cases hov : (sM c x != 0 && decide (sQ c x + (ndigits (sM c x) : Int) - 1 > c.emax)) = true
  · rw [if_pos hov] at hex; simp at hex
  · rw [if_neg hov] at hex ⊢
    refine ⟨?_, by simpa using hex, rfl⟩
    intro hh
    apply hov
    simp [hh.1, hh.2]

/-- **C11, Sqrt, exact roots**: when the specification says the root is exactly representable in the context,
`Sqrt` does not raise Inexact -/
theorem C11_sqrt_exact (c : Ctx) (x : Dec) (h : Dom c x)
    (hr : (workp c x : Int) + 6 ≤ 100000 + Int.tdiv (e x) 2)
    (hex : (specSqrt c x).inexact = false) :
    (sqrtOp c x).fl.inexact = false := by
  obtain ⟨hnov, hsE, -⟩ := spec_exact_facts c x hex
  have hic := iterClose_of_dom c x h
  obtain ⟨hh, he2, ht2, hf2⟩ := e_half x
  have hr' : -100000 ≤ (iter c x).2.exp + hh := by
    have := iter_exp_ge c x hic
    rw [ht2] at hr; omega
  have DH := dhyp_of_iter c x h hic hh he2 hf2 hr'
  -- the scaled operand is the square of a decimal
  obtain ⟨-, hexq⟩ := sM_facts c x
  have hsm := hexq.1 hsE
  have hu := tp (sQ c x)
  have hF : (f x).toRat = magQ (f x) := toRat_pos (f x) h.hn
  have hXf := magQ_x_eq x
  have hsq : (f x).toRat = (((sM c x : ℕ) : ℚ) * (10 : ℚ) ^ (sQ c x - hh)) ^ 2 := by
    have h1 : magQ x = ((sM c x : ℚ)) ^ 2 * ((10 : ℚ) ^ sQ c x) ^ 2 := by rw [hsm]; field_simp
    have h2 : magQ (f x) * (10 : ℚ) ^ (2 * hh) = ((sM c x : ℚ)) ^ 2 * ((10 : ℚ) ^ sQ c x) ^ 2 := by
      rw [← he2, ← hXf, h1]
    have hp2 := tp (2 * hh)
    rw [hF, mul_pow, zpow_sub₀ ten_ne, div_pow, sq_zpow hh]
    field_simp
    linarith
  have hA := iter_exact' c x h (sM c x) (sQ c x - hh) hsq
  have hAn : (iter c x).2.neg = false := hic.2.2.1
  have hroot : (magQ { (iter c x).2 with exp := (iter c x).2.exp + hh }) ^ 2 = magQ x := by
    have hD : magQ { (iter c x).2 with exp := (iter c x).2.exp + hh } = magQ (iter c x).2 * (10 : ℚ) ^ hh := by
      unfold magQ
      show ((iter c x).2.coeff : ℚ) * (10 : ℚ) ^ ((iter c x).2.exp + hh) = _
      rw [zpow_add₀ ten_ne, mul_assoc]
    rw [hD, ← toRat_pos _ hAn, hA, hXf, he2, ← hF, hsq, mul_pow, mul_pow, sq_zpow hh]
  have hfail : (iter c x).1.failed = false := hic.1
  rw [sqrtOp_eq c x (rootSpecials_none c x h.hx h.hn h.h0), hfail]
  simp only [Bool.false_eq_true, if_false]
  rw [sqrt_tail_eq, ht2]
  exact SqrtX.tail_exact' c x _ hh _ h.hc h.hx h.hn h.h0 DH hroot hsE hnov

/-- **C11, Sqrt, the Inexact flag**: `Sqrt` raises Inexact exactly when the specification does, that is, exactly
when the root is not representable in the context (or overflows) -/
theorem C11_sqrt_inexact_iff (c : Ctx) (x : Dec) (h : Dom c x)
    (hr : (workp c x : Int) + 6 ≤ 100000 + Int.tdiv (e x) 2) :
    (sqrtOp c x).fl.inexact = (specSqrt c x).inexact := by
  cases hs : (specSqrt c x).inexact
  · exact C11_sqrt_exact c x h hr hs
  · exact (C11_sqrt_correct_partial c x h hr).2.2.2.1 hs

set_option maxRecDepth 1000000 in
/-- the case the former code got wrong (it reported Inexact): `Sqrt(4E-100000)` at precision 5 is `20000E-50004`,
exact, although twice that exponent is below the package's exponent limit -/
example :
    Dom { prec := 5, emax := 100000, emin := -100000 } { coeff := 4, exp := -100000 } ∧
    (sqrtOp { prec := 5, emax := 100000, emin := -100000 } { coeff := 4, exp := -100000 }).d =
      { coeff := 20000, exp := -50004 } ∧
    (sqrtOp { prec := 5, emax := 100000, emin := -100000 } { coeff := 4, exp := -100000 }).fl.inexact = false :=
  ⟨⟨by decide, rfl, rfl, rfl, by decide, by decide, by decide⟩, by decide, by decide⟩

#print axioms iter_exact
#print axioms C11_sqrt_exact
#print axioms C11_sqrt_inexact_iff
#print axioms C11_sqrt_correct_partial

end Apd.Props
