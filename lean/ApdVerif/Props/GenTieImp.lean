import ApdVerif.Gen.Imp
import ApdVerif.Lemmas.GenTieImpLemmas
/-!
# Regenerated tie, store level: the programs re-extracted from the Go source on every run
(`ApdVerif/Gen/Imp.lean`, written by harness/cmd/xlate, group `imp`) behave exactly like the hand-written
programs of `Imp/Ops.lean`: same result and same final heap, for every heap and every aliasing of the cells.
If the Go source changes one of these functions (a statement moved, a comparison changed, …) the regenerated
program changes and the corresponding theorem below stops checking.
-/
set_option linter.unusedSimpArgs false
namespace Apd.Props
open Apd Apd.Imp Apd.Cond Apd.Gen.ImpG

/-! ## conditions and `goError` (pure) -/

theorem GenTieImp_Condition_Inexact (r : Cond) : Condition_Inexact r = r.inexact := by
  unfold Condition_Inexact; exact cond_and_ne_inexact r

theorem GenTieImp_Condition_Subnormal (r : Cond) : Condition_Subnormal r = r.subnormal := by
  unfold Condition_Subnormal; exact cond_and_ne_subnormal r

theorem GenTieImp_Condition_GoError (r traps : Cond) : Condition_GoError r traps = (r, goError traps r) := by
  unfold Condition_GoError goError
  simp only [cond_ne_zero_any, cond_and_sys_any]

theorem GenTieImp_Context_goError (c : Ctx) (fl : Cond) : Context_goError c fl = (fl, goError c.traps fl) := by
  unfold Context_goError
  by_cases h : fl = {}
  · subst h; simp [goError_zero]
  · simp [h, GenTieImp_Condition_GoError]

/-! ## read-only `Decimal` methods -/

theorem GenTieImp_Decimal_NumDigits (s : Src) (h : Heap) :
    run (Decimal_NumDigits s) h = run (numDigitsP s >>= fun n => pure (n : Int)) h := by
  simp [Decimal_NumDigits, numDigitsP]

theorem GenTieImp_Decimal_Sign (s : Src) (h : Heap) : run (Decimal_Sign s) h = run (signP s) h := by
  unfold Decimal_Sign signP
  simp only [run_bind, run_rdForm, run_rdCoeff, run_rdNeg, run_ite, run_pure, natSign]
  cases hf : (s.val h).form <;> simp
  by_cases hc : (s.val h).coeff = 0 <;> simp [hc]
  all_goals split <;> rfl

theorem GenTieImp_Decimal_IsZero (s : Src) (h : Heap) : run (Decimal_IsZero s) h = run (isZeroP s) h := by
  unfold Decimal_IsZero isZeroP
  simp only [run_bind, GenTieImp_Decimal_Sign]

/-! ## `Decimal` methods that write their receiver -/

theorem GenTieImp_Decimal_Set (d : Cell) (x : Src) (h : Heap) : run (Decimal_Set d x) h = run (setDec d x) h := by
  unfold Decimal_Set Decimal_setSlow setDec
  by_cases hx : x = .cell d
  · subst hx; simp
  · have hx' : ¬ (Src.cell d = x) := fun e => hx e.symm
    simp [hx, hx']

theorem GenTieImp_Decimal_Neg (d : Cell) (x : Src) (h : Heap) : run (Decimal_Neg d x) h = run (negDec d x) h := by
  unfold Decimal_Neg negDec
  simp only [run_bind, GenTieImp_Decimal_Set, GenTieImp_Decimal_IsZero, run_ite, run_pure]

theorem GenTieImp_Decimal_Abs (d : Cell) (x : Src) (h : Heap) : run (Decimal_Abs d x) h = run (absDec d x) h := by
  unfold Decimal_Abs absDec
  simp only [run_bind, GenTieImp_Decimal_Set, run_pure]

theorem GenTieImp_Decimal_SetInt64 (d : Cell) (v : Int) (h : Heap) :
    run (Decimal_SetInt64 d v) h = run (setInt64P d v) h := by
  unfold Decimal_SetInt64 Decimal_SetFinite Decimal_setCoefficient setInt64P
  simp

/-- `setSlow` (the copy without the `d == x` test) also agrees with `Set` when `x` is `d` itself -/
theorem GenTieImp_Decimal_setSlow (d : Cell) (x : Src) (h : Heap) :
    run (Decimal_setSlow d x) h = run (setDec d x) h := by
  unfold Decimal_setSlow setDec
  by_cases hx : x = .cell d
  · subst hx; simp
  · simp [hx]

theorem GenTieImp_Decimal_SetFinite (d : Cell) (v e : Int) (h : Heap) :
    run (Decimal_SetFinite d v e) h = run (do setInt64P d v; wrExp d e) h := by
  unfold Decimal_SetFinite Decimal_setCoefficient setInt64P
  simp

/-! ## NaN handling -/

theorem GenTieImp_Context_shouldSetAsNaN (c : Ctx) (x : Src) (y : Option Src) (h : Heap) :
    run (Context_shouldSetAsNaN c x y) h = run (shouldSetAsNaNP x y) h := by
  unfold Context_shouldSetAsNaN shouldSetAsNaNP isNaNP
  cases y with
  | none =>
    simp only [run_bind, run_rdForm, run_ite, run_pure]
    cases (x.val h).form <;> simp
  | some y =>
    simp only [run_bind, run_rdForm, run_ite, run_pure]
    cases (x.val h).form <;> cases (y.val h).form <;> simp

theorem GenTieImp_Context_setAsNaN (c : Ctx) (d : Cell) (x : Src) (y : Option Src) (h : Heap) :
    run (Context_setAsNaN c d x y) h = run (setAsNaNP c d x y) h := by
  unfold Context_setAsNaN setAsNaNP
  cases y with
  | none =>
    simp only [run_bind, run_rdForm, run_ite, run_pure, GenTieImp_Decimal_Set, run_setDec, run_wrForm,
      GenTieImp_Context_goError, Src.val_set_val_self]
    cases hx : (x.val h).form <;> simp [hx, goError_zero]
  | some y =>
    simp only [run_bind, run_rdForm, run_ite, run_pure, GenTieImp_Decimal_Set, run_setDec, run_wrForm,
      GenTieImp_Context_goError, Src.val_set_val_self]
    cases hx : (x.val h).form <;> cases hy : (y.val h).form <;> simp [hx, hy, goError_zero]

/-! ## `roundAddOne`, `setExponent`, `Rounder.Round` -/

theorem GenTieImp_roundAddOne (b : Nat) (diff : Int) :
    Apd.Gen.ImpG.roundAddOne b diff = Apd.roundAddOne b diff := by
  unfold Apd.Gen.ImpG.roundAddOne Apd.roundAddOne
  have h0 : ¬ (natSign b < 0) := by unfold natSign; split <;> omega
  simp only [h0, decide_false, Bool.false_eq_true, if_false, Apd.Gen.bigOne, Apd.Gen.bigTen]
  by_cases h : ndigits (b + 1) > ndigits b
  · have h' : ((ndigits (b + 1) : Int) > (ndigits b : Int)) := by omega
    simp [h, h']
  · have h' : ¬ ((ndigits (b + 1) : Int) > (ndigits b : Int)) := by omega
    simp [h, h']

/-- the `nd` argument of `setExponent`: `unknownNumDigits` or a digit count -/
def ndArg : Option Nat → Int
  | none => -1
  | some n => (n : Int)

theorem GenTieImp_Decimal_setExponent (c : Ctx) (d : Cell) (nd : Option Nat) (res : Cond) (xs : List Int) (h : Heap) :
    run (Decimal_setExponent d c (ndArg nd) res xs) h = run (setExponentP c d nd res xs) h := by
  unfold Decimal_setExponent setExponentP
  simp only [setExponent_loop, Int.zero_add]
  cases hx : checkXs xs with
  | some fl => simp
  | none =>
    have hnd : run (if (ndArg nd == -1) = true then do
              let t_3 ← Decimal_NumDigits (Src.cell d)
              have nd : Int := t_3
              pure nd
            else pure (ndArg nd)) h = (((run (ndOrCountP d nd) h).1 : Int), h) := by
      cases nd with
      | none => simp [ndArg, ndOrCountP, GenTieImp_Decimal_NumDigits]
      | some n =>
        have : ¬ ((n : Int) = -1) := by omega
        simp [ndArg, ndOrCountP, this]
    have hnd2 : (run (ndOrCountP d nd) h).2 = h := by
      cases nd <;> simp [ndOrCountP]
    simp only [run_bind, hnd, hnd2, narrow32, seFinishP, run_ite, run_pure, run_rdCoeff, run_rdNeg, run_wrCoeff,
      run_wrForm, run_wrExp, GenTieImp_Decimal_IsZero, run_isZeroP, GenTieImp_Condition_Inexact,
      GenTieImp_Condition_Subnormal, Src.val_cell, Heap.set_same, Heap.set_set,
      ite_pair_heap]
    generalize (run (ndOrCountP d nd) h).1 = n
    simp only [decide_eq_true_eq, MaxExponent, MinExponent]
    bcases c1 : sumInts xs + ↑n - 1 > 100000
    bcases c2 : sumInts xs + ↑n - 1 < -100000
    bcases c3 : sumInts xs + ↑n - 1 < c.emin
    · bcases c4 : sumInts xs < c.emin - (↑c.prec - 1)
      · -- subnormal rounding
        generalize hK : (c.emin - ((c.prec : Int) - 1) - sumInts xs).toNat = K
        have hK' : (-(sumInts xs - (c.emin - ((c.prec : Int) - 1)))).toNat = K := by omega
        have hexp : sumInts xs - (c.emin - ((c.prec : Int) - 1)) = -(K : Int) := by omega
        have hKpos : 0 < K := by omega
        have hm := modf_nonpos (h d).coeff (h d).neg (sumInts xs - (c.emin - ((c.prec : Int) - 1))) (by omega)
        rw [hK'] at hm
        simp only [hm, Dec.absD, Dec.isZero]
        rw [hexp]
        by_cases hz : (h d).coeff % 10 ^ K = 0
        · simp [hz]
        · have hlt : (h d).coeff % 10 ^ K < 10 ^ K := Nat.mod_lt _ (Nat.pow_pos (by decide))
          rw [cmp_half _ K hKpos hlt hz]
          by_cases hs : shouldAddOne c.mode ((h d).coeff / 10 ^ K) (h d).neg
              (cmpNat (2 * ((h d).coeff % 10 ^ K)) (10 ^ K)) = true
          · simp [hz, hs, Gen.bigOne]
          · simp [hz, hs, Gen.bigOne]
      · simp
    · bcases c5 : sumInts xs + ↑n - 1 > c.emax
      bcases c6 : (h d).isZero = true
      simp [cond_or_assoc]

theorem GenTieImp_Decimal_setExponent_some (c : Ctx) (d : Cell) (n : Nat) (res : Cond) (xs : List Int) (h : Heap) :
    run (Decimal_setExponent d c (n : Int) res xs) h = run (setExponentP c d (some n) res xs) h :=
  GenTieImp_Decimal_setExponent c d (some n) res xs h

theorem GenTieImp_Decimal_setExponent_none (c : Ctx) (d : Cell) (res : Cond) (xs : List Int) (h : Heap) :
    run (Decimal_setExponent d c (-1) res xs) h = run (setExponentP c d none res xs) h :=
  GenTieImp_Decimal_setExponent c d none res xs h

/-- `Rounder.Round` with the context's own rounder (`c.Rounding.Round(c, d, x, flag)`, the only way it is called) -/
theorem GenTieImp_Rounder_Round (c : Ctx) (d : Cell) (x : Src) (dis : Bool) (h : Heap) :
    run (Rounder_Round c.mode c d x dis) h = run (roundP c d x dis) h := by
  unfold Rounder_Round roundP roundFinP roundTailP
  simp only [run_bind, run_ite, run_pure, GenTieImp_Decimal_Set, run_setDec, run_rdForm, run_rdExp, run_rdCoeff,
    run_rdNeg, run_wrCoeff, GenTieImp_Decimal_NumDigits, run_numDigitsP, GenTieImp_Decimal_Sign, run_signP,
    GenTieImp_Decimal_setExponent_some, GenTieImp_Decimal_setExponent_none, Src.val_set_val_self, Src.val_cell,
    Heap.set_same, Heap.set_set, narrow32, ite_pair_heap, GenTieImp_roundAddOne, cond_zero_or]
  generalize x.val h = X
  generalize hD : ((ndigits X.coeff : Int) - (c.prec : Int)) = D
  bcases hf : (X.form != Form.finite) = true
  bcases c1 : (dis && c.prec == 0) = true
  bcases c2 : (X.sign != 0 && decide (X.exp + ↑(ndigits X.coeff) - 1 < c.emin)) = true
  simp only [decide_eq_true_eq, MaxExponent]
  bcases c3 : D > 0
  bcases c4 : D > 100000
  have c5 : ¬ (D < -100000) := by omega
  simp only [c5, if_false]
  by_cases hm : X.coeff % 10 ^ D.toNat = 0
  · simp [hm, natSign]
  · have hlt : X.coeff % 10 ^ D.toNat < 10 ^ D.toNat := Nat.mod_lt _ (Nat.pow_pos (by decide))
    have hexp : -D = -((D.toNat : Nat) : Int) := by omega
    rw [hexp, cmp_half _ D.toNat (by omega) hlt hm]
    by_cases hs : shouldAddOne c.mode (X.coeff / 10 ^ D.toNat) X.neg
        (cmpNat (2 * (X.coeff % 10 ^ D.toNat)) (10 ^ D.toNat)) = true
    · simp [hm, hs, natSign]
    · simp [hm, hs, natSign]

theorem GenTieImp_Context_round (c : Ctx) (d : Cell) (x : Src) (h : Heap) :
    run (Context_round c d x) h = run (roundP c d x true) h := by
  unfold Context_round
  simp only [run_bind, run_pure, GenTieImp_Rounder_Round]

/-! ## `Context` methods.  The generated programs return Go's `(Condition, error)`; the hand-written ones carry a
third component (the auxiliary integer of `Reduce`, 0 here), dropped by `dropAux`. -/

/-- forget the auxiliary integer of a hand-written `Context` method -/
def dropAux (p : Prog Res) : Prog (Cond × ErrKind) := p >>= fun r => pure (r.1, r.2.1)

theorem GenTieImp_Context_Round (c : Ctx) (d : Cell) (x : Src) (h : Heap) :
    run (Context_Round c d x) h = run (dropAux (roundOpP c d x)) h := by
  unfold Context_Round roundOpP dropAux retFlags
  simp only [run_bind, run_ite, run_pure, GenTieImp_Context_shouldSetAsNaN, GenTieImp_Context_setAsNaN,
    GenTieImp_Context_round, GenTieImp_Context_goError]
  split <;> rfl

theorem GenTieImp_Context_Abs (c : Ctx) (d : Cell) (x : Src) (h : Heap) :
    run (Context_Abs c d x) h = run (dropAux (absP c d x)) h := by
  unfold Context_Abs absP dropAux retFlags
  simp only [run_bind, run_ite, run_pure, GenTieImp_Context_shouldSetAsNaN, GenTieImp_Context_setAsNaN,
    GenTieImp_Context_round, GenTieImp_Context_goError, GenTieImp_Decimal_Abs]
  split <;> rfl

theorem GenTieImp_Context_Neg (c : Ctx) (d : Cell) (x : Src) (h : Heap) :
    run (Context_Neg c d x) h = run (dropAux (negP c d x)) h := by
  unfold Context_Neg negP dropAux retFlags
  simp only [run_bind, run_ite, run_pure, GenTieImp_Context_shouldSetAsNaN, GenTieImp_Context_setAsNaN,
    GenTieImp_Context_round, GenTieImp_Context_goError, GenTieImp_Decimal_Neg]
  split <;> rfl

/-! ## `upscale`, `Context.add` -/

/-- the `*BigInt` values of the generated `upscale` for the ones of `upscaleP` -/
def bptrOf (a b : Src) : BRef → BPtr
  | .val n => .val n
  | .fst => .coeff a
  | .snd => .coeff b

theorem run_derefB_bptrOf (a b : Src) (r : BRef) (h : Heap) :
    run (derefB (bptrOf a b r)) h = run (rdB a b r) h := by
  cases r <;> simp [derefB, bptrOf, rdB]

/-- the result of the generated `upscale` for the one of `upscaleP` -/
def upscaleRes (a b : Src) : Option (BRef × BRef × Int) → BPtr × BPtr × Int × ErrKind
  | none => (BPtr.null, BPtr.null, 0, ErrKind.sys)
  | some (ra, rb, s) => (bptrOf a b ra, bptrOf a b rb, s, ErrKind.none)

theorem GenTieImp_upscale (a b : Src) (tmp : BPtr) (h : Heap) :
    run (Apd.Gen.ImpG.upscale a b tmp) h = run (upscaleP a b >>= fun u => pure (upscaleRes a b u)) h := by
  unfold Apd.Gen.ImpG.upscale upscaleP
  simp only [run_bind, run_ite, run_pure, run_rdExp, run_rdCoeff, ite_pair_heap, decide_eq_true_eq]
  bcases h1 : ((a.val h).exp == (b.val h).exp) = true
  · rfl
  bcases h2 : (a.val h).exp < (b.val h).exp
  · bcases h3 : (b.val h).exp - (a.val h).exp > 100000
    · simp [MaxExponent, h3, upscaleRes]
    · simp [MaxExponent, h3, upscaleRes, bptrOf]
  · bcases h3 : (a.val h).exp - (b.val h).exp > 100000
    · simp [MaxExponent, h3, upscaleRes]
    · simp [MaxExponent, h3, upscaleRes, bptrOf]

theorem upscaleP_heap (a b : Src) (h : Heap) : (run (upscaleP a b) h).2 = h := by
  rcases run_upscaleP a b h with ⟨_, e⟩ | ⟨_, _, _, _, _, _, e, _⟩ <;> rw [e]

theorem bigSign_sub_neg (a b : Nat) :
    (bigSign (decide (((a : Int) - (b : Int)) < 0)) (Int.natAbs ((a : Int) - (b : Int))) == -1) = decide (a < b) := by
  unfold bigSign
  by_cases h : a < b
  · have h1 : ((a : Int) - (b : Int)) < 0 := by omega
    have h2 : Int.natAbs ((a : Int) - (b : Int)) ≠ 0 := by omega
    simp [h, h1, h2]
  · have h1 : ¬ ((a : Int) - (b : Int)) < 0 := by omega
    simp only [h, h1, decide_false]
    split <;> simp

theorem bigSign_sub_zero (a b : Nat) :
    (bigSign (decide (((a : Int) - (b : Int)) < 0)) (Int.natAbs ((a : Int) - (b : Int))) == 0) =
      (Int.natAbs ((a : Int) - (b : Int)) == 0) := by
  unfold bigSign
  by_cases h : Int.natAbs ((a : Int) - (b : Int)) = 0
  · simp [h]
  · simp only [h, beq_iff_eq, if_false]
    split <;> simp <;> omega

theorem natAbs_sub (a b : Nat) : Int.natAbs ((a : Int) - (b : Int)) = if a < b then b - a else a - b := by
  split <;> omega

theorem GenTieImp_Context_add (c : Ctx) (d : Cell) (x y : Src) (sub : Bool) (h : Heap) :
    run (Context_add c d x y sub) h = run (dropAux (addP c d x y sub)) h := by
  unfold Context_add addP dropAux retFlags
  simp only [run_bind, run_ite, run_pure, GenTieImp_Context_shouldSetAsNaN, GenTieImp_Context_setAsNaN,
    GenTieImp_Context_round, GenTieImp_Context_goError, GenTieImp_Decimal_Set, GenTieImp_upscale,
    run_rdNeg, run_rdForm, run_setDec, run_wrNeg, run_wrExp, run_wrForm, run_wrCoeff, run_rdCoeff, upscaleP_heap,
    ite_pair_heap, run_shouldSetAsNaNP, Src.val_cell, Heap.set_same, Heap.set_set]
  rcases hu : run (upscaleP x y) h with ⟨u, hh⟩
  have hheap : hh = h := by have := upscaleP_heap x y h; rw [hu] at this; exact this
  subst hheap
  cases u with
  | none =>
    simp only [upscaleRes, decimalNaN, decNaN, decimalInfinity, decInf, Src.val_const]
    split_ifs <;> simp
  | some abs =>
    obtain ⟨ra, rb, s⟩ := abs
    simp only [upscaleRes, run_derefB_bptrOf, run_rdB, addFiniteP, run_bind, run_ite, run_pure,
      run_rdNeg, run_rdForm, run_setDec, run_wrNeg, run_wrExp, run_wrForm, run_wrCoeff, run_rdCoeff,
      ite_pair_heap, Src.val_cell, Heap.set_same, Heap.set_set, retFlags, decimalNaN, decNaN, decimalInfinity,
      decInf, Src.val_const, bigSign_sub_neg, bigSign_sub_zero]
    generalize BRef.get x y ra _ = av
    generalize BRef.get x y rb _ = bv
    bcases hn : shouldSetAsNaN (x.val hh) (Option.map (fun x => x.val hh) (some y)) = true
    bcases hi : ((x.val hh).form == Form.infinite || (y.val hh).form == Form.infinite) = true
    · split_ifs <;> simp
    bcases hs : ((x.val hh).neg == ((y.val hh).neg != sub)) = true
    · simp
    simp only [natAbs_sub, decide_eq_true_eq]
    bcases hlt : av < bv
    · simp
    · by_cases he : av - bv = 0 <;> simp [he]

theorem GenTieImp_Context_Add (c : Ctx) (d : Cell) (x y : Src) (h : Heap) :
    run (Context_Add c d x y) h = run (dropAux (addP c d x y false)) h := by
  unfold Context_Add
  simp only [run_bind, run_pure, GenTieImp_Context_add]

theorem GenTieImp_Context_Sub (c : Ctx) (d : Cell) (x y : Src) (h : Heap) :
    run (Context_Sub c d x y) h = run (dropAux (addP c d x y true)) h := by
  unfold Context_Sub
  simp only [run_bind, run_pure, GenTieImp_Context_add]

/-! ## `Context.Mul` -/

theorem GenTieImp_Context_Mul (c : Ctx) (d : Cell) (x y : Src) (h : Heap) :
    run (Context_Mul c d x y) h = run (dropAux (mulP c d x y)) h := by
  unfold Context_Mul mulP dropAux retFlags
  simp only [run_bind, run_ite, run_pure, GenTieImp_Context_shouldSetAsNaN, GenTieImp_Context_setAsNaN,
    GenTieImp_Context_round, GenTieImp_Context_goError, GenTieImp_Decimal_Set, GenTieImp_Decimal_IsZero,
    GenTieImp_Decimal_setExponent_none, run_isZeroP,
    run_rdNeg, run_rdForm, run_rdExp, run_setDec, run_wrNeg, run_wrExp, run_wrForm, run_wrCoeff, run_rdCoeff,
    ite_pair_heap, run_shouldSetAsNaNP, Src.val_cell, Heap.set_same, Heap.set_set, decimalNaN, decNaN,
    decimalInfinity, decInf, Src.val_const]
  bcases hn : shouldSetAsNaN (x.val h) (Option.map (fun x => x.val h) (some y)) = true
  bcases hi : ((x.val h).form == Form.infinite || (y.val h).form == Form.infinite) = true
  · split_ifs <;> simp

/-! ## `Context.quoSpecials`, `Quo`, `QuoInteger`, `Rem` -/

theorem GenTieImp_Context_etiny (c : Ctx) : Context_etiny c = c.emin - (c.prec : Int) + 1 := rfl

/-- the `(set, res, err)` of the generated `quoSpecials` for the `Option` of `quoSpecialsP` -/
def specialsRes : Option (Cond × ErrKind) → Bool × Cond × ErrKind
  | some r => (true, r.1, r.2)
  | none => (false, {}, ErrKind.none)

theorem GenTieImp_Context_quoSpecials (c : Ctx) (d : Cell) (x y : Src) (cc : Bool) (h : Heap) :
    run (Context_quoSpecials c d x y cc) h = run (quoSpecialsP c d x y cc >>= fun o => pure (specialsRes o)) h := by
  unfold Context_quoSpecials quoSpecialsP
  simp only [run_bind, run_ite, run_pure, GenTieImp_Context_shouldSetAsNaN, GenTieImp_Context_setAsNaN,
    GenTieImp_Context_goError, GenTieImp_Decimal_Set, GenTieImp_Decimal_IsZero, GenTieImp_Decimal_SetInt64,
    GenTieImp_Context_etiny, run_isZeroP, run_setInt64P,
    run_rdNeg, run_rdForm, run_setDec, run_wrNeg, run_wrExp, ite_pair_heap, run_shouldSetAsNaNP, Src.val_cell,
    Heap.set_same, Heap.set_set, decimalNaN, decNaN, decimalInfinity, decInf, Src.val_const, specialsRes,
    cond_zero_or]
  split_ifs <;> simp [goError_zero]

/-- when `quoSpecialsP` reports "not special" it has written nothing and the precision is not zero -/
theorem quoSpecialsP_none (c : Ctx) (d : Cell) (x y : Src) (cc : Bool) (h : Heap)
    (hn : (run (quoSpecialsP c d x y cc) h).1 = none) :
    run (quoSpecialsP c d x y cc) h = (none, h) ∧ c.prec ≠ 0 := by
  unfold quoSpecialsP at hn ⊢
  simp only [run_bind, run_ite, run_pure, run_shouldSetAsNaNP, run_rdNeg, run_rdForm, run_isZeroP,
    ite_pair_heap] at hn ⊢
  split_ifs at hn ⊢ <;> simp_all

theorem GenTieImp_Context_QuoInteger (c : Ctx) (d : Cell) (x y : Src) (h : Heap) :
    run (Context_QuoInteger c d x y) h = run (dropAux (quoIntegerP c d x y)) h := by
  unfold Context_QuoInteger quoIntegerP dropAux retFlags
  simp only [run_bind, GenTieImp_Context_quoSpecials, run_pure]
  cases hs : (run (quoSpecialsP c d x y false) h).1 with
  | some r => simp [specialsRes]
  | none =>
    obtain ⟨hr, _⟩ := quoSpecialsP_none c d x y false h hs
    simp only [hr, specialsRes, run_ite, run_pure, run_bind, run_rdNeg, GenTieImp_upscale, upscaleP_heap,
      Bool.false_eq_true, if_false]
    rcases hu : run (upscaleP x y) h with ⟨u, hh⟩
    have hheap : hh = h := by have := upscaleP_heap x y h; rw [hu] at this; exact this
    subst hheap
    cases u with
    | none => simp [upscaleRes]
    | some abs =>
      obtain ⟨ra, rb, s⟩ := abs
      simp only [upscaleRes, run_derefB_bptrOf, run_rdB, run_bind, run_ite, run_pure, GenTieImp_Decimal_NumDigits,
        run_numDigitsP, GenTieImp_Decimal_Set, GenTieImp_Context_goError,
        run_setDec, run_wrNeg, run_wrExp, run_wrForm, run_wrCoeff,
        ite_pair_heap, Src.val_cell, Heap.set_same, Heap.set_set, decimalNaN, decNaN, Src.val_const,
        cond_zero_or, decide_eq_true_eq, bne_self_eq_false, Bool.false_eq_true, if_false]
      split_ifs <;> simp [goError_zero]

theorem GenTieImp_Context_Rem (c : Ctx) (d : Cell) (x y : Src) (h : Heap) :
    run (Context_Rem c d x y) h = run (dropAux (remP c d x y)) h := by
  unfold Context_Rem remP dropAux retFlags
  simp only [run_bind, run_ite, run_pure, GenTieImp_Context_shouldSetAsNaN, GenTieImp_Context_setAsNaN,
    GenTieImp_Context_round, GenTieImp_Context_goError, GenTieImp_Decimal_Set, GenTieImp_Decimal_IsZero,
    GenTieImp_upscale, upscaleP_heap, run_isZeroP, run_rdNeg, run_rdForm, run_setDec, ite_pair_heap,
    run_shouldSetAsNaNP, Src.val_cell, Heap.set_same, Heap.set_set, decimalNaN, decNaN, Src.val_const,
    cond_zero_or]
  rcases hu : run (upscaleP x y) h with ⟨u, hh⟩
  have hheap : hh = h := by have := upscaleP_heap x y h; rw [hu] at this; exact this
  subst hheap
  cases u with
  | none =>
    simp only [upscaleRes]
    split_ifs <;> simp
  | some abs =>
    obtain ⟨ra, rb, s⟩ := abs
    simp only [upscaleRes, run_derefB_bptrOf, run_rdB, run_bind, run_ite, run_pure, GenTieImp_Decimal_Set,
      GenTieImp_Context_goError, GenTieImp_Context_round, run_rdNeg,
      run_setDec, run_wrNeg, run_wrExp, run_wrForm, run_wrCoeff,
      ite_pair_heap, Src.val_cell, Heap.set_same, Heap.set_set, decimalNaN, decNaN, Src.val_const,
      cond_zero_or, decide_eq_true_eq, bne_self_eq_false, Bool.false_eq_true, if_false]
    split_ifs <;> simp

/-- the common end of the two alignment cases of `Quo` -/
macro "quo_tail" : tactic => `(tactic| (
  simp only [Nat.mul_comm _ 2]
  split_ifs <;>
    simp [GenTieImp_Decimal_setExponent_none, GenTieImp_Decimal_setExponent_some, cond_zero_or]))

theorem natSign_ne_zero (n : Nat) : (natSign n != 0) = (n != 0) := by
  unfold natSign; by_cases h : n = 0 <;> simp [h]

theorem GenTieImp_Context_Quo (c : Ctx) (d : Cell) (x y : Src) (h : Heap) :
    run (Context_Quo c d x y) h = run (dropAux (quoP c d x y)) h := by
  unfold Context_Quo quoP dropAux
  simp only [run_bind, GenTieImp_Context_quoSpecials, run_pure]
  cases hs : (run (quoSpecialsP c d x y true) h).1 with
  | some r => simp [specialsRes]
  | none =>
    obtain ⟨hr, hp⟩ := quoSpecialsP_none c d x y true h hs
    simp only [hr, specialsRes, run_ite, run_pure, run_bind, run_rdNeg, run_rdExp, run_rdCoeff,
      GenTieImp_Decimal_IsZero, run_isZeroP, Bool.false_eq_true, if_false, cond_zero_or, ite_pair_heap,
      ite_fst, ite_snd]
    bcases hz : (x.val h).isZero = true
    · simp [GenTieImp_Decimal_Set, GenTieImp_Decimal_setExponent_none, GenTieImp_Context_goError, retFlags,
        decimalZero, decZero]
    · simp only [ite_pair_heap, quoK, usub, decide_eq_true_eq]
      generalize (x.val h).coeff = xc
      generalize (y.val h).coeff = yc
      generalize ((ndigits xc : Int) - (ndigits yc : Int)) = N
      have hE : (((c.prec - 1 : Nat) : Int)) = (c.prec : Int) - 1 := by omega
      rw [hE]
      generalize ((c.prec : Int) - 1) = E
      have hcmp : ∀ a b : Nat, (cmpNat a b < 0) = (a < b) := by
        intro a b; unfold cmpNat; split_ifs <;> simp <;> omega
      simp only [hcmp]
      have hdiv : ∀ Y : Nat, (if N < 0 then yc else if N > 0 then Y else yc) = (if N > 0 then Y else yc) := by
        intro Y; split_ifs <;> first | rfl | omega
      simp only [hdiv]
      generalize (if N < 0 then xc * 10 ^ (-N).toNat else xc) = A
      generalize (if N > 0 then yc * 10 ^ N.toNat else yc) = B
      generalize hb10 : Gen.bigTen = b10
      generalize hb2 : Gen.bigTwo = b2
      generalize hb1 : Gen.bigOne = b1
      have e10 : b10 = 10 := by rw [← hb10]; rfl
      have e2 : b2 = 2 := by rw [← hb2]; rfl
      have e1 : b1 = 1 := by rw [← hb1]; rfl
      subst e10 e2 e1
      simp only [natSign_ne_zero, run_wrCoeff, run_wrForm, run_wrNeg, Src.val_cell,
        Heap.set_same, Heap.set_set, quoTailP, retFlags, run_bind, run_pure, run_ite, run_rdCoeff, run_rdNeg,
        run_numDigitsP, GenTieImp_roundAddOne, GenTieImp_Context_goError, ite_pair_heap, ite_fst, ite_snd]
      generalize (x.val h).exp - (y.val h).exp = S
      generalize ((x.val h).neg != (y.val h).neg) = ng
      by_cases hlt : A < B
      · simp only [hlt, if_true]
        generalize A * 10 * 10 ^ E.toNat / B = q
        generalize A * 10 * 10 ^ E.toNat % B = r
        generalize (-N + 1) = AC
        quo_tail
      · simp only [hlt, if_false]
        generalize A * 10 ^ E.toNat / B = q
        generalize A * 10 ^ E.toNat % B = r
        generalize (-N) = AC
        quo_tail

/-! ## `Context.quantize`, `Context.Quantize` -/

theorem GenTieImp_Condition_Overflow (r : Cond) : Condition_Overflow r = r.overflow := by
  unfold Condition_Overflow; exact cond_and_ne_overflow r

theorem GenTieImp_Condition_Underflow (r : Cond) : Condition_Underflow r = r.underflow := by
  unfold Condition_Underflow; exact cond_and_ne_underflow r

theorem GenTieImp_Context_quantize (c : Ctx) (d : Cell) (v : Src) (exp : Int) (h : Heap) :
    run (Context_quantize c d v exp) h = run (quantizeCoreP c d v exp) h := by
  unfold Context_quantize quantizeCoreP
  simp only [run_bind, run_ite, run_pure, GenTieImp_Decimal_Set, run_setDec, GenTieImp_Decimal_NumDigits,
    run_numDigitsP, GenTieImp_Decimal_IsZero, run_isZeroP, run_rdExp, run_rdCoeff, run_rdNeg, run_wrCoeff,
    run_wrExp, Src.val_cell, Heap.set_same, Heap.set_set, narrow32, toU32, ite_pair_heap, ite_fst, ite_snd,
    decide_eq_true_eq, GenTieImp_Rounder_Round, show Int.natAbs 0 = 0 from rfl,
    show Int.natAbs 1 = 1 from rfl]
  have hnc : ∀ P : Nat,
      (if c.emax - exp > 100000 then ({ c with prec := P, emin := -100000, emax := 100000 } : Ctx)
       else if c.emax - exp < -100000 then { c with prec := P, emin := -100000, emax := -100000 }
       else { c with prec := P, emin := -100000, emax := c.emax - exp }) =
      { c with prec := P, emin := MinExponent, emax := frameEmax c.emax exp } := by
    intro P
    unfold frameEmax MaxExponent MinExponent
    split_ifs <;> simp_all <;> split_ifs <;> omega
  simp only [hnc]
  generalize v.val h = V
  generalize hdf : exp - V.exp = df
  bcases d1 : df < 0
  · simp only [MinExponent]
    bcases d1b : df < -100000
  bcases d2 : df > 0
  · bcases d3 : (ndigits V.coeff : Int) - df < 0
    · bcases d4 : (!V.isZero) = true
      simp
    · split_ifs <;> simp [Gen.bigTen]
  · simp

theorem GenTieImp_Context_Quantize (c : Ctx) (d : Cell) (x : Src) (exp : Int) (h : Heap) :
    run (Context_Quantize c d x exp) h = run (dropAux (quantizeP c d x exp)) h := by
  unfold Context_Quantize quantizeP dropAux retFlags
  generalize hE : Context_etiny c = et
  have het : et = c.emin - (c.prec : Int) + 1 := by rw [← hE]; rfl
  subst het
  simp only [run_bind, run_ite, run_pure, GenTieImp_Context_shouldSetAsNaN, GenTieImp_Context_setAsNaN,
    GenTieImp_Context_round, GenTieImp_Context_goError, GenTieImp_Decimal_Set, GenTieImp_Decimal_NumDigits,
    GenTieImp_Context_quantize, GenTieImp_Condition_Overflow,
    GenTieImp_Condition_Underflow, run_numDigitsP, run_rdForm, run_setDec, ite_pair_heap, ite_fst, ite_snd,
    run_shouldSetAsNaNP, Src.val_cell, Heap.set_same, Heap.set_set, decimalNaN, decNaN, Src.val_const,
    decide_eq_true_eq, Bool.or_eq_true, beq_iff_eq]
  split_ifs <;> simp_all

/-! ## `Decimal.Cmp`, `Context.Cmp` -/

theorem GenTieImp_Decimal_Cmp (d x : Src) (h : Heap) : run (Decimal_Cmp d x) h = run (cmpP d x) h := by
  unfold Decimal_Cmp cmpP
  simp only [run_bind, run_ite, run_pure, GenTieImp_Decimal_Sign, run_signP, GenTieImp_Decimal_NumDigits,
    run_numDigitsP, run_rdForm, run_rdExp, run_rdCoeff, ite_pair_heap, ite_fst, ite_snd, decide_eq_true_eq]
  generalize d.val h = D
  generalize x.val h = X
  generalize D.sign = ds
  generalize X.sign = xs
  bcases h1 : ds < xs
  bcases h2 : ds > xs
  bcases h3 : (ds == 0 && xs == 0) = true
  bcases h4 : (D.form == Form.infinite) = true
  bcases h5 : (X.form == Form.infinite) = true
  congr 1
  split_ifs <;> rfl

theorem GenTieImp_Context_Cmp (c : Ctx) (d : Cell) (x y : Src) (h : Heap) :
    run (Context_Cmp c d x y) h = run (dropAux (cmpOpP c d x y)) h := by
  unfold Context_Cmp cmpOpP dropAux
  simp only [run_bind, run_ite, run_pure, GenTieImp_Context_shouldSetAsNaN, GenTieImp_Context_setAsNaN,
    GenTieImp_Decimal_Cmp, GenTieImp_Decimal_SetInt64]
  split <;> rfl

/-! ## `Decimal.Modf` (either output may be nil, either may be the receiver) -/

theorem GenTieImp_Decimal_Modf (d : Src) (integ frac : Option Cell) (h : Heap) :
    run (Decimal_Modf d integ frac) h = run (modfP d integ frac) h := by
  unfold Decimal_Modf modfP
  cases integ <;> cases frac <;>
    simp only [run_bind, run_ite, run_pure, GenTieImp_Decimal_Set, GenTieImp_Decimal_NumDigits, run_numDigitsP,
      run_rdNeg, run_rdExp, run_rdCoeff, run_setDec, run_wrForm, run_wrNeg, run_wrExp, run_wrCoeff,
      decide_eq_true_eq, show Int.natAbs 0 = 0 from rfl, reduceCtorEq, and_self, and_false, false_and, if_true,
      if_false]

/-! ## `toIntegral`, `RoundToIntegralValue`, `RoundToIntegralExact` -/

theorem GenTieImp_Context_toIntegral (c : Ctx) (d : Cell) (x : Src) (h : Heap) :
    run (Context_toIntegral c d x) h = run (quantizeCoreP c d x 0) h := by
  unfold Context_toIntegral
  simp only [run_bind, run_pure, GenTieImp_Context_quantize]

theorem GenTieImp_Context_toIntegralSpecials (c : Ctx) (d : Cell) (x : Src) (h : Heap) :
    run (Context_toIntegralSpecials c d x) h =
      run (toIntegralSpecialsP c d x >>= fun o => pure (specialsRes o)) h := by
  unfold Context_toIntegralSpecials toIntegralSpecialsP
  simp only [run_bind, run_ite, run_pure, GenTieImp_Context_shouldSetAsNaN, GenTieImp_Context_setAsNaN,
    GenTieImp_Decimal_Set, run_rdForm, specialsRes]
  split_ifs <;> rfl

/-- when `toIntegralSpecialsP` reports "not special" it has written nothing -/
theorem toIntegralSpecialsP_none (c : Ctx) (d : Cell) (x : Src) (h : Heap)
    (hn : (run (toIntegralSpecialsP c d x) h).1 = none) : run (toIntegralSpecialsP c d x) h = (none, h) := by
  unfold toIntegralSpecialsP at hn ⊢
  simp only [run_bind, run_ite, run_pure, run_shouldSetAsNaNP, run_rdForm, ite_pair_heap] at hn ⊢
  split_ifs at hn ⊢ <;> simp_all

theorem GenTieImp_Context_RoundToIntegralValue (c : Ctx) (d : Cell) (x : Src) (h : Heap) :
    run (Context_RoundToIntegralValue c d x) h = run (dropAux (rtivP c d x)) h := by
  unfold Context_RoundToIntegralValue rtivP dropAux retFlags
  simp only [run_bind, GenTieImp_Context_toIntegralSpecials, run_pure]
  cases hs : (run (toIntegralSpecialsP c d x) h).1 with
  | some r => simp [specialsRes]
  | none =>
    have hr := toIntegralSpecialsP_none c d x h hs
    simp [hr, specialsRes, GenTieImp_Context_toIntegral, GenTieImp_Context_goError, cond_clear_inexact_rounded]

theorem GenTieImp_Context_RoundToIntegralExact (c : Ctx) (d : Cell) (x : Src) (h : Heap) :
    run (Context_RoundToIntegralExact c d x) h = run (dropAux (rtieP c d x)) h := by
  unfold Context_RoundToIntegralExact rtieP dropAux retFlags
  simp only [run_bind, GenTieImp_Context_toIntegralSpecials, run_pure]
  cases hs : (run (toIntegralSpecialsP c d x) h).1 with
  | some r => simp [specialsRes]
  | none =>
    have hr := toIntegralSpecialsP_none c d x h hs
    simp [hr, specialsRes, GenTieImp_Context_toIntegral, GenTieImp_Context_goError]

/-! ## `Ceil`, `Floor` (with the variants of `Set` and `Modf` whose destination is a local `Decimal`) -/

/-- `frac.Set(x)` into a local: the four fields are read in order -/
theorem GenTieImp_Decimal_Set_loc0 (d0 : Dec) (x : Src) (h : Heap) :
    run (Decimal_Set_loc0 d0 x) h = (x.val h, h) := by
  unfold Decimal_Set_loc0 Decimal_setSlow_loc0
  simp

/-- `d.Modf(integ, &frac)` with `frac` a local (`Context.Ceil` / `Floor`) -/
theorem GenTieImp_Decimal_Modf_loc2 (d : Src) (i : Cell) (f0 : Dec) (h : Heap) :
    run (Decimal_Modf_loc2 d (some i) f0) h = run (modfLocFrac d i) h := by
  unfold Decimal_Modf_loc2 modfLocFrac
  simp only [run_bind, run_ite, run_pure, GenTieImp_Decimal_Set, GenTieImp_Decimal_Set_loc0,
    GenTieImp_Decimal_NumDigits, run_numDigitsP, run_rdForm, run_rdNeg, run_rdExp, run_rdCoeff, run_setDec,
    run_wrForm, run_wrNeg, run_wrExp, run_wrCoeff, decide_eq_true_eq, show Int.natAbs 0 = 0 from rfl]

theorem decimalOne_eq : decimalOne = decOne := rfl

theorem GenTieImp_Context_Ceil (c : Ctx) (d : Cell) (x : Src) (h : Heap) :
    run (Context_Ceil c d x) h = run (dropAux (ceilP c d x)) h := by
  unfold Context_Ceil ceilP dropAux
  simp only [run_bind, GenTieImp_Context_toIntegralSpecials, run_pure]
  cases hs : (run (toIntegralSpecialsP c d x) h).1 with
  | some r => simp [specialsRes]
  | none =>
    have hr := toIntegralSpecialsP_none c d x h hs
    simp only [hr, specialsRes, run_bind, run_ite, run_pure, GenTieImp_Decimal_Modf_loc2, GenTieImp_Context_Add,
      dropAux, decimalOne_eq, Bool.false_eq_true, if_false, decide_eq_true_eq]
    split_ifs <;> rfl

theorem GenTieImp_Context_Floor (c : Ctx) (d : Cell) (x : Src) (h : Heap) :
    run (Context_Floor c d x) h = run (dropAux (floorP c d x)) h := by
  unfold Context_Floor floorP dropAux
  simp only [run_bind, GenTieImp_Context_toIntegralSpecials, run_pure]
  cases hs : (run (toIntegralSpecialsP c d x) h).1 with
  | some r => simp [specialsRes]
  | none =>
    have hr := toIntegralSpecialsP_none c d x h hs
    simp only [hr, specialsRes, run_bind, run_ite, run_pure, GenTieImp_Decimal_Modf_loc2, GenTieImp_Context_Sub,
      dropAux, decimalOne_eq, Bool.false_eq_true, if_false, decide_eq_true_eq]
    split_ifs <;> rfl

/-! ## `Decimal.Reduce`, `Context.Reduce`.  The `for` loops run on fuel (`Gen/Imp.lean`); the programs agree with
the hand-written ones (which use the kernel `stripZeros`) as soon as the fuel exceeds the coefficient. -/

theorem run_Decimal_setBig (s : Src) (z : Nat) (h : Heap) : (run (Decimal_setBig s z) h).2 = h := by
  unfold Decimal_setBig
  simp only [run_bind, run_rdCoeff, run_rdNeg, run_ite, run_pure, ite_pair_heap]

theorem GenTieImp_Decimal_Reduce (fuel : Nat) (d : Cell) (x : Src) (h : Heap) (hf : (x.val h).coeff < fuel) :
    run (Decimal_Reduce fuel d x) h = run (reduceDec d x) h := by
  unfold Decimal_Reduce reduceDec
  simp only [run_bind, run_ite, run_pure, run_rdForm, GenTieImp_Decimal_Set, run_setDec, GenTieImp_Decimal_Sign,
    run_signP, GenTieImp_Decimal_NumDigits, run_numDigitsP, GenTieImp_Decimal_SetInt64, run_setInt64P, run_rdCoeff,
    run_rdExp, run_rdNeg, run_wrExp, run_wrCoeff, run_wrNeg, Src.val_cell, Heap.set_same, Heap.set_set, narrow32,
    ite_pair_heap, ite_fst, ite_snd, decide_eq_true_eq, run_Decimal_setBig]
  generalize hX : x.val h = X at hf
  bcases h1 : (X.form != Form.finite) = true
  have hfin : X.form = Form.finite := by simpa using h1
  by_cases h2 : X.coeff = 0
  · have hs : X.sign = 0 := by simp [Dec.sign, hfin, h2]
    have hnd0 : ndigits 0 = 1 := by decide
    simp [hs, h2, hnd0]
  · have hs : (X.sign == 0) = false := by
      unfold Dec.sign; simp [hfin, h2]; cases X.neg <;> simp
    have hs' : ¬ (X.sign = 0) := by simpa using hs
    have hn : (X.sign == -1) = X.neg := by
      unfold Dec.sign; simp [hfin, h2]; cases X.neg <;> simp
    have hn' : decide (X.sign = -1) = X.neg := by
      unfold Dec.sign; simp [hfin, h2]
    simp only [hs, hs', hn, hn', Bool.false_eq_true, if_false]
    by_cases h3 : X.coeff < 18446744073709551616
    · have h3' : X.coeff < 2 ^ 64 := by simpa using h3
      obtain ⟨j1, m1, e1, m2, e2, e3⟩ := reduce_loops12 fuel X.coeff (h.set d X) h2 hf
      simp only [h3, h3', if_true, Nat.mod_eq_of_lt h3, e1, e2]
      generalize (stripZeros X.coeff).2 = t at e3 ⊢
      generalize (stripZeros X.coeff).1 = sc
      have hm : (m1 : Int) + (m2 : Int) = (t : Int) := by omega
      rw [hm]
      by_cases ht : t = 0
      · simp [ht]
      · have ht' : ((t : Int) != 0) = true := by simp; omega
        have ht'' : (t != 0) = true := by simp [ht]
        simp only [ht', ht'', if_true, Heap.set_same, Heap.set_set]
        cases X.neg <;> rfl
    · have h3' : ¬ X.coeff < 2 ^ 64 := by simpa using h3
      obtain ⟨m, r', z', e1, e2⟩ := reduce_loop3 d fuel 0 0 (run (Decimal_setBig (Src.cell d) 0) (h.set d X)).1
        (h.set d X) (by simpa using h2) (by simpa using hf)
      simp only [h3, h3', if_false, e1, e2, Heap.set_same, Heap.set_set]
      simp

/-- `Context.Reduce` returns `(int, Condition, error)`; the hand-written `reduceP` returns `(flags, error, count)` -/
theorem GenTieImp_Context_Reduce (fuel : Nat) (c : Ctx) (d : Cell) (x : Src) (h : Heap)
    (hf : (roundX c (x.val h) true).1.coeff < fuel) :
    run (Context_Reduce fuel c d x) h = run (reduceP c d x >>= fun r => pure (r.2.2, r.1, r.2.1)) h := by
  unfold Context_Reduce reduceP
  simp only [run_bind, run_ite, run_pure, GenTieImp_Context_shouldSetAsNaN, GenTieImp_Context_setAsNaN,
    GenTieImp_Context_round, GenTieImp_Context_goError, run_rdNeg, run_roundP]
  split
  · rfl
  · rw [GenTieImp_Decimal_Reduce fuel d (Src.cell d) _ (by simpa using hf)]

/-! AXIOMS-BEGIN -/
#print axioms Apd.Props.GenTieImp_Condition_Inexact
#print axioms Apd.Props.GenTieImp_Condition_Subnormal
#print axioms Apd.Props.GenTieImp_Condition_GoError
#print axioms Apd.Props.GenTieImp_Context_goError
#print axioms Apd.Props.GenTieImp_Decimal_NumDigits
#print axioms Apd.Props.GenTieImp_Decimal_Sign
#print axioms Apd.Props.GenTieImp_Decimal_IsZero
#print axioms Apd.Props.GenTieImp_Decimal_Set
#print axioms Apd.Props.GenTieImp_Decimal_Neg
#print axioms Apd.Props.GenTieImp_Decimal_Abs
#print axioms Apd.Props.GenTieImp_Decimal_SetInt64
#print axioms Apd.Props.GenTieImp_Decimal_setSlow
#print axioms Apd.Props.GenTieImp_Decimal_SetFinite
#print axioms Apd.Props.GenTieImp_Context_shouldSetAsNaN
#print axioms Apd.Props.GenTieImp_Context_setAsNaN
#print axioms Apd.Props.GenTieImp_roundAddOne
#print axioms Apd.Props.GenTieImp_Decimal_setExponent
#print axioms Apd.Props.GenTieImp_Decimal_setExponent_some
#print axioms Apd.Props.GenTieImp_Decimal_setExponent_none
#print axioms Apd.Props.GenTieImp_Rounder_Round
#print axioms Apd.Props.GenTieImp_Context_round
#print axioms Apd.Props.GenTieImp_Context_Round
#print axioms Apd.Props.GenTieImp_Context_Abs
#print axioms Apd.Props.GenTieImp_Context_Neg
#print axioms Apd.Props.GenTieImp_upscale
#print axioms Apd.Props.GenTieImp_Context_add
#print axioms Apd.Props.GenTieImp_Context_Add
#print axioms Apd.Props.GenTieImp_Context_Sub
#print axioms Apd.Props.GenTieImp_Context_Mul
#print axioms Apd.Props.GenTieImp_Context_etiny
#print axioms Apd.Props.GenTieImp_Context_quoSpecials
#print axioms Apd.Props.GenTieImp_Context_QuoInteger
#print axioms Apd.Props.GenTieImp_Context_Rem
#print axioms Apd.Props.GenTieImp_Context_Quo
#print axioms Apd.Props.GenTieImp_Condition_Overflow
#print axioms Apd.Props.GenTieImp_Condition_Underflow
#print axioms Apd.Props.GenTieImp_Context_quantize
#print axioms Apd.Props.GenTieImp_Context_Quantize
#print axioms Apd.Props.GenTieImp_Decimal_Cmp
#print axioms Apd.Props.GenTieImp_Context_Cmp
#print axioms Apd.Props.GenTieImp_Decimal_Modf
#print axioms Apd.Props.GenTieImp_Context_toIntegral
#print axioms Apd.Props.GenTieImp_Context_toIntegralSpecials
#print axioms Apd.Props.GenTieImp_Context_RoundToIntegralValue
#print axioms Apd.Props.GenTieImp_Context_RoundToIntegralExact
#print axioms Apd.Props.GenTieImp_Decimal_Set_loc0
#print axioms Apd.Props.GenTieImp_Decimal_Modf_loc2
#print axioms Apd.Props.GenTieImp_Context_Ceil
#print axioms Apd.Props.GenTieImp_Context_Floor
#print axioms Apd.Props.GenTieImp_Decimal_Reduce
#print axioms Apd.Props.GenTieImp_Context_Reduce
/-! AXIOMS-END -/

end Apd.Props
