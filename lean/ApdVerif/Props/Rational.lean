import ApdVerif.Spec.Rational
import ApdVerif.Lemmas.C20Lemmas
import Mathlib.Order.Compare
import Mathlib.Tactic.SplitIfs
import Mathlib.Tactic.Ring
import Mathlib.Tactic.Linarith
import Mathlib.Tactic.Positivity
import Mathlib.Tactic.FieldSimp
import Mathlib.Tactic.NormNum
/-!
# The integer oracle computes the readable rational specification
-/
namespace Apd.RatSpec
open Apd Apd.Oracle Apd.C20L

/-! ## adjusted exponent -/

theorem IsAdj_unique {v : ℚ} {a b : ℤ} (ha : IsAdj v a) (hb : IsAdj v b) : a = b := by
  obtain ⟨a1, a2⟩ := ha
  obtain ⟨b1, b2⟩ := hb
  have h1 : (10 : ℚ) ^ a < (10 : ℚ) ^ (b + 1) := lt_of_le_of_lt a1 b2
  have h2 : (10 : ℚ) ^ b < (10 : ℚ) ^ (a + 1) := lt_of_le_of_lt b1 a2
  rw [zpow_lt_zpow_iff_right₀ ten_gt] at h1 h2
  omega

theorem IsAdj_pos {v : ℚ} {a : ℤ} (ha : IsAdj v a) : 0 < v := lt_of_lt_of_le (tp a) ha.1

/-- `adjRat` computes the adjusted exponent of `num/den` -/
theorem Rat_adjRat_isAdj (num den : Nat) (hn : 0 < num) (hd : 0 < den) :
    IsAdj ((num : ℚ) / (den : ℚ)) (adjRat num den) := adjRat_spec num den hn hd

theorem IsAdj_exists {v : ℚ} (hv : 0 < v) : ∃ a, IsAdj v a := by
  have hnum : 0 < v.num := Rat.num_pos.2 hv
  have e : v = ((v.num.toNat : ℕ) : ℚ) / ((v.den : ℕ) : ℚ) := by
    conv_lhs => rw [← Rat.num_div_den v]
    congr 1
    have : ((v.num.toNat : ℕ) : ℤ) = v.num := Int.toNat_of_nonneg hnum.le
    exact_mod_cast this.symm
  have h0 : 0 < v.num.toNat := by omega
  have := Rat_adjRat_isAdj _ _ h0 v.den_pos
  rw [← e] at this
  exact ⟨_, this⟩

theorem IsAdj_existsUnique {v : ℚ} (hv : 0 < v) : ∃! a, IsAdj v a := by
  obtain ⟨a, ha⟩ := IsAdj_exists hv
  exact ⟨a, ha, fun b hb => IsAdj_unique hb ha⟩

theorem IsAdj_scale {v : ℚ} {a : ℤ} (ha : IsAdj v a) (e : ℤ) : IsAdj (v * (10 : ℚ) ^ e) (a + e) := by
  obtain ⟨h1, h2⟩ := ha
  have hp := tp e
  constructor
  · rw [zpow_add₀ ten_ne]; exact mul_le_mul_of_nonneg_right h1 hp.le
  · rw [show a + e + 1 = (a + 1) + e by ring, zpow_add₀ ten_ne]
    exact mul_lt_mul_of_pos_right h2 hp

theorem mag_eq_qval (v : Exact) : v.mag = qval v.num v.den v.e10 := rfl

theorem mag_pos (v : Exact) (hn : 0 < v.num) (hd : 0 < v.den) : 0 < v.mag := by
  unfold Exact.mag
  have : (0 : ℚ) < v.num := by exact_mod_cast hn
  have : (0 : ℚ) < v.den := by exact_mod_cast hd
  have := tp v.e10
  positivity

/-- the adjusted exponent of the magnitude of an exact value is the oracle's `adj` -/
theorem mag_isAdj (v : Exact) (hn : 0 < v.num) (hd : 0 < v.den) :
    IsAdj v.mag (adjRat v.num v.den + v.e10) :=
  IsAdj_scale (Rat_adjRat_isAdj v.num v.den hn hd) v.e10

theorem adj_eq (v : Exact) (hn : 0 < v.num) (hd : 0 < v.den) {a : ℤ} (ha : IsAdj v.mag a) :
    adjRat v.num v.den + v.e10 = a := IsAdj_unique (mag_isAdj v hn hd) ha

theorem specQ_eq (c : Ctx) (v : Exact) (hn : 0 < v.num) (hd : 0 < v.den) {a : ℤ} (ha : IsAdj v.mag a) :
    specQ c v = quantum c a := by
  unfold specQ quantum; rw [adj_eq v hn hd ha]

/-! ## `roundAt` is `roundInt` -/

theorem compare_half (r D : ℕ) (hD : 0 < D) :
    compare ((r : ℚ) / (D : ℚ)) (1 / 2) = compare (2 * r) D := by
  have hDq : (0 : ℚ) < D := by exact_mod_cast hD
  rcases Nat.lt_trichotomy (2 * r) D with h | h | h
  · rw [Nat.compare_eq_lt.2 h, compare_lt_iff_lt, div_lt_iff₀ hDq]
    have : ((2 * r : ℕ) : ℚ) < D := by exact_mod_cast h
    push_cast at this; linarith
  · rw [Nat.compare_eq_eq.2 h, compare_eq_iff_eq, div_eq_iff hDq.ne']
    have : ((2 * r : ℕ) : ℚ) = D := by exact_mod_cast h
    push_cast at this; linarith
  · rw [Nat.compare_eq_gt.2 h, compare_gt_iff_gt, lt_div_iff₀ hDq]
    have : (D : ℚ) < ((2 * r : ℕ) : ℚ) := by exact_mod_cast h
    push_cast at this; linarith

theorem floor_div (N D : ℕ) : ⌊(N : ℚ) / (D : ℚ)⌋ = ((N / D : ℕ) : ℤ) := by
  rw [Rat.floor_natCast_div_natCast]; rfl

theorem div_decomp (N D : ℕ) (hD : 0 < D) :
    (N : ℚ) / (D : ℚ) - ((N / D : ℕ) : ℚ) = ((N % D : ℕ) : ℚ) / (D : ℚ) := by
  have hDq : (D : ℚ) ≠ 0 := by exact_mod_cast hD.ne'
  have e : (N : ℚ) = D * ((N / D : ℕ) : ℚ) + ((N % D : ℕ) : ℚ) := by
    exact_mod_cast (Nat.div_add_mod N D).symm
  field_simp
  linarith

theorem div_eq_floor_iff (N D : ℕ) (hD : 0 < D) :
    (N : ℚ) / (D : ℚ) = ((N / D : ℕ) : ℚ) ↔ N % D = 0 := by
  have hDq : (D : ℚ) ≠ 0 := by exact_mod_cast hD.ne'
  have := div_decomp N D hD
  constructor
  · intro h
    rw [h, sub_self] at this
    have h2 : ((N % D : ℕ) : ℚ) = 0 := by
      have := this.symm
      rcases div_eq_zero_iff.1 this with h | h
      · exact h
      · exact absurd h hDq
    exact_mod_cast h2
  · intro h
    rw [h] at this
    simp at this
    linarith

/-- the integer-level rounding of `N/D` is `roundInt` of the rational `N/D` -/
theorem rnd_roundInt (mode : Mode) (neg : Bool) (N D : ℕ) (hD : 0 < D) :
    (((rnd mode neg N D).1 : ℕ) : ℤ) = roundInt mode neg ((N : ℚ) / (D : ℚ)) := by
  unfold roundInt rnd
  simp only [floor_div, Int.toNat_natCast, Int.cast_natCast]
  by_cases h : N % D = 0
  · rw [if_pos ((div_eq_floor_iff N D hD).2 h)]
    simp [h]
  · rw [if_neg (fun hh => h ((div_eq_floor_iff N D hD).1 hh))]
    rw [div_decomp N D hD, compare_half _ _ hD]
    simp only [beq_iff_eq, h, if_false]
    split <;> simp

theorem rnd_inexact (mode : Mode) (neg : Bool) (N D : ℕ) (hD : 0 < D) :
    (rnd mode neg N D).2 = true ↔ ((roundInt mode neg ((N : ℚ) / (D : ℚ)) : ℤ) : ℚ) ≠ (N : ℚ) / (D : ℚ) := by
  have key : ((roundInt mode neg ((N : ℚ) / (D : ℚ)) : ℤ) : ℚ) = (((rnd mode neg N D).1 : ℕ) : ℚ) := by
    rw [← rnd_roundInt mode neg N D hD]; exact Int.cast_natCast _
  rw [key]
  have hDq : (0 : ℚ) < D := by exact_mod_cast hD
  by_cases h : N % D = 0
  · have e := (div_eq_floor_iff N D hD).2 h
    unfold rnd; simp [h, e]
  · have ne : (N : ℚ) / (D : ℚ) ≠ ((N / D : ℕ) : ℚ) := fun hh => h ((div_eq_floor_iff N D hD).1 hh)
    obtain ⟨f1, f2⟩ := nat_floor N D hD
    unfold rnd
    simp only [beq_iff_eq, h, if_false, true_iff]
    split
    · push_cast; intro hh; linarith
    · exact fun hh => ne hh.symm


theorem roundAt_roundInt (mode : Mode) (neg : Bool) (num den : ℕ) (e10 q : ℤ) (hd : den ≠ 0) :
    (((roundAt mode neg num den e10 q).1 : ℕ) : ℤ) =
      roundInt mode neg (qval num den e10 / (10 : ℚ) ^ q) := by
  rw [roundAt_rnd, rnd_roundInt _ _ _ _ (rD_pos den e10 q hd), rN_rD num den e10 q hd]

theorem roundAt_inexact_iff (mode : Mode) (neg : Bool) (num den : ℕ) (e10 q : ℤ) (hd : den ≠ 0) :
    (roundAt mode neg num den e10 q).2 = true ↔
      ((roundInt mode neg (qval num den e10 / (10 : ℚ) ^ q) : ℤ) : ℚ) ≠ qval num den e10 / (10 : ℚ) ^ q := by
  rw [roundAt_rnd, rnd_inexact _ _ _ _ (rD_pos den e10 q hd), rN_rD num den e10 q hd]

/-! ## general facts about `roundInt` -/

theorem roundInt_floor_or_succ (mode : Mode) (neg : Bool) (t : ℚ) :
    roundInt mode neg t = ⌊t⌋ ∨ roundInt mode neg t = ⌊t⌋ + 1 := by
  unfold roundInt
  simp only []
  split_ifs <;> simp

theorem roundInt_of_int (mode : Mode) (neg : Bool) (t : ℚ) (k : ℤ) (h : t = (k : ℚ)) :
    roundInt mode neg t = k := by
  subst h
  unfold roundInt
  simp

theorem roundInt_floor_or_ceil (mode : Mode) (neg : Bool) (t : ℚ) :
    roundInt mode neg t = ⌊t⌋ ∨ roundInt mode neg t = ⌈t⌉ := by
  by_cases h : t = ((⌊t⌋ : ℤ) : ℚ)
  · left; exact roundInt_of_int mode neg t _ h
  · rcases roundInt_floor_or_succ mode neg t with h1 | h1
    · exact Or.inl h1
    · right; rw [h1]; symm
      rw [Int.ceil_eq_iff]
      have f1 := Int.floor_le t
      have f2 := Int.lt_floor_add_one t
      have : ((⌊t⌋ : ℤ) : ℚ) < t := lt_of_le_of_ne f1 (Ne.symm h)
      push_cast
      constructor <;> linarith

theorem roundInt_nonneg (mode : Mode) (neg : Bool) (t : ℚ) (ht : 0 ≤ t) : 0 ≤ roundInt mode neg t := by
  have : 0 ≤ ⌊t⌋ := Int.floor_nonneg.2 ht
  rcases roundInt_floor_or_succ mode neg t with h | h <;> omega


/-! ## what the eight modes mean (readable reading of `specAddOne` inside `roundInt`) -/

theorem roundInt_not_int (mode : Mode) (neg : Bool) (t : ℚ) (h : t ≠ ((⌊t⌋ : ℤ) : ℚ)) :
    roundInt mode neg t =
      if specAddOne mode ⌊t⌋.toNat neg (compare (t - ((⌊t⌋ : ℤ) : ℚ)) (1 / 2)) then ⌊t⌋ + 1 else ⌊t⌋ := by
  unfold roundInt; simp only []; rw [if_neg h]

theorem ceil_of_not_int (t : ℚ) (h : t ≠ ((⌊t⌋ : ℤ) : ℚ)) : ⌈t⌉ = ⌊t⌋ + 1 := by
  rw [Int.ceil_eq_iff]
  have f1 := Int.floor_le t
  have f2 := Int.lt_floor_add_one t
  have : ((⌊t⌋ : ℤ) : ℚ) < t := lt_of_le_of_ne f1 (Ne.symm h)
  push_cast
  constructor <;> linarith

theorem ceil_of_int (t : ℚ) (h : t = ((⌊t⌋ : ℤ) : ℚ)) : ⌈t⌉ = ⌊t⌋ := by
  conv_lhs => rw [h]
  exact Int.ceil_intCast _

/-- `RoundDown`: towards zero -/
theorem Rat_roundInt_down (neg : Bool) (t : ℚ) : roundInt .down neg t = ⌊t⌋ := by
  by_cases h : t = ((⌊t⌋ : ℤ) : ℚ)
  · exact roundInt_of_int _ _ _ _ h
  · rw [roundInt_not_int _ _ _ h]; simp [specAddOne]

/-- `RoundUp`: away from zero -/
theorem Rat_roundInt_up (neg : Bool) (t : ℚ) : roundInt .up neg t = ⌈t⌉ := by
  by_cases h : t = ((⌊t⌋ : ℤ) : ℚ)
  · rw [ceil_of_int t h]; exact roundInt_of_int _ _ _ _ h
  · rw [roundInt_not_int _ _ _ h, ceil_of_not_int t h]; simp [specAddOne]

/-- `RoundCeiling`: towards +∞ (so the magnitude of a negative value is rounded down) -/
theorem Rat_roundInt_ceiling (neg : Bool) (t : ℚ) :
    roundInt .ceiling neg t = if neg then ⌊t⌋ else ⌈t⌉ := by
  by_cases h : t = ((⌊t⌋ : ℤ) : ℚ)
  · rw [ceil_of_int t h, roundInt_of_int _ _ _ _ h]; simp
  · rw [roundInt_not_int _ _ _ h, ceil_of_not_int t h]; cases neg <;> simp [specAddOne]

/-- `RoundFloor`: towards -∞ -/
theorem Rat_roundInt_floor (neg : Bool) (t : ℚ) :
    roundInt .floor neg t = if neg then ⌈t⌉ else ⌊t⌋ := by
  by_cases h : t = ((⌊t⌋ : ℤ) : ℚ)
  · rw [ceil_of_int t h, roundInt_of_int _ _ _ _ h]; simp
  · rw [roundInt_not_int _ _ _ h, ceil_of_not_int t h]; cases neg <;> simp [specAddOne]

/-- the three `Half` modes round to a nearest integer -/
theorem Rat_roundInt_half_nearest (mode : Mode) (hm : mode = .halfUp ∨ mode = .halfDown ∨ mode = .halfEven)
    (neg : Bool) (t : ℚ) : |((roundInt mode neg t : ℤ) : ℚ) - t| ≤ 1 / 2 := by
  by_cases h : t = ((⌊t⌋ : ℤ) : ℚ)
  · rw [roundInt_of_int _ _ _ _ h, ← h]; simp
  · have f1 := Int.floor_le t
    have f2 := Int.lt_floor_add_one t
    rw [roundInt_not_int _ _ _ h, abs_le]
    rcases lt_trichotomy (t - ((⌊t⌋ : ℤ) : ℚ)) (1 / 2) with hc | hc | hc
    · rw [compare_lt_iff_lt.2 hc]
      rcases hm with rfl | rfl | rfl <;> simp [specAddOne] <;> constructor <;> linarith
    · rw [compare_eq_iff_eq.2 hc]
      split_ifs <;> push_cast <;> constructor <;> linarith
    · rw [compare_gt_iff_gt.2 hc]
      rcases hm with rfl | rfl | rfl <;> simp [specAddOne] <;> constructor <;> linarith

/-- ties: `HalfUp` away from zero, `HalfDown` towards zero, `HalfEven` to the even neighbour -/
theorem Rat_roundInt_tie (neg : Bool) (t : ℚ) (ht : 0 ≤ t) (h : t - ((⌊t⌋ : ℤ) : ℚ) = 1 / 2) :
    roundInt .halfUp neg t = ⌊t⌋ + 1 ∧ roundInt .halfDown neg t = ⌊t⌋ ∧
    roundInt .halfEven neg t % 2 = 0 := by
  have hne : t ≠ ((⌊t⌋ : ℤ) : ℚ) := by intro hh; rw [← hh, sub_self] at h; norm_num at h
  have h0 : 0 ≤ ⌊t⌋ := Int.floor_nonneg.2 ht
  rw [roundInt_not_int _ _ _ hne, roundInt_not_int _ _ _ hne, roundInt_not_int _ _ _ hne,
    compare_eq_iff_eq.2 h]
  refine ⟨by simp [specAddOne], by simp [specAddOne], ?_⟩
  by_cases hodd : ⌊t⌋.toNat % 2 = 1
  · simp [specAddOne, hodd]; omega
  · simp [specAddOne, hodd]; omega

/-- `Round05Up`: away from zero exactly when the truncated integer ends in 0 or 5 -/
theorem Rat_roundInt_r05up (neg : Bool) (t : ℚ) (ht : 0 ≤ t) (h : t ≠ ((⌊t⌋ : ℤ) : ℚ)) :
    roundInt .r05up neg t = if ⌊t⌋ % 10 = 0 ∨ ⌊t⌋ % 10 = 5 then ⌊t⌋ + 1 else ⌊t⌋ := by
  have h0 : 0 ≤ ⌊t⌋ := Int.floor_nonneg.2 ht
  rw [roundInt_not_int _ _ _ h]
  simp only [specAddOne, Bool.or_eq_true, beq_iff_eq]
  have e : (⌊t⌋.toNat % 10 = 0 ∨ ⌊t⌋.toNat % 10 = 5) ↔ (⌊t⌋ % 10 = 0 ∨ ⌊t⌋ % 10 = 5) := by omega
  simp only [e]

/-! ## `specRound` -/

theorem specRound_pos (c : Ctx) (v : Exact) (hn : 0 < v.num) :
    specRound c v = specCore c v (roundAt c.mode v.neg v.num v.den v.e10 (specQ c v)) := by
  rw [specRound_eq]
  have : (v.num == 0) = false := by simp; omega
  rw [this]; rfl

/-- the value `r.1 × 10^Q` produced inside `specRound` is the readable `roundedMag` -/
theorem core_value (c : Ctx) (v : Exact) (hn : 0 < v.num) (hd : 0 < v.den) {a : ℤ} (ha : IsAdj v.mag a) :
    (((roundAt c.mode v.neg v.num v.den v.e10 (specQ c v)).1 : ℕ) : ℚ) * (10 : ℚ) ^ (specQ c v) =
      roundedMag c v.neg v.mag a := by
  have h := roundAt_roundInt c.mode v.neg v.num v.den v.e10 (specQ c v) (by omega)
  unfold roundedMag
  rw [← specQ_eq c v hn hd ha, mag_eq_qval, ← h, Int.cast_natCast]

/-- the sign of the specified result is the sign of the exact value (zero included) -/
theorem Rat_specRound_neg (c : Ctx) (v : Exact) : (specRound c v).neg = v.neg := by
  rw [specRound_eq]; unfold specCore; split_ifs <;> rfl

/-- an exact zero is delivered unchanged (`0 × 10^e10`, sign kept) with no flags -/
theorem Rat_specRound_zero (c : Ctx) (v : Exact) (h : v.num = 0) :
    (specRound c v).inf = false ∧ (specRound c v).m = 0 ∧ (specRound c v).q = v.e10 ∧
    (specRound c v).inexact = false ∧ (specRound c v).subnormal = false ∧
    (specRound c v).overflow = false := by
  rw [specRound_eq]; simp [h]

/-- OVERFLOW: the result is an infinity exactly when the rounded magnitude reaches `10^(emax+1)`,
i.e. when the adjusted exponent of the ROUNDED value exceeds `emax` -/
theorem Rat_specRound_overflow (c : Ctx) (v : Exact) (hn : 0 < v.num) (hd : 0 < v.den)
    {a : ℤ} (ha : IsAdj v.mag a) :
    (specRound c v).inf = true ↔ (10 : ℚ) ^ (c.emax + 1) ≤ roundedMag c v.neg v.mag a := by
  rw [specRound_pos c v hn, specCore_inf, inf_iff, core_value c v hn hd ha]

/-- the same, in the words of the property text: the adjusted exponent of the rounded magnitude
exceeds `emax` -/
theorem Rat_specRound_overflow_adj (c : Ctx) (v : Exact) (hn : 0 < v.num) (hd : 0 < v.den)
    {a b : ℤ} (ha : IsAdj v.mag a) (hb : IsAdj (roundedMag c v.neg v.mag a) b) :
    (specRound c v).inf = true ↔ c.emax < b := by
  rw [Rat_specRound_overflow c v hn hd ha]
  obtain ⟨b1, b2⟩ := hb
  constructor
  · intro h
    have : (10 : ℚ) ^ (c.emax + 1) < (10 : ℚ) ^ (b + 1) := lt_of_le_of_lt h b2
    rw [zpow_lt_zpow_iff_right₀ ten_gt] at this
    omega
  · intro h
    exact le_trans (zpow_le_zpow_right₀ ten_ge (by omega)) b1

theorem Rat_specRound_overflow_flag (c : Ctx) (v : Exact) :
    (specRound c v).overflow = (specRound c v).inf := by
  rw [specRound_eq]; unfold specCore; split_ifs <;> rfl

/-- the exponent of a finite non-zero result is the quantum -/
theorem Rat_specRound_q (c : Ctx) (v : Exact) (hn : 0 < v.num) (hd : 0 < v.den)
    {a : ℤ} (ha : IsAdj v.mag a) (hfin : (specRound c v).inf = false) :
    (specRound c v).q = quantum c a := by
  rw [specRound_pos c v hn] at hfin ⊢
  have h : ¬ ((roundAt c.mode v.neg v.num v.den v.e10 (specQ c v)).1 ≠ 0 ∧
      specQ c v + (ndigits (roundAt c.mode v.neg v.num v.den v.e10 (specQ c v)).1 : Int) - 1 > c.emax) := by
    rw [← specCore_inf, hfin]; simp
  rw [(specCore_fin c v _ h).2.2.1, specQ_eq c v hn hd ha]

/-- VALUE: a finite result is the magnitude divided by the quantum, rounded to an integer by the
mode, times the quantum -/
theorem Rat_specRound_value (c : Ctx) (v : Exact) (hn : 0 < v.num) (hd : 0 < v.den)
    {a : ℤ} (ha : IsAdj v.mag a) (hfin : (specRound c v).inf = false) :
    ((specRound c v).m : ℚ) * (10 : ℚ) ^ (specRound c v).q = roundedMag c v.neg v.mag a := by
  rw [specRound_pos c v hn] at hfin ⊢
  have h : ¬ ((roundAt c.mode v.neg v.num v.den v.e10 (specQ c v)).1 ≠ 0 ∧
      specQ c v + (ndigits (roundAt c.mode v.neg v.num v.den v.e10 (specQ c v)).1 : Int) - 1 > c.emax) := by
    rw [← specCore_inf, hfin]; simp
  obtain ⟨-, hm, hq, -⟩ := specCore_fin c v _ h
  rw [hm, hq, core_value c v hn hd ha]

/-- the signed value of a finite result -/
theorem Rat_specRound_toRat (c : Ctx) (v : Exact) (hn : 0 < v.num) (hd : 0 < v.den)
    {a : ℤ} (ha : IsAdj v.mag a) (hfin : (specRound c v).inf = false) :
    (specRound c v).toRat = (if v.neg then -1 else 1) * roundedMag c v.neg v.mag a := by
  unfold SpecOut.toRat
  rw [Rat_specRound_neg, mul_assoc, Rat_specRound_value c v hn hd ha hfin]

/-- INEXACT: raised exactly when the result overflowed or the rounded value differs from the exact one -/
theorem Rat_specRound_inexact (c : Ctx) (v : Exact) (hn : 0 < v.num) (hd : 0 < v.den)
    {a : ℤ} (ha : IsAdj v.mag a) :
    (specRound c v).inexact = true ↔
      ((10 : ℚ) ^ (c.emax + 1) ≤ roundedMag c v.neg v.mag a ∨ roundedMag c v.neg v.mag a ≠ v.mag) := by
  by_cases hinf : (specRound c v).inf = true
  · have h1 : (specRound c v).inexact = true := by
      rw [specRound_pos c v hn] at hinf ⊢
      unfold specCore at hinf ⊢
      split_ifs at hinf ⊢ with h
      rfl
    have h2 := (Rat_specRound_overflow c v hn hd ha).1 hinf
    simp [h1, h2]
  · have h2 : ¬ (10 : ℚ) ^ (c.emax + 1) ≤ roundedMag c v.neg v.mag a :=
      fun hh => hinf ((Rat_specRound_overflow c v hn hd ha).2 hh)
    rw [specRound_pos c v hn] at hinf ⊢
    have h : ¬ ((roundAt c.mode v.neg v.num v.den v.e10 (specQ c v)).1 ≠ 0 ∧
        specQ c v + (ndigits (roundAt c.mode v.neg v.num v.den v.e10 (specQ c v)).1 : Int) - 1 > c.emax) := by
      rw [← specCore_inf]; exact hinf
    obtain ⟨-, -, -, hi⟩ := specCore_fin c v _ h
    rw [hi, roundAt_inexact_iff _ _ _ _ _ _ (by omega : v.den ≠ 0)]
    simp only [h2, false_or]
    unfold roundedMag
    rw [← specQ_eq c v hn hd ha, mag_eq_qval]
    have hp := tp (specQ c v)
    rw [Ne, Ne, ← eq_div_iff hp.ne']

/-- SUBNORMAL: raised exactly when the exact (unrounded) magnitude is below `10^emin` -/
theorem Rat_specRound_subnormal (c : Ctx) (v : Exact) (hn : 0 < v.num) (hd : 0 < v.den) :
    (specRound c v).subnormal = true ↔ v.mag < (10 : ℚ) ^ c.emin := by
  have ha := mag_isAdj v hn hd
  have e : (specRound c v).subnormal = decide (adjRat v.num v.den + v.e10 < c.emin) := by
    rw [specRound_pos c v hn]; unfold specCore; split_ifs <;> rfl
  rw [e, decide_eq_true_eq]
  obtain ⟨h1, h2⟩ := ha
  constructor
  · intro h
    exact lt_of_lt_of_le h2 (zpow_le_zpow_right₀ ten_ge (by omega))
  · intro h
    have : (10 : ℚ) ^ (adjRat v.num v.den + v.e10) < (10 : ℚ) ^ c.emin := lt_of_le_of_lt h1 h
    rwa [zpow_lt_zpow_iff_right₀ ten_gt] at this

/-- UNDERFLOW = subnormal and inexact (definitional) -/
theorem Rat_specRound_underflow (c : Ctx) (v : Exact) :
    (specRound c v).underflow = ((specRound c v).subnormal && (specRound c v).inexact) := rfl

/-- BRACKET (for the readable spec): the rounded magnitude is one of the two adjacent multiples of
the quantum enclosing the exact magnitude, and is the exact magnitude when that is a multiple -/
theorem Rat_roundedMag_bracket (c : Ctx) (neg : Bool) (x : ℚ) (a : ℤ) :
    (roundedMag c neg x a = (⌊x / (10 : ℚ) ^ quantum c a⌋ : ℚ) * (10 : ℚ) ^ quantum c a ∨
     roundedMag c neg x a = (⌈x / (10 : ℚ) ^ quantum c a⌉ : ℚ) * (10 : ℚ) ^ quantum c a) ∧
    (⌊x / (10 : ℚ) ^ quantum c a⌋ : ℚ) * (10 : ℚ) ^ quantum c a ≤ x ∧
    x ≤ (⌈x / (10 : ℚ) ^ quantum c a⌉ : ℚ) * (10 : ℚ) ^ quantum c a ∧
    ⌈x / (10 : ℚ) ^ quantum c a⌉ ≤ ⌊x / (10 : ℚ) ^ quantum c a⌋ + 1 ∧
    (∀ k : ℤ, x = (k : ℚ) * (10 : ℚ) ^ quantum c a → roundedMag c neg x a = x) := by
  have hp := tp (quantum c a)
  refine ⟨?_, ?_, ?_, Int.ceil_le_floor_add_one _, ?_⟩
  · unfold roundedMag
    rcases roundInt_floor_or_ceil c.mode neg (x / (10 : ℚ) ^ quantum c a) with h | h
    · left; rw [h]
    · right; rw [h]
  · rw [← le_div_iff₀ hp]; exact Int.floor_le _
  · rw [← div_le_iff₀ hp]; exact Int.le_ceil _
  · intro k hk
    unfold roundedMag
    rw [roundInt_of_int c.mode neg _ k (by rw [hk]; field_simp), ← hk]

/-- BRACKET for the oracle: the coefficient of a finite result is the floor or the ceiling of
`|v| / 10^q`, the two candidates enclose `|v|`, and the result is exact when `|v|` is a multiple of `10^q` -/
theorem Rat_specRound_bracket (c : Ctx) (v : Exact) (hn : 0 < v.num) (hd : 0 < v.den)
    (hfin : (specRound c v).inf = false) :
    (((specRound c v).m : ℤ) = ⌊v.mag / (10 : ℚ) ^ (specRound c v).q⌋ ∨
     ((specRound c v).m : ℤ) = ⌈v.mag / (10 : ℚ) ^ (specRound c v).q⌉) ∧
    (⌊v.mag / (10 : ℚ) ^ (specRound c v).q⌋ : ℚ) * (10 : ℚ) ^ (specRound c v).q ≤ v.mag ∧
    v.mag ≤ (⌈v.mag / (10 : ℚ) ^ (specRound c v).q⌉ : ℚ) * (10 : ℚ) ^ (specRound c v).q ∧
    ⌈v.mag / (10 : ℚ) ^ (specRound c v).q⌉ ≤ ⌊v.mag / (10 : ℚ) ^ (specRound c v).q⌋ + 1 ∧
    (∀ k : ℤ, v.mag = (k : ℚ) * (10 : ℚ) ^ (specRound c v).q →
      ((specRound c v).m : ℚ) * (10 : ℚ) ^ (specRound c v).q = v.mag) := by
  have ha := mag_isAdj v hn hd
  have hq := Rat_specRound_q c v hn hd ha hfin
  have hv := Rat_specRound_value c v hn hd ha hfin
  obtain ⟨b1, b2, b3, b4, b5⟩ := Rat_roundedMag_bracket c v.neg v.mag (adjRat v.num v.den + v.e10)
  rw [hq] at hv ⊢
  have hp := tp (quantum c (adjRat v.num v.den + v.e10))
  refine ⟨?_, b2, b3, b4, ?_⟩
  · rw [← hv] at b1
    rcases b1 with h | h
    · left; have := mul_right_cancel₀ hp.ne' h; exact_mod_cast this
    · right; have := mul_right_cancel₀ hp.ne' h; exact_mod_cast this
  · intro k hk; rw [hv]; exact b5 k hk


/-! ## values of `Exact`, `Dec`, `SpecOut` -/

theorem Exact.toRat_eq (v : Exact) : v.toRat = (if v.neg then -1 else 1) * v.mag := by
  unfold Exact.toRat Exact.mag; ring

theorem Exact.abs_toRat (v : Exact) : |v.toRat| = v.mag := by
  have h : 0 ≤ v.mag := by
    unfold Exact.mag
    have := (tp v.e10).le
    positivity
  rw [Exact.toRat_eq]
  cases v.neg <;> simp [abs_of_nonneg h]

/-- aligning a coefficient to a smaller exponent does not change the value -/
theorem align (k : ℕ) (E e : ℤ) (h : e ≤ E) :
    ((k * 10 ^ (E - e).toNat : ℕ) : ℚ) * (10 : ℚ) ^ e = (k : ℚ) * (10 : ℚ) ^ E := by
  rw [Nat.cast_mul, zpow_toNat _ (by omega), mul_assoc, ← zpow_add₀ ten_ne]
  congr 2; omega

/-! ## the exact-value builders -/

theorem Rat_exactRound_toRat (x : Dec) : (exactRound x).toRat = x.toRat := by
  unfold exactRound Exact.toRat Dec.toRat; simp

theorem Rat_exactAbs_toRat (x : Dec) : (exactAbs x).toRat = |x.toRat| := by
  have h : (0 : ℚ) ≤ (x.coeff : ℚ) * (10 : ℚ) ^ x.exp := by
    have := (tp x.exp).le
    positivity
  unfold exactAbs Exact.toRat Dec.toRat
  cases x.neg <;> simp [abs_of_nonneg h]

theorem Rat_exactNeg_toRat (x : Dec) : (exactNeg x).toRat = - x.toRat := by
  unfold exactNeg Exact.toRat Dec.toRat
  by_cases h : x.coeff = 0
  · simp [h]
  · cases x.neg <;> simp [h]

/-- sign-of-zero rule of `Neg`: the negation of a zero is `+0` -/
theorem Rat_exactNeg_zero_sign (x : Dec) (h : x.coeff = 0) : (exactNeg x).neg = false := by
  unfold exactNeg; simp [h]

theorem Rat_exactMul_toRat (x y : Dec) : (exactMul x y).toRat = x.toRat * y.toRat := by
  unfold exactMul Exact.toRat Dec.toRat
  simp only [Nat.cast_mul, Nat.cast_one, div_one, zpow_add₀ ten_ne]
  cases x.neg <;> cases y.neg <;> simp <;> ring

/-- (true also for `y.coeff = 0` with Lean's convention `a / 0 = 0`; the oracle only uses it for `y ≠ 0`) -/
theorem Rat_exactQuo_toRat (x y : Dec) : (exactQuo x y).toRat = x.toRat / y.toRat := by
  unfold exactQuo Exact.toRat Dec.toRat
  simp only [zpow_sub₀ ten_ne]
  have := (tp y.exp).ne'
  cases x.neg <;> cases y.neg <;> simp <;> field_simp

theorem Rat_exactAdd_toRat (c : Ctx) (x y : Dec) (sub : Bool) :
    (exactAdd c x y sub).toRat = x.toRat + (if sub then - y.toRat else y.toRat) := by
  have hx := align x.coeff x.exp (min x.exp y.exp) (min_le_left _ _)
  have hy := align y.coeff y.exp (min x.exp y.exp) (min_le_right _ _)
  have eX : x.toRat = (if x.neg then -1 else 1) * ((x.coeff : ℚ) * (10 : ℚ) ^ x.exp) := by
    unfold Dec.toRat; ring
  have eY : y.toRat = (if y.neg then -1 else 1) * ((y.coeff : ℚ) * (10 : ℚ) ^ y.exp) := by
    unfold Dec.toRat; ring
  rw [eX, eY, ← hx, ← hy]
  unfold exactAdd
  simp only []
  generalize x.coeff * 10 ^ (x.exp - min x.exp y.exp).toNat = A
  generalize y.coeff * 10 ^ (y.exp - min x.exp y.exp).toNat = B
  generalize min x.exp y.exp = e
  unfold Exact.toRat
  split_ifs with h1 h2 h3 h4 h5 h6 h7 h8 <;>
    simp only [Nat.cast_add, Nat.cast_one, div_one, Nat.cast_zero] <;>
    first
      | ring1
      | (rw [Nat.cast_sub (by omega)]; ring1)
      | (have : A = B := by omega
         subst this; ring1)
      | (exfalso; simp_all)


/-- shape of the exact sum: an integer coefficient at the smaller exponent (this is what fixes the
exponent of a zero result) -/
theorem Rat_exactAdd_shape (c : Ctx) (x y : Dec) (sub : Bool) :
    (exactAdd c x y sub).den = 1 ∧ (exactAdd c x y sub).e10 = min x.exp y.exp := by
  unfold exactAdd; simp only []; split_ifs <;> exact ⟨rfl, rfl⟩

/-- sign-of-zero rule of `Add`/`Sub`: a zero sum takes the common sign of the (effective) operands
when they have the same sign; otherwise it is `+0`, except `-0` under `RoundFloor` -/
theorem Rat_exactAdd_zero_sign (c : Ctx) (x y : Dec) (sub : Bool) (h : (exactAdd c x y sub).num = 0) :
    (exactAdd c x y sub).neg =
      if x.neg = (if sub then !y.neg else y.neg) then x.neg else decide (c.mode = .floor) := by
  unfold exactAdd at h ⊢
  simp only [] at h ⊢
  generalize x.coeff * 10 ^ (x.exp - min x.exp y.exp).toNat = A at h ⊢
  generalize y.coeff * 10 ^ (y.exp - min x.exp y.exp).toNat = B at h ⊢
  split_ifs at h ⊢ <;> simp only [] at h ⊢ <;>
    first | rfl | omega | (exfalso; simp_all)

/-- when the sum is not zero its sign flag is the sign of the rational sum -/
theorem Exact.toRat_neg_iff (v : Exact) (hn : 0 < v.num) (hd : 0 < v.den) : v.toRat < 0 ↔ v.neg = true := by
  have := mag_pos v hn hd
  rw [Exact.toRat_eq]
  cases v.neg <;> simp <;> linarith

/-! ## `SpecOut.matches` -/

theorem Rat_matches_iff (s : SpecOut) (d : Dec) (hd : d.form = .finite) :
    s.matches d = true ↔
      (s.inf = false ∧ d.neg = s.neg ∧
        (d.coeff : ℚ) * (10 : ℚ) ^ d.exp = (s.m : ℚ) * (10 : ℚ) ^ s.q) := by
  unfold SpecOut.matches
  rw [hd]
  simp only [Bool.and_eq_true, Bool.not_eq_true', beq_iff_eq, and_assoc]
  refine and_congr Iff.rfl (and_congr Iff.rfl ?_)
  split_ifs with h
  · rw [beq_iff_eq, ← align d.coeff d.exp s.q h, mul_left_inj' (tp s.q).ne']
    exact_mod_cast Iff.rfl
  · rw [beq_iff_eq, ← align s.m s.q d.exp (by omega), mul_left_inj' (tp d.exp).ne']
    exact_mod_cast Iff.rfl

theorem Rat_matches_infinite (s : SpecOut) (d : Dec) (hd : d.form = .infinite) :
    s.matches d = true ↔ (s.inf = true ∧ d.neg = s.neg) := by
  unfold SpecOut.matches; rw [hd]; simp

theorem Rat_matches_nan (s : SpecOut) (d : Dec) (hd : d.form ≠ .finite) (hi : d.form ≠ .infinite) :
    s.matches d = false := by
  unfold SpecOut.matches; cases h : d.form <;> simp_all

/-- a finite decimal that matches denotes the specified rational -/
theorem Rat_matches_toRat (s : SpecOut) (d : Dec) (hd : d.form = .finite) (h : s.matches d = true) :
    d.toRat = s.toRat := by
  obtain ⟨-, h2, h3⟩ := (Rat_matches_iff s d hd).1 h
  unfold Dec.toRat SpecOut.toRat
  rw [h2, mul_assoc, h3, mul_assoc]


/-! ## reading `Agrees` (C01 + C02 + C07) through the rational specification -/

/-- a delivered FINITE result that `Agrees` with the oracle denotes the exact value rounded once by
the readable specification, and Inexact is raised exactly when it differs from the exact value -/
theorem Rat_agrees_finite (c : Ctx) (ex : Exact) (d : Dec) (fl : Cond) (hn : 0 < ex.num) (hd : 0 < ex.den)
    {a : ℤ} (ha : IsAdj ex.mag a) (hA : Agrees c ex d fl) (hf : d.form = .finite) :
    d.toRat = (if ex.neg then -1 else 1) * roundedMag c ex.neg ex.mag a ∧
    (fl.inexact = true ↔ d.toRat ≠ ex.toRat) ∧
    (fl.subnormal = true ↔ |ex.toRat| < (10 : ℚ) ^ c.emin) ∧
    fl.overflow = false := by
  obtain ⟨hm, hfl, -⟩ := hA
  obtain ⟨hfin, -, -⟩ := (Rat_matches_iff _ d hf).1 hm
  have hval := Rat_matches_toRat _ d hf hm
  rw [Rat_specRound_toRat c ex hn hd ha hfin] at hval
  have hno : ¬ (10 : ℚ) ^ (c.emax + 1) ≤ roundedMag c ex.neg ex.mag a := by
    intro hh; rw [(Rat_specRound_overflow c ex hn hd ha).2 hh] at hfin; exact Bool.noConfusion hfin
  refine ⟨hval, ?_, ?_, ?_⟩
  · rw [hfl.1, Rat_specRound_inexact c ex hn hd ha, hval, Exact.toRat_eq]
    simp only [hno, false_or]
    cases ex.neg <;> simp
  · rw [hfl.2.1, Rat_specRound_subnormal c ex hn hd, Exact.abs_toRat]
  · rw [hfl.2.2.2.1, Rat_specRound_overflow_flag, hfin]

/-- a delivered INFINITE result that `Agrees` with the oracle: the rounded magnitude is beyond the
largest finite number of the context; Overflow and Inexact are raised -/
theorem Rat_agrees_infinite (c : Ctx) (ex : Exact) (d : Dec) (fl : Cond) (hn : 0 < ex.num) (hd : 0 < ex.den)
    {a : ℤ} (ha : IsAdj ex.mag a) (hA : Agrees c ex d fl) (hf : d.form = .infinite) :
    (10 : ℚ) ^ (c.emax + 1) ≤ roundedMag c ex.neg ex.mag a ∧ d.neg = ex.neg ∧
    fl.overflow = true ∧ fl.inexact = true := by
  obtain ⟨hm, hfl, -⟩ := hA
  obtain ⟨hinf, hneg⟩ := (Rat_matches_infinite _ d hf).1 hm
  have hov := (Rat_specRound_overflow c ex hn hd ha).1 hinf
  refine ⟨hov, by rw [hneg, Rat_specRound_neg], ?_, ?_⟩
  · rw [hfl.2.2.2.1, Rat_specRound_overflow_flag, hinf]
  · rw [hfl.1]; exact (Rat_specRound_inexact c ex hn hd ha).2 (Or.inl hov)

end Apd.RatSpec

open Apd.RatSpec in
section
#print axioms Rat_adjRat_isAdj
#print axioms IsAdj_existsUnique
#print axioms Rat_specRound_value
#print axioms Rat_specRound_q
#print axioms Rat_specRound_toRat
#print axioms Rat_specRound_neg
#print axioms Rat_specRound_zero
#print axioms Rat_specRound_overflow
#print axioms Rat_specRound_overflow_adj
#print axioms Rat_specRound_overflow_flag
#print axioms Rat_specRound_inexact
#print axioms Rat_specRound_subnormal
#print axioms Rat_specRound_underflow
#print axioms Rat_roundedMag_bracket
#print axioms Rat_specRound_bracket
#print axioms Rat_roundInt_down
#print axioms Rat_roundInt_up
#print axioms Rat_roundInt_ceiling
#print axioms Rat_roundInt_floor
#print axioms Rat_roundInt_half_nearest
#print axioms Rat_roundInt_tie
#print axioms Rat_roundInt_r05up
#print axioms Rat_exactAdd_toRat
#print axioms Rat_exactAdd_shape
#print axioms Rat_exactAdd_zero_sign
#print axioms Rat_exactMul_toRat
#print axioms Rat_exactQuo_toRat
#print axioms Rat_exactRound_toRat
#print axioms Rat_exactAbs_toRat
#print axioms Rat_exactNeg_toRat
#print axioms Rat_exactNeg_zero_sign
#print axioms Rat_matches_iff
#print axioms Rat_matches_infinite
#print axioms Rat_matches_nan
#print axioms Rat_matches_toRat
#print axioms Rat_agrees_finite
#print axioms Rat_agrees_infinite
end
