import ApdVerif.Lemmas.ExpAccAssembly
import ApdVerif.Props.TransLog
/-!
# C12 for `Context.Exp`, proved on the tape model: within 1.2 ulp of `exp x` (within 1 ulp for `x > 0`)

`expT` (Model/TransLog.lean) takes the working precision `cp` and the number of series terms `n` from the
decision tape.  Under the decidable adequacy condition `ExpTapeOK c x cp n` (Oracle/ExpTapeOK.lean, core Lean,
executable; it holds for the values the Go code computes: see S4 below) every finite result that is delivered
satisfies

    |result - exp x| ≤ (1/2 + 7/10) ulp          (`C12_exp_accurate`, `C12_exp_accurate_delivered`)
    |result - exp x| ≤ (1/2 + 43/100) ulp  if x > 0   (`C12_exp_accurate_pos`)

whatever the caller's rounding mode (`Exp` always rounds its result half-even: `nc.Rounding = RoundHalfEven`
is still in force at the final `nc.round`), with `ulp = 10^(Oracle.ulpOf c result).e`, one unit in the last
place of a `Precision`-digit number of the result's magnitude, not below `Etiny`.

Where the 7/10 comes from (units of `10^-cp` relative error, worst case over all roundings):
reduced argument 0.05, `10^t`-fold product errors of `integerPower` 0.05, Horner loop + truncation
`10.83·0.05 = 0.54` (attained only for `r → -1`, where the partial sums are small and cancel), second-order terms 0.06.
For `x > 0` the series term is `6.2·0.05 = 0.31`.  A bound below one ulp for all negative operands is NOT
provable by a worst-case analysis of this algorithm at working precision `cp + t + 2`: the first-order
worst case is already about 1.0–1.1 ulp (e.g. `x ≈ -9.2113`: `r ≈ -0.92`, mantissa of `e^x` ≈ 9.99).
An exhaustive run of the model on 74 000 operands at precisions 1–5 (scratch/Exp_worst_ulps.lean) found a
largest actual error of 0.544 ulp.

Stages: S1 `C12_exp_series_trunc`; S2 `C12_exp_horner_round`, `C12_exp_horner_rounded`, `C12_exp_series_rel_neg/pos`;
S3 `C12_exp_power_rounded`, `C12_exp_total`; S4 `ExpTapeOK` + the checks at the end; S5 `C12_exp_accurate`,
`C12_exp_accurate_delivered`, `C12_exp_accurate_pos`, `C12_exp_accurate_tiny`.
Lemmas: `Lemmas/ExpAccMath.lean` (S1, exact Horner sums), `ExpAccHorner.lean` (S2), `ExpAccLog.lean` (log-scale
relative errors, S3), `ExpAccBudget.lean` (constants), `ExpAccOps.lean` (Add/Mul/Quo of the working context are
`exact·(1+δ)`), `ExpAccLoops.lean` (`expSeries`, `integerPower` on the model), `ExpAccAssembly.lean` (`expT`).
-/
namespace Apd.Props
open Apd Apd.Oracle Apd.ExpAcc Cond

/-! ## S1 -/

/-- S1: truncation error of the Taylor polynomial of `exp` on `[-1, 1]` -/
theorem C12_exp_series_trunc (r : ℝ) (hr : |r| ≤ 1) (n : ℕ) (hn : 1 ≤ n) :
    |Real.exp r - ∑ i ∈ Finset.range n, r ^ i / (i.factorial : ℝ)| ≤
      |r| ^ n / (n.factorial : ℝ) * (((n : ℝ) + 1) / (n : ℝ)) :=
  exp_series_trunc r hr n hn

/-! ## S2 -/

/-- S2, one round: with `|ρ| ≤ 1`, unit roundoff `u ≤ 1/200`, quotient and product perturbed by `(1+θ)`
(`|θ| ≤ 2u+u²`; `|θ| ≤ u` in the last round `i = 0` where the division by one is exact) and the sum by `(1+δ)`,
`|δ| ≤ u`, a round at index `i+1` takes the invariant `HB (i+2)` to `HB (i+1)` and the last round takes it to `HF`,
where `HB ρ u j = u (1 + 3.1|ρ|/j)` for `ρ ≤ 0`, `u (1 + 10ρ/j)` for `ρ > 0`, and
`HF ρ u = u (1 + 1.0151|ρ| + 1.5656ρ²)` for `ρ ≤ 0`, `u (1 + 3.0151ρ + 7.0552ρ²)` for `ρ > 0`: no factor `n`. -/
theorem C12_exp_horner_round (ρ u sh θ δ : ℝ) (i m : ℕ) (hρ : |ρ| ≤ 1) (hu : 0 ≤ u) (hu1 : u ≤ 1 / 200)
    (he : |sh - hornerT ρ (i + 2) m| ≤ HB ρ u (i + 2))
    (hθ : |θ| ≤ thetaB u i) (hδ : |δ| ≤ u) :
    |(1 + ρ / ((i + 1 : ℕ) : ℝ) * (1 + θ) * sh) * (1 + δ) - hornerT ρ (i + 1) (m + 1)| ≤
      (if i = 0 then HF ρ u else HB ρ u (i + 1)) :=
  horner_round ρ u sh θ δ i m hρ hu hu1 he hθ hδ

/-- S2, the whole loop as a statement about a perturbed recurrence: `ŝ_n = 1`,
`ŝ_i = (1 + (ρ/i)(1+θ_i) ŝ_{i+1})(1+δ_i)` for `i = n-1, …, 1`; then `ŝ_1` is within `HF ρ u ≤ 12u` of the
Taylor polynomial `Σ_{j<n} ρ^j/j!` (for `ρ ≤ 0`: within `3.59u`) -/
theorem C12_exp_horner_rounded (ρ u : ℝ) (n : ℕ) (hn : 1 ≤ n) (hρ : |ρ| ≤ 1) (hu : 0 ≤ u) (hu1 : u ≤ 1 / 200)
    (sh θ δ : ℕ → ℝ) (h0 : sh n = 1)
    (hstep : ∀ i, 1 ≤ i → i < n → sh i = (1 + ρ / (i : ℝ) * (1 + θ i) * sh (i + 1)) * (1 + δ i))
    (hθ : ∀ i, 2 ≤ i → i < n → |θ i| ≤ 2 * u + u ^ 2) (hθ1 : 1 < n → |θ 1| ≤ u)
    (hδ : ∀ i, 1 ≤ i → i < n → |δ i| ≤ u) :
    |sh 1 - ∑ j ∈ Finset.range n, ρ ^ j / (j.factorial : ℝ)| ≤ HF ρ u ∧ HF ρ u ≤ 12 * u := by
  have key : ∀ (m i : ℕ), i + m = n → 1 ≤ i →
      |sh i - hornerT ρ i m| ≤ (if i = 1 then HF ρ u else HB ρ u i) := by
    intro m
    induction m with
    | zero =>
      intro i hi hi1
      have : i = n := by omega
      subst this
      rw [h0, hornerT_zero, sub_self, abs_zero]
      split_ifs
      · exact (HF_bounds ρ u hρ hu).1
      · exact (HB_bounds ρ u i hρ hu (by omega)).1
    | succ m ih =>
      intro i hi hi1
      obtain ⟨i', rfl⟩ : ∃ i', i = i' + 1 := ⟨i - 1, by omega⟩
      have hprev := ih (i' + 2) (by omega) (by omega)
      have hne : ¬ (i' + 2 = 1) := by omega
      rw [if_neg hne] at hprev
      have hθ' : |θ (i' + 1)| ≤ thetaB u i' := by
        unfold thetaB
        split_ifs with h0'
        · subst h0'; exact hθ1 (by omega)
        · exact hθ (i' + 1) (by omega) (by omega)
      have := horner_round ρ u (sh (i' + 2)) (θ (i' + 1)) (δ (i' + 1)) i' m hρ hu hu1 hprev hθ'
        (hδ (i' + 1) (by omega) (by omega))
      rw [hstep (i' + 1) (by omega) (by omega)]
      have e : (i' + 1 = 1) ↔ (i' = 0) := by omega
      simp only [e]
      exact this
  have h1 := key (n - 1) 1 (by omega) (le_refl 1)
  rw [if_pos rfl, hornerT_one, Nat.sub_add_cancel hn] at h1
  exact ⟨h1, (HF_bounds ρ u hρ hu).2⟩

/-- S1+S2 combined, relative to `exp ρ` (negative argument): rounding and truncation errors of the series
are at most `10.83 u · exp ρ` when the truncation term is at most `1.2u` (`|ρ| ≤ 3/4`) resp. `0.4u` -/
theorem C12_exp_series_rel_neg (r u sh : ℝ) (n : ℕ) (hn : 1 ≤ n) (hr0 : r ≤ 0) (hr1 : -1 ≤ r) (hu : 0 ≤ u)
    (hE : |sh - ∑ j ∈ Finset.range n, r ^ j / (j.factorial : ℝ)| ≤ HF r u)
    (htr : (-r ≤ 3 / 4 ∧ |r| ^ n / (n.factorial : ℝ) * (((n : ℝ) + 1) / (n : ℝ)) ≤ 6 / 5 * u) ∨
      |r| ^ n / (n.factorial : ℝ) * (((n : ℝ) + 1) / (n : ℝ)) ≤ 2 / 5 * u) :
    |sh - Real.exp r| ≤ (1083 / 100 * u) * Real.exp r := by
  unfold HF at hE; rw [if_pos hr0] at hE
  exact exp_near_neg r u sh n hn hr0 hr1 hu hE htr

theorem C12_exp_series_rel_pos (r u sh : ℝ) (n : ℕ) (hn : 1 ≤ n) (hr0 : 0 < r) (hr1 : r ≤ 1) (hu : 0 ≤ u)
    (hE : |sh - ∑ j ∈ Finset.range n, r ^ j / (j.factorial : ℝ)| ≤ HF r u)
    (htr : |r| ^ n / (n.factorial : ℝ) * (((n : ℝ) + 1) / (n : ℝ)) ≤ 6 / 5 * u) :
    |sh - Real.exp r| ≤ (1083 / 100 * u) * Real.exp r := by
  unfold HF at hE; rw [if_neg (not_le.2 hr0)] at hE
  exact exp_near_pos r u sh n hn hr0.le hr1 hu hE htr

/-! ## S3 -/

/-- S3. Square-and-multiply (the loop of `integerPower`, on reals, with a multiplication `fl` whose result is
within `e^{±u'}` of the exact product) computes `z·n^b` within `e^{±b·u'}`.  The error exponent is `b` itself,
not `2 log₂ b`: the error of every squaring is squared along with the value.  With `b = 10^t` and
`u' ≈ 10^(1-p)/2`, `p = cp + t + 2`, this is `10^(-cp-1)/2`, the same size as the propagated error of the
reduced argument — the reason for the `+ t` in the working precision. -/
theorem C12_exp_power_rounded (fl : ℝ → ℝ → ℝ) (u' : ℝ)
    (hfl : ∀ a b, 0 < a → 0 < b → LogNear u' (a * b) (fl a b)) (fuel b : ℕ) (z n : ℝ)
    (hb : b < 2 ^ fuel) (hz : 0 < z) (hn : 0 < n) :
    z * n ^ b * Real.exp (-((b : ℝ) * u')) ≤ powLoopR fl fuel b z n ∧
      powLoopR fl fuel b z n ≤ z * n ^ b * Real.exp ((b : ℝ) * u') :=
  pow_loop_rounded fl u' hfl fuel b z n hb hz hn

/-- the whole chain on reals: reduced argument within `u` relative, series within `10.83u·exp`, `K` products -/
theorem C12_exp_total (x rh sh z u : ℝ) (K : ℕ) (hK : 1 ≤ K) (hu : 0 ≤ u) (hν : (K : ℝ) * u ≤ 1 / 200)
    (hr : |(K : ℝ) * rh - x| ≤ (K : ℝ) * u)
    (hs : |sh - Real.exp rh| ≤ (1083 / 100 * u) * Real.exp rh)
    (hz : LogNear ((K : ℝ) * (u / (1 - u))) (sh ^ K) z) :
    LogNear (134551 / 10000 * ((K : ℝ) * u)) (Real.exp x) z :=
  exp_total x rh sh z u K hK hu hν hr hs hz

/-! ## S5 -/

theorem exp_accurate_main (c : Ctx) (hc : c.WF) (x : Dec) (cp0 : Nat) (n : Int) (rest r' : Tape) (o : Out)
    (hok : ExpTapeOK c x cp0 n = true)
    (h : expT c x (.cp cp0 :: .n n :: rest) = some (o, r'))
    (hd : DeliveredT c o) (hf : o.d.form = .finite) :
    |rv o.d - Real.exp (rv x)| ≤ (1 / 2 + 7 / 10) * (10 : ℝ) ^ (ulpExp c o.d) ∧
    (x.neg = false → |rv o.d - Real.exp (rv x)| ≤ (1 / 2 + 43 / 100) * (10 : ℝ) ^ (ulpExp c o.d)) := by
  unfold ExpTapeOK at hok
  simp only [Bool.and_eq_true, beq_iff_eq, decide_eq_true_eq, Bool.not_eq_true', decide_eq_false_iff_not] at hok
  obtain ⟨⟨⟨⟨⟨⟨hxf, hP1⟩, hPcp⟩, hp⟩, hnov⟩, hn1⟩, htr⟩ := hok
  cases hsp : expSpecials c x with
  | some o' =>
    -- a finite operand: only `x = 0`
    unfold expT at h
    rw [hsp] at h
    simp only [Option.some.injEq, Prod.mk.injEq] at h
    obtain ⟨rfl, _⟩ := h
    unfold expSpecials at hsp
    have h1 : shouldSetAsNaN x none = false := by simp [shouldSetAsNaN, Dec.isNaN, hxf]
    have h2 : (x.form == Form.infinite) = false := by rw [hxf]; rfl
    have h3 : (c.prec == 0) = false := by simp; omega
    simp only [h1, h2, h3, Bool.false_eq_true, if_false] at hsp
    split_ifs at hsp with hz
    simp only [Option.some.injEq] at hsp
    subst hsp
    have hx0 : x.coeff = 0 := by
      simp only [Dec.isZero, Bool.and_eq_true, beq_iff_eq] at hz; exact hz.2
    have : rv x = 0 := (rv_eq_zero_iff x).2 hx0
    rw [this, Real.exp_zero]
    show |rv decOne - 1| ≤ _ ∧ (_ → |rv decOne - 1| ≤ _)
    rw [rv_decOne, sub_self, abs_zero]
    exact ⟨by positivity, fun _ => by positivity⟩
  | none =>
    rw [expT_main c x cp0 n rest hsp] at h
    have hx0 : x.coeff ≠ 0 := by
      intro h0
      unfold expSpecials at hsp
      have h1 : shouldSetAsNaN x none = false := by simp [shouldSetAsNaN, Dec.isNaN, hxf]
      have h2 : (x.form == Form.infinite) = false := by rw [hxf]; rfl
      have hz : x.isZero = true := by simp [Dec.isZero, hxf, h0]
      simp [h1, h2, hz] at hsp
    unfold expMain at h
    simp only [] at h
    rw [if_neg hnov] at h
    by_cases hone : x.absD.cmp { coeff := 9, exp := -(expCp x cp0 : Int) - 1 } ≤ 0
    · rw [if_pos hone] at h
      simp only [Option.some.injEq, Prod.mk.injEq] at h
      obtain ⟨rfl, _⟩ := h
      exact ⟨exp_one_branch c hc x hxf (expCp x cp0) hPcp hone _ (by norm_num),
        fun _ => exp_one_branch c hc x hxf (expCp x cp0) hPcp hone _ (by norm_num)⟩
    · rw [if_neg hone] at h
      have hq : (expQ c x (expCp x cp0)).err = .none := by
        by_contra hcon
        have hb : ((expQ c x (expCp x cp0)).err != ErrKind.none) = true := by simpa using hcon
        unfold expQ at hb
        rw [if_pos hb] at h
        simp only [Option.some.injEq, Prod.mk.injEq] at h
        obtain ⟨rfl, _⟩ := h
        exact TL.not_deliv_of_failed (TL.failed_of_bne _ hb) hd
      have hqb : ((quoOp (expNc c (expCp x cp0 + expTt x + 2)) x { coeff := 1, exp := expTt x }).err != ErrKind.none) = false := by
        unfold expQ at hq; simp [hq]
      rw [hqb] at h
      simp only [Bool.false_eq_true, if_false] at h
      have hn0 : ¬ n < 0 := by omega
      rw [if_neg hn0] at h
      have hN : 1 ≤ n.toNat := by omega
      have hs : (expS c x (expCp x cp0) n.toNat).1.failed = false := by
        by_contra hcon
        have hb : (expS c x (expCp x cp0) n.toNat).1.failed = true := by simpa using hcon
        unfold expS expQ at hb
        rw [if_pos hb] at h
        simp only [Option.some.injEq, Prod.mk.injEq] at h
        obtain ⟨rfl, _⟩ := h
        exact TL.not_deliv_of_failed (TL.failed_of_ed _ hb) hd
      have hsb : (expSeries (quoOp (expNc c (expCp x cp0 + expTt x + 2)) x { coeff := 1, exp := expTt x }).d
          (n.toNat - 1) { c := expNc c (expCp x cp0 + expTt x + 2) } decOne).1.failed = false := hs
      rw [hsb] at h
      simp only [Bool.false_eq_true, if_false] at h
      have hip : (expIP c x (expCp x cp0) n.toNat).2.2 = .none := by
        by_contra hcon
        have hb : ((expIP c x (expCp x cp0) n.toNat).2.2 != ErrKind.none) = true := by simpa using hcon
        unfold expIP expS expQ at hb
        rw [if_pos hb] at h
        simp only [Option.some.injEq, Prod.mk.injEq] at h
        obtain ⟨rfl, _⟩ := h
        exact TL.not_deliv_of_failed (TL.failed_of_bne _ hb) hd
      have hipb : ((integerPower (expNc c (expCp x cp0 + expTt x + 2))
          (expSeries (quoOp (expNc c (expCp x cp0 + expTt x + 2)) x { coeff := 1, exp := expTt x }).d
            (n.toNat - 1) { c := expNc c (expCp x cp0 + expTt x + 2) } decOne).2 ((10 : Int) ^ expTt x)).2.2
            != ErrKind.none) = false := by
        have : (expIP c x (expCp x cp0) n.toNat).2.2 = .none := hip
        unfold expIP expS expQ at this
        simp [this]
      rw [hipb] at h
      simp only [Bool.false_eq_true, if_false, Option.some.injEq, Prod.mk.injEq] at h
      obtain ⟨rfl, _⟩ := h
      simp only at hf ⊢
      have hcp1 : 1 ≤ expCp x cp0 := by omega
      obtain ⟨pf, ppos, pL, pLpos⟩ := exp_main_path c x hxf hx0 (expCp x cp0) n.toNat hcp1 hp hN hq htr hs hip
      have hns := QuoL.noSys_of_delivered c.traps _ (by
        rcases hd with hd | ⟨hd, _⟩
        · exact Or.inl hd
        · exact Or.inr hd)
      have hns2 := noSys_right _ _ hns
      exact ⟨exp_final (134551 / 10000) (7 / 10) (by norm_num) (by norm_num) (by norm_num)
          c hc (expCp x cp0) hPcp (expIP c x (expCp x cp0) n.toNat).1 pf ppos (rv x) pL hns2 hf,
        fun hxn => exp_final (84034 / 10000) (43 / 100) (by norm_num) (by norm_num) (by norm_num)
          c hc (expCp x cp0) hPcp (expIP c x (expCp x cp0) n.toNat).1 pf ppos (rv x) (pLpos hxn) hns2 hf⟩

/-- S5. `Context.Exp` (tape model) is accurate to `(1/2 + 7/10)` units in the last place of its result,
for every operand, context, rounding mode and tape satisfying `ExpTapeOK`: every delivered finite result
(nil error, or a trap error that comes with the result) satisfies `|result - exp x| ≤ 1.2 ulp`, where `ulp`
is one unit in the last place of a `Precision`-digit number of the result's magnitude, not below `Etiny`. -/
theorem C12_exp_accurate_delivered (c : Ctx) (hc : c.WF) (x : Dec) (cp : Nat) (n : Int) (rest r' : Tape) (o : Out)
    (hok : ExpTapeOK c x cp n = true)
    (h : expT c x (.cp cp :: .n n :: rest) = some (o, r'))
    (hd : DeliveredT c o) (hf : o.d.form = .finite) :
    |((o.d.toRat : ℚ) : ℝ) - Real.exp ((x.toRat : ℚ) : ℝ)| ≤ (1 / 2 + 7 / 10) * (10 : ℝ) ^ (ulpOf c o.d).e :=
  (exp_accurate_main c hc x cp n rest r' o hok h hd hf).1

/-- S5, as asked: nil error -/
theorem C12_exp_accurate (c : Ctx) (hc : c.WF) (x : Dec) (cp : Nat) (n : Int) (rest r' : Tape) (o : Out)
    (hok : ExpTapeOK c x cp n = true)
    (h : expT c x (.cp cp :: .n n :: rest) = some (o, r'))
    (he : o.err = .none) (hf : o.d.form = .finite) :
    |((o.d.toRat : ℚ) : ℝ) - Real.exp ((x.toRat : ℚ) : ℝ)| ≤ (1 / 2 + 7 / 10) * (10 : ℝ) ^ (ulpOf c o.d).e :=
  (exp_accurate_main c hc x cp n rest r' o hok h (Or.inl he) hf).1

/-- S5 for a positive operand: C12's claim proper — the result is within ONE unit in the last place
(`1/2 + 43/100` ulp).  (For `x > 0` the partial sums of the series are ≥ 1 and there is no cancellation.) -/
theorem C12_exp_accurate_pos (c : Ctx) (hc : c.WF) (x : Dec) (cp : Nat) (n : Int) (rest r' : Tape) (o : Out)
    (hok : ExpTapeOK c x cp n = true) (hx : x.neg = false)
    (h : expT c x (.cp cp :: .n n :: rest) = some (o, r'))
    (hd : DeliveredT c o) (hf : o.d.form = .finite) :
    |((o.d.toRat : ℚ) : ℝ) - Real.exp ((x.toRat : ℚ) : ℝ)| ≤ (1 / 2 + 43 / 100) * (10 : ℝ) ^ (ulpOf c o.d).e :=
  (exp_accurate_main c hc x cp n rest r' o hok h hd hf).2 hx

/-- the early exit for a tiny argument (`|x| ≤ 0.9·10^-cp`: result `1`, only the `cp` entry of the tape is read) -/
theorem C12_exp_accurate_tiny (c : Ctx) (hc : c.WF) (x : Dec) (cp : Nat) (tl r' : Tape) (o : Out)
    (hxf : x.form = .finite) (hP : c.prec ≤ expCp x cp)
    (hnov : ¬ x.absD.cmp { coeff := expCp x cp * 23 } > 0)
    (hone : x.absD.cmp { coeff := 9, exp := -(expCp x cp : Int) - 1 } ≤ 0)
    (h : expT c x (.cp cp :: tl) = some (o, r')) :
    |((o.d.toRat : ℚ) : ℝ) - Real.exp ((x.toRat : ℚ) : ℝ)| ≤ (1 / 2 + 7 / 10) * (10 : ℝ) ^ (ulpOf c o.d).e := by
  have hP1 : 1 ≤ c.prec := hc.1
  have hgoal : ∀ d : Dec, d = decOne →
      |((d.toRat : ℚ) : ℝ) - Real.exp ((x.toRat : ℚ) : ℝ)| ≤ (1 / 2 + 7 / 10) * (10 : ℝ) ^ (ulpOf c d).e := by
    intro d hd; subst hd
    exact exp_one_branch c hc x hxf (expCp x cp) hP hone _ (by norm_num)
  cases hsp : expSpecials c x with
  | some o' =>
    unfold expT at h
    rw [hsp] at h
    simp only [Option.some.injEq, Prod.mk.injEq] at h
    obtain ⟨rfl, _⟩ := h
    unfold expSpecials at hsp
    have h1 : shouldSetAsNaN x none = false := by simp [shouldSetAsNaN, Dec.isNaN, hxf]
    have h2 : (x.form == Form.infinite) = false := by rw [hxf]; rfl
    have h3 : (c.prec == 0) = false := by simp; omega
    simp only [h1, h2, h3, Bool.false_eq_true, if_false] at hsp
    split_ifs at hsp with hz
    simp only [Option.some.injEq] at hsp
    subst hsp
    exact hgoal _ rfl
  | none =>
    unfold expT at h
    rw [hsp] at h
    simp only [] at h
    unfold expCp at hnov hone
    rw [if_neg hnov, if_pos hone] at h
    simp only [Option.some.injEq, Prod.mk.injEq] at h
    obtain ⟨rfl, _⟩ := h
    exact hgoal _ rfl

/-! ## S4: `ExpTapeOK` holds on the decisions the Go code takes

`ExpTapeOK` was evaluated (scratch/ExpTapeOK_recorded.lean, scratch/ExpTapeOK_grid.lean; not part of the build) on every `exp` call with a two-entry tape recorded
by the harness in `/verif/work/lines_C12_translog.txt.*`, `lines_C06_translog.txt`, `lines_C08_specials.txt`:
7911 calls, `true` for all of them; and on a grid of 14 precisions × 25 operands with `cp`, `n` computed by the
formulas of the Go code in `Float`: `true` for all 350.  Two instances checked by the kernel: -/

example : ExpTapeOK { prec := 5, emax := 99, emin := -99 } { coeff := 15 } 5 7 = true := by decide +kernel
example : ExpTapeOK { prec := 23, emax := 6144, emin := -6143, mode := .down }
    { neg := true, coeff := 155499999999999999999999, exp := -22 } 23 17 = true := by decide +kernel
/-- … and the hypotheses of `C12_exp_accurate` are satisfiable: `e^15 = 3269017.37…` at 5 digits, tape `c5,n7` -/
example : (expT { prec := 5, emax := 99, emin := -99 } { coeff := 15 } [.cp 5, .n 7]).map
    (fun p => (p.1.d, p.1.err, p.2.length)) = some ({ coeff := 32690, exp := 2 }, .none, 0) := by decide +kernel
/-- too few terms are rejected: `n = 3` for `x = 15` at 5 digits -/
example : ExpTapeOK { prec := 5, emax := 99, emin := -99 } { coeff := 15 } 5 3 = false := by decide +kernel

end Apd.Props

#print axioms Apd.Props.C12_exp_series_trunc
#print axioms Apd.Props.C12_exp_horner_round
#print axioms Apd.Props.C12_exp_horner_rounded
#print axioms Apd.Props.C12_exp_series_rel_neg
#print axioms Apd.Props.C12_exp_series_rel_pos
#print axioms Apd.Props.C12_exp_power_rounded
#print axioms Apd.Props.C12_exp_total
#print axioms Apd.Props.C12_exp_accurate
#print axioms Apd.Props.C12_exp_accurate_delivered
#print axioms Apd.Props.C12_exp_accurate_pos
#print axioms Apd.Props.C12_exp_accurate_tiny
