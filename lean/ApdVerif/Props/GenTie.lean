import ApdVerif.Model.Arith
import ApdVerif.Gen.Leaf
/-!
# Regenerated tie: the constants and leaf decision functions re-extracted from the Go source on
every run (`ApdVerif/Gen/*.lean`, written by harness/cmd/xlate) are the ones the hand-written model uses.

If the Go source changes one of these functions, the regenerated definition changes and the
corresponding theorem below stops checking.
-/
namespace Apd.Props
open Apd

/-- the `Rounder` string of a mode -/
def modeString : Mode → String
  | .down => Gen.RoundDown | .halfUp => Gen.RoundHalfUp | .halfEven => Gen.RoundHalfEven
  | .ceiling => Gen.RoundCeiling | .floor => Gen.RoundFloor | .halfDown => Gen.RoundHalfDown
  | .up => Gen.RoundUp | .r05up => Gen.Round05Up

/-- index of a form in the Go iota order -/
def formIdx : Form → Int
  | .finite => 0 | .infinite => 1 | .nanSignaling => 2 | .nan => 3

theorem GenTie_consts :
    Gen.MaxExponent = Apd.MaxExponent ∧ Gen.MinExponent = Apd.MinExponent ∧
    Gen.digitsTableSize = 128 ∧ Gen.powerTenTableSize = 128 ∧ Gen.inlineWords = 2 ∧
    Gen.lowestZeroNegativeCoefficientCockroach = -2000 ∧ Gen.adjExponentLimit = -6 ∧
    Gen.unknownNumDigits = -1 ∧ Gen.systemErrors = 3 ∧
    Gen.bigOne = 1 ∧ Gen.bigTwo = 2 ∧ Gen.bigFive = 5 ∧ Gen.bigTen = 10 := by
  sorry

/-- the twelve condition bits, in the order and with the weights `Cond.toNat` uses -/
theorem GenTie_condBits :
    Gen.condBits = [("SystemOverflow", 1), ("SystemUnderflow", 2), ("Overflow", 4), ("Underflow", 8),
      ("Inexact", 16), ("Subnormal", 32), ("Rounded", 64), ("DivisionUndefined", 128),
      ("DivisionByZero", 256), ("DivisionImpossible", 512), ("InvalidOperation", 1024), ("Clamped", 2048)] ∧
    Cond.cSysOverflow.toNat = Gen.SystemOverflow ∧ Cond.cSysUnderflow.toNat = Gen.SystemUnderflow ∧
    Cond.cOverflow.toNat = Gen.Overflow ∧ Cond.cUnderflow.toNat = Gen.Underflow ∧
    Cond.cInexact.toNat = Gen.Inexact ∧ Cond.cSubnormal.toNat = Gen.Subnormal ∧
    Cond.cRounded.toNat = Gen.Rounded ∧ Cond.cDivUndefined.toNat = Gen.DivisionUndefined ∧
    Cond.cDivByZero.toNat = Gen.DivisionByZero ∧ Cond.cDivImpossible.toNat = Gen.DivisionImpossible ∧
    Cond.cInvalidOp.toNat = Gen.InvalidOperation ∧ Cond.cClamped.toNat = Gen.Clamped ∧
    defaultTraps.toNat = Gen.DefaultTraps := by
  sorry

theorem GenTie_forms :
    Gen.formOrder = [("Finite", 0), ("Infinite", 1), ("NaNSignaling", 2), ("NaN", 3)] := by
  sorry

theorem GenTie_rounders :
    Gen.RoundDown = "down" ∧ Gen.RoundHalfUp = "half_up" ∧ Gen.RoundHalfEven = "half_even" ∧
    Gen.RoundCeiling = "ceiling" ∧ Gen.RoundFloor = "floor" ∧ Gen.RoundHalfDown = "half_down" ∧
    Gen.RoundUp = "up" ∧ Gen.Round05Up = "05up" := by
  sorry

/-- the model's rounding decision is the translated `Rounder.ShouldAddOne` (with the eight mode
functions), for every mode, magnitude, sign and half indicator -/
theorem GenTie_shouldAddOne (m : Mode) (result : Nat) (neg : Bool) (half : Int) :
    Gen.Rounder_ShouldAddOne (modeString m) result neg half = shouldAddOne m result neg half := by
  sorry

/-- any other `Rounder` string (including the empty one) behaves as RoundHalfUp -/
theorem GenTie_shouldAddOne_default (r : String) (result : Nat) (neg : Bool) (half : Int)
    (h : ∀ m, r ≠ modeString m) :
    Gen.Rounder_ShouldAddOne r result neg half = shouldAddOne .halfUp result neg half := by
  sorry

/-- `Condition.GoError`: the flags are returned unchanged and the error class is the model's `goError` -/
theorem GenTie_goError (fl traps : Cond) :
    (Gen.Condition_GoError fl.toNat traps.toNat).1 = fl.toNat ∧
    (Gen.Condition_GoError fl.toNat traps.toNat).2 =
      (match goError traps fl with | .sys => Gen.errSys | .trap => Gen.errTrap | _ => 0) := by
  sorry

theorem GenTie_negateOverflowFlags (r : Cond) :
    Gen.Condition_negateOverflowFlags r.toNat = (Cond.negateOverflowFlags r).toNat := by
  sorry

theorem GenTie_cmpOrder (d : Dec) :
    Gen.Decimal_cmpOrder (formIdx d.form) d.neg = d.cmpOrder := by
  sorry

/-- `Context.etiny` -/
theorem GenTie_etiny (c : Ctx) :
    Gen.Context_etiny c.prec c.emin = c.emin - (c.prec : Int) + 1 := by
  sorry

end Apd.Props
