import ApdVerif.Props.RoundCore
import ApdVerif.Props.Mul
import ApdVerif.Props.Quo
import ApdVerif.Props.C10
import ApdVerif.Props.C09
/-!
# C02 — condition flags describe exactly what happened to the result

`FlagsOK s d fl`: Inexact iff the returned value differs from the exact result, Subnormal iff the
exact non-zero result lies below 10^MinExponent, Underflow iff both, Overflow iff the rounded
magnitude exceeds the range; on finite results Inexact implies Rounded; Overflow implies Inexact;
no division/invalid condition.  (`Cond` has exactly the twelve documented bits; the correspondence
compares the full uint32.)  Division conditions of QuoInteger/Rem are in C10, Quantize's in C09,
special operands in C08.
-/
namespace Apd.Props
open Apd Apd.Oracle

theorem C02_flags_round (c : Ctx) (hc : c.WF) (x : Dec) (hx : x.form = .finite)
    (h : Delivered (roundOp c x).err) :
    FlagsOK (specRound c (exactRound x)) (roundOp c x).d (roundOp c x).fl := (C01_round c hc x hx h).2.1

theorem C02_flags_add (c : Ctx) (hc : c.WF) (x y : Dec) (sub : Bool)
    (hx : x.form = .finite) (hy : y.form = .finite) (h : Delivered (addOp c x y sub).err) :
    FlagsOK (specRound c (exactAdd c x y sub)) (addOp c x y sub).d (addOp c x y sub).fl :=
  (C01_add c hc x y sub hx hy h).2.1

theorem C02_flags_mul (c : Ctx) (hc : c.WF) (x y : Dec) (hx : x.form = .finite) (hy : y.form = .finite)
    (h : Delivered (mulOp c x y).err) :
    FlagsOK (specRound c (exactMul x y)) (mulOp c x y).d (mulOp c x y).fl := (C01_mul c hc x y hx hy h).2.1

theorem C02_flags_quo (c : Ctx) (hc : c.WF) (x y : Dec) (hx : x.form = .finite) (hy : y.form = .finite)
    (hy0 : y.coeff ≠ 0) (h : Delivered (quoOp c x y).err) :
    FlagsOK (specRound c (exactQuo x y)) (quoOp c x y).d (quoOp c x y).fl := (C01_quo c hc x y hx hy hy0 h).2.1

/-- the error class is a function of the flags and the trap set only -/
theorem C02_twelve_bits (fl : Cond) : fl.toNat < 4096 := by
  rcases fl with ⟨a, b, c, d, e, f, g, h, i, j, k, l⟩
  cases a <;> cases b <;> cases c <;> cases d <;> cases e <;> cases f <;> cases g <;> cases h <;>
    cases i <;> cases j <;> cases k <;> cases l <;> decide

end Apd.Props
