package main

import (
	"fmt"
	"math/big"
	"strings"

	"github.com/cockroachdb/apd/v3"
)

// rootCtx: contexts for the composite functions (moderate precisions; wide exponent range mostly).
func (g *gen) rootCtx() *apd.Context {
	c := g.ctx(false, false)
	if c.Precision > 40 {
		c.Precision = uint32(1 + g.r.Intn(40))
	}
	if g.r.Intn(3) != 0 {
		c.MaxExponent = 6144
		c.MinExponent = -6143
	}
	if int64(c.MaxExponent) < int64(c.Precision) {
		c.MaxExponent = int32(c.Precision)
	}
	return c
}

func decFromBig(co *big.Int, exp int64, neg bool) *apd.Decimal {
	d := apd.NewWithBigInt(new(apd.BigInt).SetMathBigInt(new(big.Int).Abs(co)), int32(exp))
	d.Negative = neg
	return d
}

// sqrtHard builds operands whose root is close to a rounding boundary at precision p:
// (m + 1/2)^2 +- eps, m^2 +- 1, all nines, one-plus-epsilon, with odd and even exponents.
func (g *gen) sqrtHard(p int) *apd.Decimal {
	one := big.NewInt(1)
	m := g.coeff(p) // a p-digit root candidate
	var co *big.Int
	extra := 0
	switch g.r.Intn(10) {
	case 0: // m^2
		co = new(big.Int).Mul(m, m)
	case 1: // m^2 + 1
		co = new(big.Int).Add(new(big.Int).Mul(m, m), one)
	case 2: // m^2 - 1
		co = new(big.Int).Sub(new(big.Int).Mul(m, m), one)
	case 3, 4: // (2m+1)^2 / 4 +- eps, scaled by 100: (10m+5)^2 +- k
		t := new(big.Int).Add(new(big.Int).Mul(m, big.NewInt(10)), big.NewInt(5))
		co = new(big.Int).Mul(t, t)
		k := int64(g.r.Intn(3)) - 1
		co.Add(co, big.NewInt(k))
		extra = -2
	case 8: // a tie of the P-digit grid with a far-away sticky digit: (10m+5)^2 * 10^(2j) +- 1
		t := new(big.Int).Add(new(big.Int).Mul(m, big.NewInt(10)), big.NewInt(5))
		j := 1 + g.r.Intn(20)
		co = new(big.Int).Mul(new(big.Int).Mul(t, t), pow10(2*j))
		if g.r.Intn(2) == 0 {
			co.Add(co, one)
		} else {
			co.Sub(co, one)
		}
		extra = -2 - 2*j
	case 5: // all nines with n digits
		n := 1 + g.r.Intn(2*p+2)
		co = new(big.Int).Sub(pow10(n), one)
	case 6: // one plus epsilon
		n := 1 + g.r.Intn(2*p+2)
		co = new(big.Int).Add(pow10(n), one)
	default:
		co = g.coeff(g.digits(p))
	}
	if co.Sign() <= 0 {
		co = big.NewInt(2)
	}
	exp := int64(g.r.Intn(41)) - 20 + int64(extra)
	return decFromBig(co, exp, false)
}

func (g *gen) cbrtHard(p int) *apd.Decimal {
	one := big.NewInt(1)
	if p > 14 {
		p = 14
	}
	m := g.coeff(1 + g.r.Intn(p))
	cube := new(big.Int).Mul(new(big.Int).Mul(m, m), m)
	var co *big.Int
	switch g.r.Intn(5) {
	case 0, 1:
		co = cube
	case 2:
		co = new(big.Int).Add(cube, one)
	case 3:
		co = new(big.Int).Sub(cube, one)
	default:
		co = g.coeff(g.digits(p))
	}
	if co.Sign() <= 0 {
		co = big.NewInt(8)
	}
	exp := int64(g.r.Intn(13)-6) * 3
	if g.r.Intn(3) == 0 {
		exp += int64(g.r.Intn(3))
	}
	return decFromBig(co, exp, g.r.Intn(2) == 0)
}

// placeRoot shifts the exponent of x by a multiple of k (2 for Sqrt, 3 for Cbrt: the root keeps its
// digits) so that the root lands at the edge of the context's exponent range: subnormal by 0..Precision+1
// places, just inside, or at the overflow threshold.
func (g *gen) placeRoot(c *apd.Context, x *apd.Decimal, k int64) {
	if x.Form != apd.Finite || x.IsZero() {
		return
	}
	adj := (x.NumDigits() + int64(x.Exponent)) / k // about the adjusted exponent of the root, plus one
	var target int64
	switch g.r.Intn(4) {
	case 0, 1:
		target = int64(c.MinExponent) - int64(g.r.Intn(int(c.Precision)+2))
	case 2:
		target = int64(c.MinExponent) + int64(g.r.Intn(3))
	default:
		target = int64(c.MaxExponent) + int64(g.r.Intn(3)) - 1
	}
	ne := int64(x.Exponent) + (target+1-adj)*k
	if ne > 90000 || ne < -90000 {
		return
	}
	x.Exponent = int32(ne)
}

func (rn *runner) streamRoots(g *gen) {
	for i := 0; i < rn.n; i++ {
		c := g.rootCtx()
		p := int(c.Precision)
		if g.r.Intn(2) == 0 {
			var x *apd.Decimal
			if g.r.Intn(4) == 0 {
				x = g.decimal(c, false)
			} else {
				x = g.sqrtHard(p)
			}
			if g.r.Intn(6) == 0 {
				g.placeRoot(c, x, 2)
			}
			if g.r.Intn(25) == 0 && x.Form == apd.Finite && !x.IsZero() {
				// operands at the ends of the package's exponent range under the widest context: the square of
				// the root (exponent 2·e) and the shifted iterate leave the range the intermediate steps can hold
				c.MaxExponent, c.MinExponent = 100000, -100000
				if g.r.Intn(2) == 0 { // an exact root there
					m := g.coeff(1 + g.r.Intn(p))
					x.Coeff.SetMathBigInt(new(big.Int).Mul(m, m))
				}
				nd := x.NumDigits()
				if g.r.Intn(2) == 0 {
					x.Exponent = int32(-100000 + 2*int64(g.r.Intn(6)))
				} else {
					x.Exponent = int32(100000 - nd + 1 - int64(g.r.Intn(12)))
				}
			}
			rn.ctxCase("sqrt", c, x, nil, 0)
		} else {
			if c.Precision > 20 {
				c.Precision = uint32(1 + g.r.Intn(20))
			}
			var x *apd.Decimal
			if g.r.Intn(4) == 0 {
				x = g.decimal(c, false)
				if x.Form == apd.Finite && (x.Exponent > 200 || x.Exponent < -200) {
					x.Exponent = int32(g.r.Intn(401) - 200)
				}
			} else {
				x = g.cbrtHard(p)
			}
			if g.r.Intn(6) == 0 {
				g.placeRoot(c, x, 3)
			}
			rn.ctxCase("cbrt", c, x, nil, 0)
		}
	}
}

// ---------- specials stream: full cross product of operand classes x operations ----------

func mk(s string) *apd.Decimal {
	d, _, err := apd.NewFromString(s)
	if err != nil {
		panic(err)
	}
	return d
}

func (rn *runner) streamSpecials(g *gen) {
	classes := []*apd.Decimal{
		special(apd.NaN, false), special(apd.NaN, true), special(apd.NaNSignaling, false), special(apd.NaNSignaling, true),
		special(apd.Infinite, false), special(apd.Infinite, true),
		mk("0"), mk("-0"), mk("0E+5"), mk("-0E-7"), mk("0.00"),
		mk("1"), mk("-1"), mk("1.00"), mk("2.5"), mk("-2.5"), mk("3"), mk("-3"), mk("4"), mk("-4"), mk("0.5"), mk("-0.5"),
		mk("123E+3"), mk("-7E-4"), mk("10"), mk("1E-2"), mk("27"), mk("-27"),
	}
	ops := make([]string, 0, len(ctxOps))
	for k := range ctxOps {
		ops = append(ops, k)
	}
	sortStrings(ops)
	rounds := 1 + rn.n/20000
	for r := 0; r < rounds; r++ {
		for _, op := range ops {
			def := ctxOps[op]
			for _, x := range classes {
				ys := classes
				if def.arity == 1 {
					ys = classes[:1]
				}
				for _, y := range ys {
					c := g.rootCtx()
					if op == "exp" || op == "ln" || op == "log10" || op == "pow" || op == "cbrt" || op == "sqrt" {
						if c.Precision > 16 {
							c.Precision = 16
						}
						// keep the numeric (non-special) cases of the composite functions cheap
						if c.MaxExponent > 999 {
							c.MaxExponent = 999
							c.MinExponent = -999
						}
					}
					if g.r.Intn(3) == 0 {
						c.Traps = g.traps()
					}
					var iarg int32
					if def.hasInt {
						iarg = int32(g.r.Intn(7) - 3)
					}
					var yy *apd.Decimal
					if def.arity == 2 {
						yy = y
					}
					// an infinity as an overflow leaves it: the fields an infinity does not use are not zero
					xx := x
					if xx.Form == apd.Infinite && g.r.Intn(2) == 0 {
						xx = g.garbageInf()
						xx.Negative = x.Negative
					}
					if yy != nil && yy.Form == apd.Infinite && g.r.Intn(2) == 0 {
						yy = g.garbageInf()
						yy.Negative = y.Negative
					}
					rn.ctxCase(op, c, xx, yy, iarg)
				}
			}
		}
	}
}

// ---------- traps stream: the same call under a trap set and under no traps ----------

func (rn *runner) trapsCase(op string, c *apd.Context, x, y *apd.Decimal, iarg int32) {
	def := ctxOps[op]
	in := fmt.Sprintf("%s %s %s %s %d", op, showCtx(c), showDec(x), optDec(y, def.arity), iarg)
	rn.rawCase("traps", in, true, "traps-"+op, func() string {
		c0 := *c
		c0.Traps = 0
		return rn.runOut(op, c, x, y, iarg) + " " + rn.runOut(op, &c0, x, y, iarg)
	})
}

func (rn *runner) streamTraps(g *gen, opList []string) {
	if len(opList) == 0 {
		for k := range ctxOps {
			opList = append(opList, k)
		}
		sortStrings(opList)
	}
	for i := 0; i < rn.n; i++ {
		op := opList[g.r.Intn(len(opList))]
		def := ctxOps[op]
		composite := op == "exp" || op == "ln" || op == "log10" || op == "pow" || op == "sqrt" || op == "cbrt"
		var c *apd.Context
		if composite {
			c = g.rootCtx()
			if c.Precision > 20 {
				c.Precision = uint32(1 + g.r.Intn(20))
			}
		} else {
			c = g.ctx(false, false)
		}
		c.Traps = g.traps()
		if c.Traps == 0 {
			c.Traps = apd.Condition(1) << uint(g.r.Intn(12))
		}
		var x, y *apd.Decimal
		switch {
		case (op == "sqrt" || op == "cbrt") && g.r.Intn(2) == 0:
			// exact and nearly exact roots, often placed at the edge of the exponent range: the paths
			// where a root function decides about flags and error on its own
			k := int64(2)
			if op == "sqrt" {
				x = g.sqrtHard(int(c.Precision))
			} else {
				x = g.cbrtHard(int(c.Precision))
				k = 3
			}
			if g.r.Intn(2) == 0 {
				g.placeRoot(c, x, k)
			}
		case composite:
			x = g.smallOperand(c)
			if def.arity == 2 {
				y = g.smallOperand(c)
			}
		case (op == "quo" || op == "quoint" || op == "rem") && g.r.Intn(2) == 0:
			x, y = g.divPair(c)
		case def.arity == 2:
			x = g.decimal(c, false)
			y = g.related(c, x, false)
		default:
			x = g.decimal(c, false)
		}
		var iarg int32
		if def.hasInt {
			iarg = int32(int64(x.Exponent) + int64(g.r.Intn(int(x.NumDigits())+3)) - 1)
		}
		rn.trapsCase(op, c, x, y, iarg)
	}
}

// smallOperand: operands on which the transcendental functions finish quickly.
func (g *gen) smallOperand(c *apd.Context) *apd.Decimal {
	switch g.r.Intn(12) {
	case 0:
		return special(apd.Form(1+g.r.Intn(3)), g.r.Intn(2) == 0)
	case 1:
		return mk([]string{"0", "-0", "1", "-1", "1.00", "10", "0.1", "100", "2", "0.5"}[g.r.Intn(10)])
	}
	n := 1 + g.r.Intn(int(c.Precision)+4)
	co := g.coeff(n)
	exp := int64(g.r.Intn(9)) - 4 - int64(n)
	if g.r.Intn(6) == 0 {
		exp = int64(g.r.Intn(41)) - 20
	}
	return decFromBig(co, exp, g.r.Intn(3) == 0)
}

// ---------- errdec stream: sequences of ErrDecimal wrapper calls ----------

type edStep struct {
	op   string
	x, y *apd.Decimal
	iarg int32
}

func edCall(ed *apd.ErrDecimal, st edStep, d *apd.Decimal) {
	switch st.op {
	case "abs":
		ed.Abs(d, st.x)
	case "add":
		ed.Add(d, st.x, st.y)
	case "ceil":
		ed.Ceil(d, st.x)
	case "exp":
		ed.Exp(d, st.x)
	case "floor":
		ed.Floor(d, st.x)
	case "ln":
		ed.Ln(d, st.x)
	case "log10":
		ed.Log10(d, st.x)
	case "mul":
		ed.Mul(d, st.x, st.y)
	case "neg":
		ed.Neg(d, st.x)
	case "pow":
		ed.Pow(d, st.x, st.y)
	case "quantize":
		ed.Quantize(d, st.x, st.iarg)
	case "quo":
		ed.Quo(d, st.x, st.y)
	case "quoint":
		ed.QuoInteger(d, st.x, st.y)
	case "reduce":
		ed.Reduce(d, st.x)
	case "rem":
		ed.Rem(d, st.x, st.y)
	case "round":
		ed.Round(d, st.x)
	case "sqrt":
		ed.Sqrt(d, st.x)
	case "sub":
		ed.Sub(d, st.x, st.y)
	case "rtiv":
		ed.RoundToIntegralValue(d, st.x)
	case "rtie":
		ed.RoundToIntegralExact(d, st.x)
	default:
		panic("errdec: unknown op " + st.op)
	}
}

var edOps = []string{"abs", "add", "ceil", "floor", "mul", "neg", "quantize", "quo", "quoint", "reduce", "rem", "round", "sqrt", "sub", "rtiv", "rtie", "exp", "ln", "log10", "pow"}

func (rn *runner) streamErrDec(g *gen) {
	sentinel := mk("-987654321E-40")
	for i := 0; i < rn.n; i++ {
		c := g.ctx(false, false)
		if c.Precision > 20 {
			c.Precision = uint32(1 + g.r.Intn(20))
		}
		c.Traps = g.traps()
		n := 2 + g.r.Intn(5)
		var steps []edStep
		var sb strings.Builder
		fmt.Fprintf(&sb, "%s %d", showCtx(c), n)
		for j := 0; j < n; j++ {
			op := edOps[g.r.Intn(len(edOps))]
			def := ctxOps[op]
			st := edStep{op: op}
			if op == "exp" || op == "ln" || op == "log10" || op == "pow" {
				// only operands decided by the special-value prologues (the model has no series)
				st.x = []*apd.Decimal{special(apd.Infinite, false), special(apd.Infinite, true), mk("0"), special(apd.NaN, false), special(apd.NaNSignaling, false), mk("1")}[g.r.Intn(6)]
				if op == "exp" && st.x.Form == apd.Finite && st.x.Coeff.Sign() != 0 {
					st.x = mk("0")
				}
				if def.arity == 2 {
					st.y = []*apd.Decimal{special(apd.Infinite, false), mk("0"), special(apd.NaN, true), special(apd.Infinite, true)}[g.r.Intn(4)]
				}
			} else {
				st.x = g.decimal(c, false)
				if op == "sqrt" && st.x.Form == apd.Finite {
					st.x = g.smallOperand(c)
				}
				if def.arity == 2 {
					st.y = g.related(c, st.x, false)
				}
				if def.hasInt {
					st.iarg = int32(int64(st.x.Exponent) + int64(g.r.Intn(int(st.x.NumDigits())+3)) - 1)
				}
			}
			steps = append(steps, st)
			fmt.Fprintf(&sb, " %s %s %s %d", op, showDec(st.x), optDec(st.y, def.arity), st.iarg)
		}
		rn.rawCase("errdec", sb.String(), true, "errdec", func() string {
			cc := *c
			ed := apd.MakeErrDecimal(&cc)
			var parts []string
			for _, st := range steps {
				d := new(apd.Decimal).Set(sentinel)
				edCall(&ed, st, d)
				err := ed.Err()
				parts = append(parts, fmt.Sprintf("%s %d %s", showDec(d), uint32(ed.Flags), errKind(err, ed.Flags, cc.Traps)))
			}
			// the same calls made directly on the Context: the first one that returns an error is the
			// step at which ErrDecimal.Err() has to become (and stay) non-nil
			direct := -1
			for j, st := range steps {
				dc := *c
				var d apd.Decimal
				def := ctxOps[st.op]
				if _, e, _ := def.run(&dc, &d, st.x, st.y, st.iarg); e != nil {
					direct = j
					break
				}
			}
			parts = append(parts, fmt.Sprintf("direct=%d", direct))
			return strings.Join(parts, " ")
		})
	}
}

// ---------- translog stream: Exp, Ln, Log10, Pow (C12) ----------

// constsCases reports the pre-rounded tables of ln(10) and 1/ln(10) as the package holds them: the model
// derives them from the digit strings (rounding half-up to 1, 2, 4, ... digits) and must agree.
func (rn *runner) constsCases() {
	_, dump := apd.VerifSnapshot()
	for _, item := range strings.Split(dump, ";") {
		eq := strings.Index(item, "=")
		if eq < 0 || !(strings.HasPrefix(item, "ln10.") || strings.HasPrefix(item, "invLn10.")) {
			continue
		}
		name, val := item[:eq], item[eq+1:]
		f := strings.Split(val, "/") // form/negative/exponent/coefficient
		if len(f) != 4 {
			continue
		}
		neg := "0"
		if f[1] == "true" {
			neg = "1"
		}
		rn.rawCase("consts", name, true, "consts", func() string { return "f:" + neg + ":" + f[3] + ":" + f[2] })
	}
}

func (rn *runner) streamTransLog(g *gen) {
	one := big.NewInt(1)
	rn.constsCases()
	for i := 0; i < rn.n; i++ {
		c := g.rootCtx()
		if c.Precision > 34 {
			c.Precision = uint32(1 + g.r.Intn(34))
		}
		p := int(c.Precision)
		nd := g.digits(p) // often more digits than the precision
		if nd > 60 {
			nd = 60
		}
		var x, y *apd.Decimal
		op := []string{"exp", "ln", "log10", "pow"}[g.r.Intn(4)]
		switch op {
		case "exp":
			co := g.coeff(nd)
			var exp int64
			switch g.r.Intn(8) {
			case 0: // tiny argument
				exp = -int64(nd) - int64(g.r.Intn(2*p+5))
			case 1: // near the overflow / underflow thresholds of the context
				exp = -int64(nd) + int64(len(fmt.Sprint(int64(float64(c.MaxExponent)*2.302585))))
			case 2:
				exp = -int64(nd) + int64(g.r.Intn(5))
			default:
				exp = -int64(nd) + int64(g.r.Intn(3))
			}
			x = decFromBig(co, exp, g.r.Intn(3) == 0)
			if g.r.Intn(12) == 0 {
				// the algorithm's own thresholds: |x| at, just above and just below a multiple of 23
				// (working precision = |x|/23, decided through a float64), up to and beyond 23*1000
				k := int64(p + g.r.Intn(40))
				switch g.r.Intn(4) {
				case 0:
					k = int64(g.pick(250, 500, 997, 998, 999, 1000, 1001))
				case 1:
					k = int64(1 + g.r.Intn(1100))
				}
				far := int64(g.pick(1, 5, 16, 17, 20, 30, 40))
				co := new(big.Int).Mul(big.NewInt(23*k), pow10(int(far)))
				co.Add(co, big.NewInt(int64(g.r.Intn(3)-1)))
				x = decFromBig(co, -far, g.r.Intn(2) == 0)
				if g.r.Intn(3) == 0 {
					c.MaxExponent, c.MinExponent = 100000, -100000
				}
			}
		case "ln", "log10":
			switch g.r.Intn(6) {
			case 0, 1: // near 1: 1 +- 10^-k
				k := 1 + g.r.Intn(2*p+3)
				co := new(big.Int).Add(pow10(k), big.NewInt(int64(g.r.Intn(9)-4)))
				if g.r.Intn(2) == 0 {
					co = new(big.Int).Sub(pow10(k), big.NewInt(int64(1+g.r.Intn(5))))
				}
				x = decFromBig(co, -int64(k), false)
			case 2: // exact powers of ten and neighbours
				k := g.r.Intn(40) - 20
				x = decFromBig(one, int64(k), false)
				if g.r.Intn(2) == 0 {
					x = decFromBig(new(big.Int).Add(pow10(p+2), one), int64(k-p-2), false)
				}
			default:
				x = decFromBig(g.coeff(nd), int64(g.r.Intn(61)-30-nd), false)
			}
			if x.Coeff.Sign() == 0 {
				x = decFromBig(big.NewInt(7), 0, false)
			}
		case "pow":
			x = decFromBig(g.coeff(1+g.r.Intn(p+3)), int64(g.r.Intn(7)-3-g.r.Intn(p+1)), g.r.Intn(4) == 0)
			switch g.r.Intn(6) {
			case 0: // small non-negative integers: exact powers
				y = decFromBig(big.NewInt(int64(g.r.Intn(12))), 0, false)
			case 1: // integers with trailing zeros / larger
				y = decFromBig(big.NewInt(int64(g.r.Intn(60))), int64(g.r.Intn(2)), g.r.Intn(3) == 0)
			case 2: // half integers
				y = decFromBig(big.NewInt(int64(2*g.r.Intn(20)+1)*5), -1, g.r.Intn(3) == 0)
			case 3:
				y = decFromBig(big.NewInt(1), 0, false)
			default:
				y = decFromBig(g.coeff(1+g.r.Intn(p+2)), -int64(g.r.Intn(p+3)), g.r.Intn(3) == 0)
			}
			if x.Coeff.Sign() == 0 {
				x = decFromBig(big.NewInt(3), 0, false)
			}
			if g.r.Intn(10) == 0 {
				// a root (purely fractional exponent) of an operand with a huge or tiny exponent, in a context wide
				// enough to hold the result: frac(y)*ln|x| then has up to five integer digits, which the working
				// precision must cover (a perfect square / cube / fourth power half of the time: exact results)
				c.MaxExponent, c.MinExponent = 100000, -100000
				e := int64(g.pick(4000, 9000, 9000, 19000, 19000, 38000))
				if g.r.Intn(2) == 0 {
					e = -e
				}
				root := int64(g.pick(2, 2, 4, 5, 8, 10))
				m := g.coeff(1 + g.r.Intn(p+1))
				if m.Sign() == 0 {
					m = big.NewInt(95)
				}
				if g.r.Intn(2) == 0 && root <= 4 {
					m = new(big.Int).Exp(m, big.NewInt(root), nil)
				}
				x = decFromBig(m, e-e%root, false)
				// 1/2, 1/4, 1/5, 1/8, 1/10 are exact decimals
				y = decFromBig(big.NewInt(map[int64]int64{2: 5, 4: 25, 5: 2, 8: 125, 10: 1}[root]), map[int64]int64{2: -1, 4: -2, 5: -1, 8: -3, 10: -1}[root], g.r.Intn(3) == 0)
			}
		}
		rn.ctxCase(op, c, x, y, 0)
	}
}
