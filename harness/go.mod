module verif/harness

go 1.17

require github.com/cockroachdb/apd/v3 v3.0.0

require github.com/lib/pq v1.10.7 // indirect

replace github.com/cockroachdb/apd/v3 => /repo
