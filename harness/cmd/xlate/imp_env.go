package main

import (
	"fmt"
	"go/ast"
	"go/token"
	"strings"
)

type vkind int

const (
	vVal      vkind = iota // a Lean value of the variable's category (Int, Bool, Cond, Dec, Nat for BigInt, …)
	vCell                  // *Decimal parameter, written through
	vSrc                   // *Decimal parameter or local pointer, read only
	vOptSrc                // *Decimal parameter that may be nil
	vOptCell               // *Decimal parameter that may be nil, written through
	vBPtr                  // *BigInt pointer value
	vList                  // variadic list
	vPlainCtx              // *Context / Rounder
)

type ivar struct {
	cat       cat
	kind      vkind
	assigned  bool // pointer locals: has been assigned
	moved     bool // scratch big integer whose address has been given away
	unwrapped bool // Option Src known to be non-nil (shadowed by the Src)
	knownNil  bool
	scratch   bool   // BPtr known to point to a scratch big integer (may be written through)
	cellOwner string // BPtr known to be &X.Coeff for the cell X
	addrParam bool   // a local Decimal standing for a non-nil *Decimal parameter (variants)
	readOnly  bool   // … that must not be assigned (it is not returned)
	ctxAlias  string // an ErrDecimal: the local context whose pointer it holds
	ifInit    bool   // declared by the initialiser of an `if` (its Go scope is that statement)
	ver       int
	depth     int // block nesting depth at which the variable was declared
}

type ienv struct {
	vars map[string]*ivar
	sign map[string]string // place of a big integer -> Lean local holding its sign flag
}

func newEnv() *ienv { return &ienv{vars: map[string]*ivar{}, sign: map[string]string{}} }

func (e *ienv) clone() *ienv {
	n := newEnv()
	for k, v := range e.vars {
		c := *v
		n.vars[k] = &c
	}
	for k, v := range e.sign {
		n.sign[k] = v
	}
	return n
}

// itr translates one function.
type itr struct {
	sig       *isig
	fn        string
	env       *ienv
	cur       *[]string
	tmp       int
	aux       []string // auxiliary definitions (loops), emitted before the function
	monadic   bool     // the code being emitted lives in `Prog` (do-notation); false: pure term
	retWrap   func(string) string
	nloops    int
	depth     int    // current block nesting depth
	loopBreak func() // inside a `for` body: emits the loop exit
	inAux     int    // > 0 while the body of an auxiliary function is being translated
	nparts    int
}

func (t *itr) fail(format string, a ...interface{}) string {
	return fail("%s: %s", t.fn, fmt.Sprintf(format, a...))
}

func (t *itr) emit(format string, a ...interface{}) {
	*t.cur = append(*t.cur, fmt.Sprintf(format, a...))
}

func (t *itr) emitLines(ls []string, indent int) {
	for _, l := range ls {
		*t.cur = append(*t.cur, strings.Repeat("  ", indent)+l)
	}
}

// capture runs f with a fresh block (and a copy of the environment unless keepEnv) and returns its lines and
// the environment it ended in.
func (t *itr) capture(f func()) ([]string, *ienv) {
	saveCur, saveEnv := t.cur, t.env
	var ls []string
	t.cur = &ls
	t.env = saveEnv.clone()
	t.depth++
	f()
	t.depth--
	end := t.env
	t.cur, t.env = saveCur, saveEnv
	return ls, end
}

func (t *itr) fresh() string {
	t.tmp++
	return fmt.Sprintf("t_%d", t.tmp)
}

// bind emits `let v ← p` (monadic code only) and returns v.
func (t *itr) bind(p string) string {
	if !t.monadic {
		return t.fail("heap access `%s` in pure code", p)
	}
	v := t.fresh()
	t.emit("let %s ← %s", v, p)
	return v
}

// define (re)binds a Go local as a Lean `let`.
func (t *itr) define(name string, c cat, k vkind, val string) {
	if i := strings.Index(name, "."); i > 0 && c == cDec {
		// a Decimal field of a local struct
		owner, field := name[:i], name[i+1:]
		ov := t.env.vars[owner]
		if ov == nil || ov.cat != cLoop {
			t.fail("assignment to %s", name)
			return
		}
		t.define(owner, cLoop, vVal, fmt.Sprintf("{ %s with %s := %s }", owner, field, val))
		return
	}
	v := t.env.vars[name]
	if v != nil && v.readOnly {
		t.fail("assignment to the read-only local %s", name)
	}
	if v == nil {
		if tmpNameRe.MatchString(name) {
			t.fail("local name %s clashes with generated names", name)
		}
		v = &ivar{depth: t.depth}
		t.env.vars[name] = v
	}
	v.cat, v.kind = c, k
	v.ver++
	v.assigned = true
	ty := leanOf(c)
	switch k {
	case vCell:
		ty = "Cell"
	case vSrc:
		ty = "Src"
	case vBPtr:
		ty = "BPtr"
	}
	t.emit("let %s : %s := %s", name, ty, val)
}

// checkDecl is called for a Go declaration (`x := e`, `var x T`): a declaration that shadows a variable of an
// enclosing block cannot be rendered by Lean's `let` (the binding would leak past the block and be taken for an
// assignment at the join).
func (t *itr) checkDecl(name string) {
	if v := t.env.vars[name]; v != nil && v.depth < t.depth && name != "_" {
		t.fail("declaration of %s shadows a variable of an enclosing block", name)
	}
}

// defineSign records the sign flag of the big integer at `place`.
func (t *itr) defineSign(place, val string) {
	name := "sg_" + strings.NewReplacer(":", "_", ".", "_").Replace(place)
	v := t.env.vars[name]
	if v == nil {
		v = &ivar{}
		t.env.vars[name] = v
	}
	v.cat, v.kind = cBool, vVal
	v.ver++
	t.env.sign[place] = name
	t.emit("let %s : Bool := %s", name, val)
}

// ---------- places ----------

// a *Decimal (or addressable Decimal) expression
type decRef struct {
	kind string // "cell", "src", "local" (a Decimal-valued local), "const" (package variable), "nil", "opt"
	name string // Lean expression of the cell / Src / local
	ok   bool
}

func (t *itr) decRef(e ast.Expr) decRef {
	for {
		if p, ok := e.(*ast.ParenExpr); ok {
			e = p.X
			continue
		}
		break
	}
	if u, ok := e.(*ast.UnaryExpr); ok && u.Op == token.AND {
		if se, ok := u.X.(*ast.SelectorExpr); ok {
			e = se
		}
	}
	if se, ok := e.(*ast.SelectorExpr); ok {
		if v := t.env.vars[identName(se.X)]; v != nil && v.cat == cLoop {
			if f, ok := loopFields[se.Sel.Name]; ok && f.cat == cDec {
				return decRef{"local", identName(se.X) + "." + f.lean, true}
			}
		}
	}
	if u, ok := e.(*ast.UnaryExpr); ok && u.Op == token.AND {
		if id := identName(u.X); id != "" {
			if v := t.env.vars[id]; v != nil && v.cat == cDec {
				return decRef{"local", id, true}
			}
		}
		t.fail("address of %s", exprString(e))
		return decRef{}
	}
	if call, ok := e.(*ast.CallExpr); ok && identName(call.Fun) == "New" && len(call.Args) == 2 {
		if lit, ok := newDecLit(call, t.fn); ok {
			return decRef{"const", lit, true}
		}
	}
	id, ok := e.(*ast.Ident)
	if !ok {
		t.fail("decimal expression %s", exprString(e))
		return decRef{}
	}
	if id.Name == "nil" {
		return decRef{"nil", "", true}
	}
	if v := t.env.vars[id.Name]; v != nil {
		switch {
		case v.cat == cDec:
			return decRef{"local", id.Name, true}
		case v.kind == vCell:
			return decRef{"cell", id.Name, true}
		case v.kind == vSrc:
			if !v.assigned {
				t.fail("pointer %s used before it is assigned", id.Name)
			}
			return decRef{"src", id.Name, true}
		case v.kind == vOptSrc:
			if v.unwrapped {
				return decRef{"src", id.Name, true}
			}
			if v.knownNil {
				return decRef{"nil", "", true}
			}
			return decRef{"opt", id.Name, true}
		case v.kind == vOptCell:
			if v.unwrapped {
				return decRef{"cell", id.Name, true}
			}
			if v.knownNil {
				return decRef{"nil", "", true}
			}
			return decRef{"optcell", id.Name, true}
		}
		t.fail("%s is not a decimal", id.Name)
		return decRef{}
	}
	if o := info.Uses[id]; o != nil && o.Parent() == pkg.Scope() && classify(o.Type()) == cDecPtr {
		needDecVar(id.Name)
		return decRef{"const", id.Name, true}
	}
	t.fail("unknown decimal %s", id.Name)
	return decRef{}
}

// asSrc renders a decimal reference as a Lean `Src`
func (t *itr) asSrc(r decRef, what string) string {
	switch r.kind {
	case "cell":
		return "(Src.cell " + r.name + ")"
	case "src":
		return r.name
	case "const":
		return "(Src.const " + r.name + ")"
	case "local":
		// a local Decimal that is only read through this pointer: its value
		return "(Src.const " + r.name + ")"
	}
	return t.fail("%s: %s decimal where an operand pointer is needed", what, r.kind)
}

var fieldLean = map[string][2]string{"Form": {"Form", "form"}, "Negative": {"Neg", "neg"}, "Exponent": {"Exp", "exp"}, "Coeff": {"Coeff", "coeff"}}
var fieldCat = map[string]cat{"Form": cForm, "Negative": cBool, "Exponent": cInt, "Coeff": cBig}

// readField evaluates X.F
func (t *itr) readField(x ast.Expr, f string) (string, cat) {
	fl, ok := fieldLean[f]
	if !ok {
		return t.fail("field %s", f), cUnknown
	}
	r := t.decRef(x)
	if !r.ok {
		return "sorryUnsupported", cUnknown
	}
	switch r.kind {
	case "local":
		return r.name + "." + fl[1], fieldCat[f]
	case "cell", "src", "const":
		return t.bind(fmt.Sprintf("rd%s %s", fl[0], t.asSrc(r, "read"))), fieldCat[f]
	}
	return t.fail("read of field %s of a %s decimal", f, r.kind), cUnknown
}

// writeField performs X.F = v
func (t *itr) writeField(x ast.Expr, f string, v string) {
	fl, ok := fieldLean[f]
	if !ok {
		t.fail("field %s", f)
		return
	}
	r := t.decRef(x)
	if !r.ok {
		return
	}
	switch r.kind {
	case "local":
		t.define(r.name, cDec, vVal, fmt.Sprintf("{ %s with %s := %s }", r.name, fl[1], v))
	case "cell":
		if !t.monadic {
			t.fail("heap write in pure code")
			return
		}
		t.emit("wr%s %s %s", fl[0], r.name, v)
	default:
		t.fail("write to field %s of a %s decimal (read-only operand)", f, r.kind)
	}
}

// a big-integer place
type bigRef struct {
	kind  string // "cell" (coefficient of a cell/Src), "local" (BigInt local / in-out parameter), "dec" (coefficient of a local Decimal), "val" (read-only value), "bptr"
	name  string // owner name (cell / local / Decimal local / BPtr variable) or the value
	owner decRef
	ok    bool
}

func (b bigRef) place() string { return b.kind + ":" + b.name }

func (t *itr) bigRef(e ast.Expr) bigRef {
	for {
		if p, ok := e.(*ast.ParenExpr); ok {
			e = p.X
			continue
		}
		break
	}
	if u, ok := e.(*ast.UnaryExpr); ok && u.Op == token.AND {
		e = u.X
	}
	switch e := e.(type) {
	case *ast.SelectorExpr:
		if e.Sel.Name == "Coeff" {
			r := t.decRef(e.X)
			if !r.ok {
				return bigRef{}
			}
			switch r.kind {
			case "local":
				return bigRef{"dec", r.name, r, true}
			case "cell", "src", "const":
				return bigRef{"cell", r.name, r, true}
			}
			t.fail("coefficient of a %s decimal", r.kind)
			return bigRef{}
		}
	case *ast.Ident:
		if v := t.env.vars[e.Name]; v != nil {
			switch {
			case v.kind == vBPtr:
				if !v.assigned {
					t.fail("*BigInt %s used before it is assigned", e.Name)
				}
				if v.cellOwner != "" {
					// known to be the address of a cell's coefficient: accessed where it is dereferenced
					return bigRef{"cell", v.cellOwner, decRef{"cell", v.cellOwner, true}, true}
				}
				return bigRef{"bptr", e.Name, decRef{}, true}
			case v.cat == cBig:
				if v.moved {
					t.fail("big integer %s used after its address was given away", e.Name)
				}
				return bigRef{"local", e.Name, decRef{}, true}
			}
		}
		if o := info.Uses[e]; o != nil && o.Parent() == pkg.Scope() && classify(o.Type()) == cBigPtr {
			return bigRef{"val", "Apd.Gen." + e.Name, decRef{}, true}
		}
	case *ast.CallExpr:
		if identName(e.Fun) == "tableExp10" && len(e.Args) == 2 {
			x, _ := t.expr(e.Args[0])
			return bigRef{"val", "(10 ^ (Int.toNat " + x + "))", decRef{}, true}
		}
	}
	t.fail("big-integer expression %s", exprString(e))
	return bigRef{}
}

// readBig evaluates *b as a magnitude
func (t *itr) readBig(b bigRef) string {
	if !b.ok {
		return "sorryUnsupported"
	}
	switch b.kind {
	case "cell":
		return t.bind("rdCoeff " + t.asSrc(b.owner, "coefficient"))
	case "local", "val":
		return b.name
	case "dec":
		return b.name + ".coeff"
	case "bptr":
		return t.bind("derefB " + b.name)
	}
	return t.fail("read of big integer")
}

// writeBig performs *b = v
func (t *itr) writeBig(b bigRef, v string) {
	if !b.ok {
		return
	}
	switch b.kind {
	case "cell":
		if b.owner.kind != "cell" {
			t.fail("write to the coefficient of a read-only operand %s", b.name)
			return
		}
		if !t.monadic {
			t.fail("heap write in pure code")
			return
		}
		t.emit("wrCoeff %s %s", b.name, v)
	case "local":
		t.define(b.name, cBig, vVal, v)
	case "dec":
		t.define(b.name, cDec, vVal, fmt.Sprintf("{ %s with coeff := %s }", b.name, v))
	case "bptr":
		bv := t.env.vars[b.name]
		if bv == nil || !bv.scratch {
			t.fail("write through *BigInt %s that is not known to be a scratch value", b.name)
			return
		}
		t.define(b.name, cBigPtr, vBPtr, "BPtr.val "+v)
		t.env.vars[b.name].scratch = true
	default:
		t.fail("write to a read-only big integer %s", b.name)
	}
}

func (t *itr) signOf(b bigRef) (string, bool) {
	s, ok := t.env.sign[b.place()]
	return s, ok
}

func (t *itr) noSign(b bigRef, what string) {
	if _, ok := t.signOf(b); ok {
		t.fail("%s on a big integer whose sign is tracked (%s)", what, b.place())
	}
}

func exprString(e ast.Node) string {
	switch e := e.(type) {
	case *ast.Ident:
		return e.Name
	case *ast.SelectorExpr:
		return exprString(e.X) + "." + e.Sel.Name
	case *ast.CallExpr:
		return exprString(e.Fun) + "(…)"
	case *ast.UnaryExpr:
		return e.Op.String() + exprString(e.X)
	case *ast.BinaryExpr:
		return exprString(e.X) + " " + e.Op.String() + " " + exprString(e.Y)
	case *ast.ParenExpr:
		return "(" + exprString(e.X) + ")"
	case *ast.BasicLit:
		return e.Value
	case *ast.StarExpr:
		return "*" + exprString(e.X)
	}
	return fmt.Sprintf("%T", e)
}
