package main

import (
	"fmt"
	"go/ast"
	"go/token"
	"regexp"
	"sort"
	"strings"
)

func isPanic(s ast.Stmt) bool {
	if es, ok := s.(*ast.ExprStmt); ok {
		if c, ok := es.X.(*ast.CallExpr); ok {
			return identName(c.Fun) == "panic"
		}
	}
	return false
}

func terminates(list []ast.Stmt) bool {
	for _, s := range list {
		if termStmt(s) {
			return true
		}
	}
	return false
}

func elseList(e ast.Stmt) []ast.Stmt {
	switch e := e.(type) {
	case nil:
		return nil
	case *ast.BlockStmt:
		return e.List
	}
	return []ast.Stmt{e}
}

func termStmt(s ast.Stmt) bool {
	switch s := s.(type) {
	case *ast.ReturnStmt:
		return true
	case *ast.BranchStmt:
		return true
	case *ast.ExprStmt:
		return isPanic(s)
	case *ast.BlockStmt:
		return terminates(s.List)
	case *ast.IfStmt:
		return s.Else != nil && terminates(s.Body.List) && terminates(elseList(s.Else))
	case *ast.SwitchStmt:
		hasDef := false
		for _, c := range s.Body.List {
			cl := c.(*ast.CaseClause)
			if cl.List == nil {
				hasDef = true
			}
			if !terminates(cl.Body) {
				return false
			}
		}
		return hasDef
	}
	return false
}

func containsReturn(n ast.Node) bool {
	if n == nil {
		return false
	}
	found := false
	ast.Inspect(n, func(m ast.Node) bool {
		switch m := m.(type) {
		case *ast.ReturnStmt:
			found = true
		case *ast.BranchStmt:
			found = true
		case *ast.ForStmt, *ast.RangeStmt:
			// a break inside a nested loop leaves only that loop; returns still count
			if m != n {
				if hasReturnStmt(m) {
					found = true
				}
				return false
			}
		case *ast.ExprStmt:
			if isPanic(m) {
				found = true
			}
		case *ast.FuncLit:
			return false
		}
		return !found
	})
	return found
}

func hasReturnStmt(n ast.Node) bool {
	found := false
	ast.Inspect(n, func(m ast.Node) bool {
		switch m := m.(type) {
		case *ast.ReturnStmt:
			found = true
		case *ast.ExprStmt:
			if isPanic(m) {
				found = true
			}
		case *ast.FuncLit:
			return false
		}
		return !found
	})
	return found
}

// stmts translates a statement list; k emits what follows it (called once per path that falls through).
func (t *itr) stmts(list []ast.Stmt, k func()) {
	if len(list) == 0 {
		k()
		return
	}
	s := list[0]
	d0 := t.depth
	rest := func() {
		// the statements that follow belong to this block, wherever the text is emitted
		save := t.depth
		t.depth = d0
		t.stmts(list[1:], k)
		t.depth = save
	}
	switch s := s.(type) {
	case *ast.ReturnStmt:
		t.ret(s)
	case *ast.IfStmt:
		t.ifStmt(s, rest)
	case *ast.SwitchStmt:
		t.switchStmt(s, rest)
	case *ast.RangeStmt:
		t.rangeStmt(s, rest)
	case *ast.ForStmt:
		t.forStmt(s, rest)
	case *ast.BranchStmt:
		if s.Tok == token.BREAK && s.Label == nil && t.loopBreak != nil {
			t.loopBreak()
			return
		}
		t.fail("%s", s.Tok)
	case *ast.BlockStmt:
		t.stmts(append(append([]ast.Stmt{}, s.List...), list[1:]...), k)
	case *ast.ExprStmt:
		if isPanic(s) {
			t.emit("%s", t.retWrap("goPanic"))
			return
		}
		t.simple(s)
		rest()
	default:
		t.simple(s)
		rest()
	}
}

// ret translates a return statement.
func (t *itr) ret(s *ast.ReturnStmt) {
	sig := t.sig
	var vals []string
	switch {
	case sig.retRecv:
		if len(s.Results) != 1 {
			t.fail("return arity")
			return
		}
		recvName := sig.params[0].name
		if identName(s.Results[0]) == recvName {
			// return d
		} else if call, ok := s.Results[0].(*ast.CallExpr); ok {
			k := calleeKey(call)
			cs := impSigs[k]
			se, _ := call.Fun.(*ast.SelectorExpr)
			if cs == nil || !cs.retRecv || se == nil || identName(se.X) != recvName {
				t.fail("returned *Decimal is not the receiver")
				return
			}
			t.call(call, true)
		} else {
			t.fail("returned *Decimal is not the receiver")
			return
		}
	case len(s.Results) == 1 && len(sig.goResults) > 1:
		call, ok := s.Results[0].(*ast.CallExpr)
		if !ok {
			t.fail("return of a tuple that is not a call")
			return
		}
		rs, _ := t.call(call, false)
		if len(rs) != len(sig.goResults) {
			t.fail("returned call has %d results, want %d", len(rs), len(sig.goResults))
			return
		}
		for i, r := range rs {
			_, dropped := sig.drop[i]
			if dropped != (r == droppedResult) {
				t.fail("returned call: result %d is a pointer of the callee", i)
				return
			}
			if !dropped {
				vals = append(vals, r)
			}
		}
	default:
		if len(s.Results) != len(sig.goResults) {
			t.fail("return arity (naked return?)")
			return
		}
		for i, e := range s.Results {
			if name, dropped := sig.drop[i]; dropped {
				if identName(e) != name {
					t.fail("result %d must be %s", i, name)
				}
				continue
			}
			v := t.exprAs(e, sig.goResults[i])
			// a later operand that contains a call may rebind a local this value mentions: fix the value now
			laterCall := false
			for _, e2 := range s.Results[i+1:] {
				ast.Inspect(e2, func(n ast.Node) bool {
					if c, ok := n.(*ast.CallExpr); ok {
						// only calls that can rebind a local: a method of a local struct value, or `&local` arguments
						if se, ok := c.Fun.(*ast.SelectorExpr); ok {
							if v := t.env.vars[identName(se.X)]; v != nil && v.kind == vVal && (v.cat == cED || v.cat == cDec || v.cat == cBig) {
								laterCall = true
							}
						}
						for _, a := range c.Args {
							if u, ok := a.(*ast.UnaryExpr); ok && u.Op == token.AND && t.env.vars[identName(u.X)] != nil {
								laterCall = true
							}
						}
					}
					return true
				})
			}
			if laterCall {
				if _, isConst := info.Types[e]; !(isConst && info.Types[e].Value != nil) {
					tmp := t.fresh()
					t.emit("let %s : %s := %s", tmp, leanOf(sig.goResults[i]), v)
					v = tmp
				}
			}
			vals = append(vals, v)
		}
	}
	for _, i := range sig.outs {
		vals = append(vals, sig.params[i].name)
	}
	t.emit("%s", t.retWrap(tuple(vals)))
}

// exprAs translates e where a value of category c is expected (gives `nil` and untyped constants their meaning)
func (t *itr) exprAs(e ast.Expr, c cat) string {
	if identName(e) == "nil" {
		switch c {
		case cErr:
			return "ErrKind.none"
		case cBigPtr:
			return "BPtr.null"
		}
		return t.fail("nil where %s is expected", leanOf(c))
	}
	if c == cBigPtr {
		// a *BigInt value
		if u, ok := e.(*ast.UnaryExpr); ok && u.Op == token.AND {
			if o := coeffOwner(e); o != "" {
				r := t.decRef(u.X.(*ast.SelectorExpr).X)
				return "(BPtr.coeff " + t.asSrc(r, "address of coefficient") + ")"
			}
			if id := identName(u.X); id != "" {
				if v := t.env.vars[id]; v != nil && v.cat == cBig && v.kind == vVal {
					v.moved = true
					return "(BPtr.val " + id + ")"
				}
			}
		}
		if id := identName(e); id != "" {
			if v := t.env.vars[id]; v != nil && v.kind == vBPtr {
				return id
			}
		}
		return t.fail("*BigInt value %s", exprString(e))
	}
	if tv, ok := info.Types[e]; ok && tv.Value != nil {
		switch c {
		case cCond:
			return condLit(tv.Value, t.fn)
		}
	}
	x, xc := t.expr(e)
	if xc != c && xc != cUnknown && !(xc == cBig && c == cBig) && !(xc == cLoop && c == cLoopPtr) {
		return t.fail("expression %s has category %s, want %s", exprString(e), leanOf(xc), leanOf(c))
	}
	return x
}

func (t *itr) varCat(id *ast.Ident) cat {
	if o := info.Defs[id]; o != nil {
		return classify(o.Type())
	}
	if v := t.env.vars[id.Name]; v != nil {
		return v.cat
	}
	if o := info.Uses[id]; o != nil {
		return classify(o.Type())
	}
	return cUnknown
}

func zeroOf(c cat) string {
	switch c {
	case cBool:
		return "false"
	case cInt, cNat, cBig:
		return "0"
	case cCond, cDec:
		return "{}"
	case cErr:
		return "ErrKind.none"
	}
	return ""
}

// assignVar performs `name = <value of category c>` for a local
func (t *itr) assignVar(id *ast.Ident, rhs ast.Expr) {
	name := id.Name
	if name == "_" {
		// evaluate for effects
		t.expr(rhs)
		return
	}
	c := t.varCat(id)
	switch c {
	case cDecPtr:
		r := t.decRef(rhs)
		if v := t.env.vars[name]; v != nil && v.kind != vSrc {
			t.fail("assignment to the pointer parameter %s", name)
			return
		}
		if r.kind == "cell" && t.env.vars[name] == nil {
			// a second name for a destination cell (`z := d`)
			t.define(name, cDecPtr, vCell, r.name)
			return
		}
		t.define(name, cDecPtr, vSrc, t.asSrc(r, "pointer assignment"))
	case cBigPtr:
		if call, ok := rhs.(*ast.CallExpr); ok && identName(call.Fun) == "tableExp10" {
			// a read-only power of ten: held by value
			b := t.bigRef(call)
			t.define(name, cBig, vVal, b.name)
			return
		}
		if call, ok := rhs.(*ast.CallExpr); ok && identName(call.Fun) == "new" && len(call.Args) == 1 && identName(call.Args[0]) == "BigInt" {
			// a fresh scratch big integer
			t.define(name, cBigPtr, vBPtr, "BPtr.val 0")
			t.env.vars[name].scratch = true
			t.env.vars[name].cellOwner = ""
			return
		}
		val := t.exprAs(rhs, cBigPtr)
		owner := ""
		if o := coeffOwner(rhs); o != "" {
			if r := t.decRef(&ast.Ident{Name: o}); r.kind == "cell" {
				owner = r.name
			}
		}
		scratch := strings.HasPrefix(val, "(BPtr.val ")
		if id2 := identName(rhs); id2 != "" {
			if v := t.env.vars[id2]; v != nil && v.kind == vBPtr {
				scratch = v.scratch
				if scratch {
					v.moved = true // one live name per scratch pointer
				}
			}
		}
		t.define(name, cBigPtr, vBPtr, val)
		t.env.vars[name].scratch = scratch
		t.env.vars[name].moved = false
		t.env.vars[name].cellOwner = owner
	case cCtx:
		if v := t.env.vars[name]; v != nil && !v.scratch {
			t.fail("assignment to the context parameter %s", name)
			return
		}
		x, xc := t.expr(rhs)
		if xc != cCtx {
			t.fail("context value %s", exprString(rhs))
			return
		}
		t.define(name, cCtx, vPlainCtx, x)
		t.env.vars[name].scratch = true // a local copy: its fields may be assigned
	case cED:
		x, xc := t.expr(rhs)
		if xc != cED {
			t.fail("ErrDecimal value %s", exprString(rhs))
			return
		}
		t.define(name, cED, vVal, x)
		// the ErrDecimal keeps the *Context it was made from: later assignments to that context's fields are seen by it
		t.env.vars[name].ctxAlias = ""
		if call, ok := rhs.(*ast.CallExpr); ok && identName(call.Fun) == "MakeErrDecimal" && len(call.Args) == 1 {
			if cv := t.env.vars[identName(call.Args[0])]; cv != nil && cv.cat == cCtx {
				t.env.vars[name].ctxAlias = identName(call.Args[0])
			}
		}
	case cDec, cBig:
		t.fail("assignment of a %s value to %s", leanOf(c), name)
	case cUnknown:
		t.fail("variable %s of unsupported type", name)
	default:
		t.define(name, c, vVal, t.exprAs(rhs, c))
	}
}

// simple translates a statement that neither branches nor returns.
func (t *itr) simple(s ast.Stmt) {
	switch s := s.(type) {
	case *ast.DeclStmt:
		gd, ok := s.Decl.(*ast.GenDecl)
		if !ok {
			t.fail("declaration")
			return
		}
		if gd.Tok == token.CONST {
			return // constants are inlined by value
		}
		if gd.Tok != token.VAR {
			t.fail("declaration %s", gd.Tok)
			return
		}
		for _, sp := range gd.Specs {
			vs := sp.(*ast.ValueSpec)
			for i, n := range vs.Names {
				c := t.varCat(n)
				t.checkDecl(n.Name)
				if i < len(vs.Values) {
					t.assignVar(n, vs.Values[i])
					continue
				}
				switch c {
				case cDecPtr:
					t.env.vars[n.Name] = &ivar{cat: cDecPtr, kind: vSrc, assigned: false}
				case cBigPtr:
					t.env.vars[n.Name] = &ivar{cat: cBigPtr, kind: vBPtr, assigned: false, depth: t.depth}
				default:
					z := zeroOf(c)
					if z == "" {
						t.fail("zero value of %s", n.Name)
						continue
					}
					t.define(n.Name, c, vVal, z)
				}
			}
		}
	case *ast.AssignStmt:
		t.assign(s)
	case *ast.IncDecStmt:
		if se, ok := s.X.(*ast.SelectorExpr); ok {
			// x.F++ : read, then write
			op := token.ADD
			if s.Tok == token.DEC {
				op = token.SUB
			}
			t.assign(&ast.AssignStmt{Lhs: []ast.Expr{se}, Tok: token.ASSIGN, Rhs: []ast.Expr{&ast.BinaryExpr{X: se, Op: op, Y: &ast.BasicLit{Kind: token.INT, Value: "1"}}}})
			return
		}
		var name string
		if st, ok := s.X.(*ast.StarExpr); ok {
			name = identName(st.X)
		} else {
			name = identName(s.X)
		}
		v := t.env.vars[name]
		if v == nil || v.cat != cInt || v.kind != vVal {
			t.fail("%s of a non-integer", s.Tok)
			return
		}
		op := "+"
		if s.Tok == token.DEC {
			op = "-"
		}
		t.define(name, cInt, vVal, fmt.Sprintf("(%s %s 1)", name, op))
	case *ast.ExprStmt:
		call, ok := s.X.(*ast.CallExpr)
		if !ok {
			t.fail("expression statement")
			return
		}
		if identName(call.Fun) == "verifTape" {
			return // observation hook of the verification build: a no-op in the default build
		}
		t.call(call, true)
	default:
		t.fail("statement %T", s)
	}
}

func (t *itr) assign(s *ast.AssignStmt) {
	// a, b, s, err := f(...)
	if len(s.Lhs) > 1 && len(s.Rhs) == 1 {
		call, ok := s.Rhs[0].(*ast.CallExpr)
		if !ok {
			t.fail("tuple assignment from a non-call")
			return
		}
		rs, cs := t.call(call, false)
		if len(rs) != len(s.Lhs) {
			t.fail("tuple assignment arity")
			return
		}
		for i, l := range s.Lhs {
			if se, ok := l.(*ast.SelectorExpr); ok && s.Tok == token.ASSIGN && rs[i] != droppedResult {
				t.assignField(se, rs[i])
				continue
			}
			id, ok := l.(*ast.Ident)
			if !ok {
				t.fail("tuple assignment target")
				return
			}
			if id.Name == "_" {
				continue
			}
			if rs[i] == droppedResult {
				t.fail("the pointer result of the call is assigned to %s", id.Name)
				return
			}
			if s.Tok == token.DEFINE && info.Defs[id] != nil {
				t.checkDecl(id.Name)
			}
			switch cs[i] {
			case cBigPtr:
				t.define(id.Name, cBigPtr, vBPtr, rs[i])
				t.env.vars[id.Name].cellOwner = ""
				t.env.vars[id.Name].scratch = false
			default:
				t.define(id.Name, cs[i], vVal, rs[i])
			}
		}
		return
	}
	if len(s.Lhs) != len(s.Rhs) {
		t.fail("assignment arity")
		return
	}
	if len(s.Lhs) > 1 {
		// parallel assignment of locals: evaluate the right-hand sides first
		if s.Tok != token.ASSIGN && s.Tok != token.DEFINE {
			t.fail("parallel %s", s.Tok)
			return
		}
		type pa struct {
			id  *ast.Ident
			tmp string
			c   cat
			k   vkind
			scr bool
		}
		var pas []pa
		for i, l := range s.Lhs {
			id, ok := l.(*ast.Ident)
			if !ok {
				t.fail("parallel assignment target")
				return
			}
			c := t.varCat(id)
			if s.Tok == token.DEFINE && info.Defs[id] != nil {
				t.checkDecl(id.Name)
			}
			tmp := t.fresh()
			switch c {
			case cDecPtr:
				r := t.decRef(s.Rhs[i])
				if r.kind == "cell" {
					t.fail("parallel assignment moves the destination cell")
				}
				t.emit("let %s : Src := %s", tmp, t.asSrc(r, "parallel assignment"))
				pas = append(pas, pa{id, tmp, c, vSrc, false})
			case cBigPtr:
				val := t.exprAs(s.Rhs[i], cBigPtr)
				scr := false
				if v := t.env.vars[identName(s.Rhs[i])]; v != nil {
					scr = v.scratch
				}
				t.emit("let %s : BPtr := %s", tmp, val)
				pas = append(pas, pa{id, tmp, c, vBPtr, scr})
			case cDec, cBig, cUnknown:
				t.fail("parallel assignment of %s", id.Name)
				return
			default:
				t.emit("let %s : %s := %s", tmp, leanOf(c), t.exprAs(s.Rhs[i], c))
				pas = append(pas, pa{id, tmp, c, vVal, false})
			}
		}
		for _, p := range pas {
			if v := t.env.vars[p.id.Name]; v != nil && (v.kind == vCell || v.kind == vOptSrc || v.kind == vOptCell) {
				t.fail("parallel assignment to %s", p.id.Name)
				return
			}
			t.define(p.id.Name, p.c, p.k, p.tmp)
			t.env.vars[p.id.Name].scratch = p.scr
		}
		return
	}
	lhs, rhs := s.Lhs[0], s.Rhs[0]
	// compound assignment: x op= e
	binop := map[token.Token]token.Token{token.OR_ASSIGN: token.OR, token.AND_ASSIGN: token.AND, token.ADD_ASSIGN: token.ADD,
		token.SUB_ASSIGN: token.SUB, token.MUL_ASSIGN: token.MUL, token.QUO_ASSIGN: token.QUO, token.REM_ASSIGN: token.REM}
	if op, ok := binop[s.Tok]; ok {
		rhs = &ast.BinaryExpr{X: lhs, Op: op, Y: rhs}
	} else if s.Tok != token.ASSIGN && s.Tok != token.DEFINE {
		t.fail("assignment operator %s", s.Tok)
		return
	}
	switch l := lhs.(type) {
	case *ast.Ident:
		if s.Tok == token.DEFINE && info.Defs[l] != nil {
			t.checkDecl(l.Name)
		}
		t.assignVar(l, rhs)
	case *ast.SelectorExpr:
		if v := t.env.vars[identName(l.X)]; v != nil && v.cat == cLoop {
			f, ok := loopFields[l.Sel.Name]
			if !ok || f.cat == cDec || f.cat == cCtx {
				t.fail("assignment to %s", exprString(l))
				return
			}
			name := identName(l.X)
			t.define(name, cLoop, vVal, fmt.Sprintf("{ %s with %s := %s }", name, f.lean, t.exprAs(rhs, f.cat)))
			return
		}
		if c := t.catOf(l.X); c == cED || c == cEDPtr {
			f, ok := edFields[l.Sel.Name]
			if !ok {
				t.fail("assignment to %s", exprString(l))
				return
			}
			t.assignField(l, t.exprAs(rhs, f.cat))
			return
		}
		if t.catOf(l.X) == cCtx {
			// a field of a local copy of the context
			name := identName(l.X)
			v := t.env.vars[name]
			f, okf := ctxFields[l.Sel.Name]
			if v == nil || !v.scratch || !okf {
				t.fail("assignment to %s", exprString(l))
				return
			}
			val := t.exprAs(rhs, f.cat)
			t.define(name, cCtx, vPlainCtx, fmt.Sprintf("{ %s with %s := %s }", name, f.lean, val))
			t.env.vars[name].scratch = true
			// ErrDecimals made from this context share it
			var eds []string
			for en, ev := range t.env.vars {
				if ev.cat == cED && ev.ctxAlias == name {
					eds = append(eds, en)
				}
			}
			sort.Strings(eds)
			for _, en := range eds {
				t.define(en, cED, vVal, fmt.Sprintf("{ %s with c := %s }", en, name))
			}
			return
		}
		c, ok := fieldCat[l.Sel.Name]
		if !ok || l.Sel.Name == "Coeff" {
			t.fail("assignment to field %s", l.Sel.Name)
			return
		}
		v := t.exprAs(rhs, c)
		t.writeField(l.X, l.Sel.Name, v)
	case *ast.StarExpr:
		name := identName(l.X)
		if v := t.env.vars[name]; v != nil && v.cat == cInt && v.kind == vVal {
			t.define(name, cInt, vVal, t.exprAs(rhs, cInt))
			return
		}
		t.fail("assignment through %s", exprString(l))
	default:
		t.fail("assignment target %T", lhs)
	}
}

// assignField: `e.F = v` for a field of a local ErrDecimal
func (t *itr) assignField(l *ast.SelectorExpr, val string) {
	name := identName(l.X)
	v := t.env.vars[name]
	f, ok := edFields[l.Sel.Name]
	if v == nil || v.cat != cED || !ok {
		t.fail("assignment to %s", exprString(l))
		return
	}
	t.define(name, cED, vVal, fmt.Sprintf("{ %s with %s := %s }", name, f.lean, val))
}

// conjuncts flattens a && b && c
func conjuncts(e ast.Expr) []ast.Expr {
	for {
		if p, ok := e.(*ast.ParenExpr); ok {
			e = p.X
			continue
		}
		break
	}
	if b, ok := e.(*ast.BinaryExpr); ok && b.Op == token.LAND {
		return append(conjuncts(b.X), conjuncts(b.Y)...)
	}
	return []ast.Expr{e}
}

func conj(es []ast.Expr) ast.Expr {
	if len(es) == 0 {
		return nil
	}
	r := es[0]
	for _, e := range es[1:] {
		r = &ast.BinaryExpr{X: r, Op: token.LAND, Y: e}
	}
	return r
}

func (t *itr) ifStmt(s *ast.IfStmt, rest func()) {
	if s.Init != nil {
		if as, ok := s.Init.(*ast.AssignStmt); ok && as.Tok == token.DEFINE {
			for _, l := range as.Lhs {
				// the initialiser's variables are scoped to the `if`; the Lean `let` stays visible afterwards, so
				// the name must not hide anything the rest of the function could still refer to
				if id := identName(l); id != "_" && t.env.vars[id] != nil {
					// allowed only over the variable of an earlier `if` of the same block, whose Go scope has ended
					if v := t.env.vars[id]; !(v.ifInit && v.depth == t.depth) {
						t.fail("if-initialiser redeclares %s", id)
					}
				}
			}
			t.assign(as)
			for _, l := range as.Lhs {
				if v := t.env.vars[identName(l)]; v != nil {
					v.ifInit = true
				}
			}
		} else {
			t.fail("if-initialiser")
		}
	}
	els := elseList(s.Else)
	// nil guard: if y != nil && B { … }
	cs := conjuncts(s.Cond)
	if id, ne, ok := t.nilTest(cs[0]); ok {
		v := t.env.vars[id]
		remaining := conj(cs[1:])
		// what follows when the first conjunct holds / fails
		holds := func() {
			if remaining == nil {
				t.stmts(s.Body.List, rest)
			} else {
				t.ifStmt(&ast.IfStmt{Cond: remaining, Body: s.Body, Else: s.Else}, rest)
			}
		}
		failsF := func() { t.stmts(els, rest) }
		whenNil, whenSome := failsF, holds // y != nil
		if !ne {
			whenNil, whenSome = holds, failsF // y == nil
		}
		switch {
		case v.unwrapped:
			whenSome()
		case v.knownNil:
			whenNil()
		default:
			if !t.monadic {
				t.fail("nil guard in pure code")
				return
			}
			none, _ := t.capture(func() {
				t.env.vars[id].knownNil = true
				whenNil()
			})
			some, _ := t.capture(func() {
				t.env.vars[id].unwrapped = true
				whenSome()
			})
			t.emit("match %s with", id)
			t.emit("| none => do")
			t.emitLines(none, 1)
			t.emit("| some %s => do", id)
			t.emitLines(some, 1)
		}
		return
	}
	cond := func() string { c, _ := t.expr(s.Cond); return c }
	t.branch(cond, s.Body.List, els, terminates(s.Body.List), terminates(els),
		containsReturn(s.Body) || containsReturn(s.Else), rest)
}

// branch emits a two-way branch.
func (t *itr) branch(cond func() string, thenL, elseL []ast.Stmt, thenTerm, elseTerm, hasRet bool, rest func()) {
	c := cond()
	do := ""
	if t.monadic {
		do = " do"
	}
	if !hasRet {
		t.join(c, thenL, elseL, rest)
		return
	}
	// some branch returns: the rest of the block continues in the branches that fall through
	thenLines, _ := t.capture(func() {
		if thenTerm {
			t.stmts(thenL, func() {})
		} else {
			t.stmts(thenL, rest)
		}
	})
	elseLines, _ := t.capture(func() {
		if elseTerm {
			t.stmts(elseL, func() {})
		} else {
			t.stmts(elseL, rest)
		}
	})
	t.emit("if %s then%s", c, do)
	t.emitLines(thenLines, 1)
	t.emit("else%s", do)
	t.emitLines(elseLines, 1)
}

// join: no branch returns; the locals assigned in the branches are returned by both and rebound after the `if`.
func (t *itr) join(c string, thenL, elseL []ast.Stmt, rest func()) {
	t.joinWith(c, func() { t.stmts(thenL, func() {}) }, func() { t.stmts(elseL, func() {}) }, rest)
}

func (t *itr) rebind(ms []string, r string) {
	for i, m := range ms {
		v := t.env.vars[m]
		scr := v.scratch
		t.define(m, v.cat, v.kind, proj(r, i, len(ms)))
		t.env.vars[m].scratch = scr
	}
}

func uniq(xs []string) []string {
	var r []string
	for i, x := range xs {
		if i == 0 || x != xs[i-1] {
			r = append(r, x)
		}
	}
	return r
}

// switchStmt: the tag is evaluated once; the cases are tried in order.
func (t *itr) switchStmt(s *ast.SwitchStmt, rest func()) {
	if s.Init != nil || s.Tag == nil {
		t.fail("switch form")
		return
	}
	tag, tc := t.expr(s.Tag)
	tv := t.fresh()
	t.emit("let %s : %s := %s", tv, leanOf(tc), tag)
	type cc struct {
		conds []ast.Expr
		body  []ast.Stmt
	}
	var cases []cc
	var def []ast.Stmt
	hasRet := false
	allTerm := true
	for _, c := range s.Body.List {
		cl := c.(*ast.CaseClause)
		for _, b := range cl.Body {
			if br, ok := b.(*ast.BranchStmt); ok {
				t.fail("%s in switch", br.Tok)
				return
			}
		}
		if containsReturn(&ast.BlockStmt{List: cl.Body}) {
			hasRet = true
		}
		if !terminates(cl.Body) {
			allTerm = false
		}
		if cl.List == nil {
			def = cl.Body
			continue
		}
		cases = append(cases, cc{cl.List, cl.Body})
	}
	_ = allTerm
	var chain func(i int, rest func())
	chain = func(i int, rest func()) {
		if i == len(cases) {
			t.stmts(def, rest)
			return
		}
		c := cases[i]
		cond := func() string {
			var ps []string
			for _, e := range c.conds {
				x, _ := t.expr(e)
				ps = append(ps, "("+tv+" == "+x+")")
			}
			return strings.Join(ps, " || ")
		}
		// the remaining cases play the role of the else branch
		cstr := cond()
		do := ""
		if t.monadic {
			do = " do"
		}
		remRet := containsReturn(&ast.BlockStmt{List: def})
		for _, cj := range cases[i:] {
			if containsReturn(&ast.BlockStmt{List: cj.body}) {
				remRet = true
			}
		}
		if !hasRet || !remRet {
			// join over this case and the remaining chain
			t.joinWith(cstr, func() { t.stmts(c.body, func() {}) }, func() { chain(i+1, func() {}) }, rest)
			return
		}
		thenLines, _ := t.capture(func() {
			if terminates(c.body) {
				t.stmts(c.body, func() {})
			} else {
				t.stmts(c.body, rest)
			}
		})
		elseLines, _ := t.capture(func() { chain(i+1, rest) })
		t.emit("if %s then%s", cstr, do)
		t.emitLines(thenLines, 1)
		t.emit("else%s", do)
		t.emitLines(elseLines, 1)
	}
	chain(0, rest)
}

// joinWith is join for branches given as emitters
func (t *itr) joinWith(c string, thenF, elseF func(), rest func()) {
	outer := t.env
	thenLines, thenEnv := t.capture(thenF)
	elseLines, elseEnv := t.capture(elseF)
	set := map[string]bool{}
	for name, v := range outer.vars {
		a, b := thenEnv.vars[name], elseEnv.vars[name]
		if (a != nil && a.ver != v.ver) || (b != nil && b.ver != v.ver) {
			set[name] = true
		}
	}
	// sign flags: tracked afterwards if tracked at the end of either branch; a flag born in one branch is false
	// on the other path
	newSign := map[string]string{}
	for _, e := range []*ienv{thenEnv, elseEnv} {
		for pl, sn := range e.sign {
			newSign[pl] = sn
			if outer.vars[sn] == nil {
				outer.vars[sn] = &ivar{cat: cBool, kind: vVal}
				set[sn] = true
			}
		}
	}
	outer.sign = newSign
	var ms []string
	for m := range set {
		ms = append(ms, m)
	}
	sort.Strings(ms)
	tail := func(e *ienv) string {
		var vs []string
		for _, m := range ms {
			if e.vars[m] == nil {
				vs = append(vs, "false")
			} else {
				vs = append(vs, m)
			}
		}
		return tuple(vs)
	}
	for name, v := range outer.vars {
		a, b := thenEnv.vars[name], elseEnv.vars[name]
		if a != nil && b != nil {
			v.assigned = a.assigned && b.assigned
			v.moved = a.moved || b.moved
			v.scratch = a.scratch && b.scratch
			if a.cellOwner == b.cellOwner {
				v.cellOwner = a.cellOwner
			} else {
				v.cellOwner = ""
			}
		}
	}
	if t.monadic {
		r := ""
		if len(ms) > 0 {
			r = t.fresh()
			t.emit("let %s ← (if %s then do", r, c)
		} else {
			t.emit("(if %s then do", c)
		}
		t.emitLines(thenLines, 2)
		t.emit("    pure %s", tail(thenEnv))
		t.emit("  else do")
		t.emitLines(elseLines, 2)
		t.emit("    pure %s)", tail(elseEnv))
		t.rebind(ms, r)
	} else if len(ms) > 0 {
		r := t.fresh()
		t.emit("let %s := (if %s then", r, c)
		t.emitLines(thenLines, 2)
		t.emit("    %s", tail(thenEnv))
		t.emit("  else")
		t.emitLines(elseLines, 2)
		t.emit("    %s)", tail(elseEnv))
		t.rebind(ms, r)
	}
	rest()
}

// rangeStmt: `for _, x := range xs` over the variadic list; the body must be pure.
func (t *itr) rangeStmt(s *ast.RangeStmt, rest func()) {
	if s.Tok != token.DEFINE || identName(s.Key) != "_" || s.Value == nil {
		t.fail("range form")
		return
	}
	xs := identName(s.X)
	lv := t.env.vars[xs]
	if lv == nil || lv.kind != vList {
		t.fail("range over %s", exprString(s.X))
		return
	}
	x := identName(s.Value)
	if x == "" || t.env.vars[x] != nil {
		t.fail("range variable")
		return
	}
	bad := false
	ast.Inspect(s.Body, func(n ast.Node) bool {
		if b, ok := n.(*ast.BranchStmt); ok {
			t.fail("%s in a loop", b.Tok)
			bad = true
		}
		return true
	})
	if bad {
		return
	}
	// translate the body once, in pure mode, to find the locals it assigns and whether it returns
	t.nloops++
	name := fmt.Sprintf("%s_loop%d", t.fn, t.nloops)
	hasRet := containsReturn(s.Body)
	outer := t.env
	var ms []string
	probe := func(ms []string, emitRec bool) ([]string, *ienv) {
		saveM, saveW := t.monadic, t.retWrap
		t.monadic = false
		if hasRet {
			t.retWrap = func(v string) string { return "Sum.inl " + v }
		}
		ls, e := t.capture(func() {
			t.env.vars[x] = &ivar{cat: cInt, kind: vVal, assigned: true}
			t.stmts(s.Body.List, func() {
				if emitRec {
					app := name + " " + xs + "_rest"
					for _, m := range ms {
						app += " " + m
					}
					t.emit("%s", app)
				}
			})
		})
		t.monadic, t.retWrap = saveM, saveW
		return ls, e
	}
	// the locals of the enclosing function that the body assigns
	seen := map[string]bool{}
	ast.Inspect(s.Body, func(n ast.Node) bool {
		mark := func(e ast.Expr) {
			if st, ok := e.(*ast.StarExpr); ok {
				e = st.X
			}
			if id := identName(e); id != "" && outer.vars[id] != nil && !seen[id] {
				seen[id] = true
				ms = append(ms, id)
			}
		}
		switch n := n.(type) {
		case *ast.AssignStmt:
			if n.Tok != token.DEFINE {
				for _, l := range n.Lhs {
					mark(l)
				}
			}
		case *ast.IncDecStmt:
			mark(n.X)
		case *ast.CallExpr:
			// calls that write through pointers are not supported in loop bodies
			for _, a := range n.Args {
				if u, ok := a.(*ast.UnaryExpr); ok && u.Op == token.AND {
					t.fail("address taken in a loop body")
				}
			}
			if se, ok := n.Fun.(*ast.SelectorExpr); ok && isBigIntRecv(se) && bigMutators[se.Sel.Name] {
				t.fail("big-integer update in a loop body")
			}
		}
		return true
	})
	sort.Strings(ms)
	for _, m := range ms {
		if v := outer.vars[m]; v.kind != vVal || v.cat == cDec || v.cat == cBig {
			t.fail("loop assigns %s", m)
		}
	}
	body, _ := probe(ms, true)
	// free variables: the body may only use x, the assigned locals and constants (checked by Lean: the auxiliary
	// function has no other binders)
	var mt []string
	var binders []string
	for _, m := range ms {
		mt = append(mt, leanOf(outer.vars[m].cat))
		binders = append(binders, m)
	}
	mTuple := strings.Join(mt, " × ")
	if mTuple == "" {
		mTuple = "Unit"
	}
	resTy := mTuple
	endVal := tuple(binders)
	if hasRet {
		resTy = "Sum (" + t.sig.resultLean() + ") (" + mTuple + ")"
		endVal = "Sum.inr " + endVal
	}
	var sb strings.Builder
	fmt.Fprintf(&sb, "/-- the loop `for _, %s := range %s` of `%s` -/\n", x, xs, t.fn)
	fmt.Fprintf(&sb, "def %s : List Int", name)
	for _, ty := range mt {
		fmt.Fprintf(&sb, " → %s", ty)
	}
	fmt.Fprintf(&sb, " → %s\n", resTy)
	fmt.Fprintf(&sb, "  | []")
	for _, m := range binders {
		fmt.Fprintf(&sb, ", %s", m)
	}
	fmt.Fprintf(&sb, " => %s\n", endVal)
	fmt.Fprintf(&sb, "  | %s :: %s_rest", x, xs)
	for _, m := range binders {
		fmt.Fprintf(&sb, ", %s", m)
	}
	fmt.Fprintf(&sb, " =>\n")
	for _, l := range body {
		fmt.Fprintf(&sb, "    %s\n", l)
	}
	t.aux = append(t.aux, sb.String())
	// the call
	app := name + " " + xs
	for _, m := range ms {
		app += " " + m
	}
	if hasRet {
		rv, mv := t.fresh(), t.fresh()
		do := ""
		if t.monadic {
			do = " do"
		}
		t.emit("match %s with", app)
		t.emit("| Sum.inl %s =>%s", rv, do)
		t.emit("  %s", t.retWrap(rv))
		t.emit("| Sum.inr %s =>%s", mv, do)
		ls, _ := t.capture(func() {
			t.rebind(ms, mv)
			rest()
		})
		t.emitLines(ls, 1)
		return
	}
	if len(ms) > 0 {
		mv := t.fresh()
		t.emit("let %s := %s", mv, app)
		t.rebind(ms, mv)
	}
	rest()
}

// leanTyVar is the Lean type of the binding that currently holds a variable.
func leanTyVar(v *ivar) string {
	switch v.kind {
	case vCell:
		return "Cell"
	case vSrc:
		return "Src"
	case vOptSrc:
		if v.unwrapped {
			return "Src"
		}
		return "Option Src"
	case vOptCell:
		if v.unwrapped {
			return "Cell"
		}
		return "Option Cell"
	case vBPtr:
		return "BPtr"
	case vList:
		return "List Int"
	}
	return leanOf(v.cat)
}

// assignedNames: the identifiers a statement may assign (syntactically): `x = …`, `x op= …`, `x++`, `*p = …`,
// `x.F = …` and big-integer / Decimal methods writing their receiver, `&x` arguments.
func assignedNames(n ast.Node) map[string]bool {
	r := map[string]bool{}
	mark := func(e ast.Expr) {
		for {
			switch u := e.(type) {
			case *ast.StarExpr:
				e = u.X
				continue
			case *ast.ParenExpr:
				e = u.X
				continue
			case *ast.SelectorExpr:
				e = u.X
				continue
			case *ast.UnaryExpr:
				if u.Op == token.AND {
					e = u.X
					continue
				}
			}
			break
		}
		if id := identName(e); id != "" {
			r[id] = true
		}
	}
	ast.Inspect(n, func(m ast.Node) bool {
		switch m := m.(type) {
		case *ast.AssignStmt:
			if m.Tok != token.DEFINE {
				for _, l := range m.Lhs {
					mark(l)
				}
			}
		case *ast.IncDecStmt:
			mark(m.X)
		case *ast.CallExpr:
			if se, ok := m.Fun.(*ast.SelectorExpr); ok {
				// a method may write its receiver
				if tv, ok := info.Types[se.X]; ok {
					switch classify(tv.Type) {
					case cBig, cBigPtr, cDec, cED, cEDPtr:
						mark(se.X)
					}
				}
			}
			for _, a := range m.Args {
				if u, ok := a.(*ast.UnaryExpr); ok && u.Op == token.AND {
					mark(u.X)
				}
			}
		}
		return true
	})
	return r
}

// forStmt: `for cond { … }` / `for { … break … }` as a function recursive on fuel.  The enclosing function takes
// `fuel : Nat`; running out of fuel yields `goPanic` (the tie theorems are stated for fuel above an explicit bound).
func (t *itr) forStmt(s *ast.ForStmt, rest func()) {
	if s.Init != nil {
		// the initialiser runs once, before the loop; its variables stay visible (checked not to shadow anything)
		init := s.Init
		s = &ast.ForStmt{For: s.For, Cond: s.Cond, Post: s.Post, Body: s.Body}
		t.simple(init)
	}
	if s.Post != nil {
		// the post statement runs after every iteration that reaches the end of the body (no `continue` is allowed)
		body := &ast.BlockStmt{List: append(append([]ast.Stmt{}, s.Body.List...), s.Post)}
		s = &ast.ForStmt{For: s.For, Cond: s.Cond, Body: body}
	}
	if !t.sig.fuel {
		t.fail("loop in a function without fuel")
		return
	}
	bad := false
	ast.Inspect(s.Body, func(n ast.Node) bool {
		if b, ok := n.(*ast.BranchStmt); ok && (b.Tok != token.BREAK || b.Label != nil) {
			t.fail("%s in a loop", b.Tok)
			bad = true
		}
		return true
	})
	if bad {
		return
	}
	outer := t.env
	// variables of the enclosing function used / assigned by the loop
	used := map[string]bool{}
	scan := func(n ast.Node) {
		if n == nil {
			return
		}
		ast.Inspect(n, func(m ast.Node) bool {
			if id, ok := m.(*ast.Ident); ok && outer.vars[id.Name] != nil {
				used[id.Name] = true
			}
			return true
		})
	}
	if s.Cond != nil {
		scan(s.Cond)
	}
	scan(s.Body)
	asg := assignedNames(s.Body)
	var ms, free []string
	for n := range used {
		if n == "fuel" {
			continue
		}
		switch v := outer.vars[n]; {
		case !asg[n]:
			free = append(free, n)
		case v.kind == vVal:
			ms = append(ms, n)
		case v.kind == vPlainCtx && v.scratch:
			ms = append(ms, n) // a local copy of a context
		case v.kind == vCell || (v.kind == vOptCell && v.unwrapped):
			free = append(free, n) // written through: a heap effect, not an assignment of the variable
		default:
			t.fail("loop assigns %s", n)
			return
		}
	}
	// the sign flags of the big integers the loop uses travel with them
	inMs := map[string]bool{}
	for _, m := range ms {
		inMs[m] = true
	}
	for pl, sg := range outer.sign {
		if !strings.HasPrefix(pl, "local:") {
			t.fail("loop while the sign of %s is tracked", pl)
			return
		}
		owner := strings.TrimPrefix(pl, "local:")
		if !used[owner] {
			continue
		}
		if inMs[owner] {
			ms = append(ms, sg)
		} else {
			free = append(free, sg)
		}
	}
	sort.Strings(ms)
	sort.Strings(free)
	hasRet := hasReturnStmt(s.Body)
	t.nloops++
	name := fmt.Sprintf("%s_loop%d", t.fn, t.nloops)
	var mt []string
	for _, m := range ms {
		mt = append(mt, leanTyVar(outer.vars[m]))
	}
	mTuple := strings.Join(mt, " × ")
	if mTuple == "" {
		mTuple = "Unit"
	}
	resTy := mTuple
	exitVal := func() string {
		v := tuple(ms)
		if hasRet {
			v = "Sum.inr " + v
		}
		return v
	}
	if hasRet {
		resTy = "Sum (" + t.sig.resultLean() + ") (" + mTuple + ")"
	}
	wrap := func(v string) string {
		if t.monadic {
			return "pure (" + v + ")"
		}
		return v
	}
	recCall := name
	for _, f := range free {
		recCall += " " + f
	}
	recCall += " fuel"
	for _, m := range ms {
		recCall += " " + m
	}
	t.inAux++
	body, endEnv := t.capture(func() {
		saveBreak, saveWrap := t.loopBreak, t.retWrap
		t.loopBreak = func() { t.emit("%s", wrap(exitVal())) }
		if hasRet {
			t.retWrap = func(v string) string { return wrap("Sum.inl " + v) }
		}
		again := func() { t.emit("%s", recCall) }
		if s.Cond != nil {
			c, _ := t.expr(s.Cond)
			do := ""
			if t.monadic {
				do = " do"
			}
			thenLines, _ := t.capture(func() { t.stmts(s.Body.List, again) })
			t.emit("if %s then%s", c, do)
			t.emitLines(thenLines, 1)
			t.emit("else")
			t.emit("  %s", wrap(exitVal()))
		} else {
			t.stmts(s.Body.List, again)
		}
		t.loopBreak, t.retWrap = saveBreak, saveWrap
	})
	t.inAux--
	for pl := range endEnv.sign {
		if _, ok := outer.sign[pl]; !ok {
			t.fail("the loop starts tracking the sign of %s", pl)
		}
	}
	var sb strings.Builder
	fmt.Fprintf(&sb, "/-- a `for` loop of `%s`, on fuel -/\n", t.fn)
	fmt.Fprintf(&sb, "def %s", name)
	for _, f := range free {
		fmt.Fprintf(&sb, " (%s : %s)", f, leanTyVar(outer.vars[f]))
	}
	fmt.Fprintf(&sb, " : Nat")
	for _, ty := range mt {
		fmt.Fprintf(&sb, " → %s", ty)
	}
	if t.monadic {
		if strings.Contains(resTy, " ") {
			fmt.Fprintf(&sb, " → Prog (%s)\n", resTy)
		} else {
			fmt.Fprintf(&sb, " → Prog %s\n", resTy)
		}
	} else {
		fmt.Fprintf(&sb, " → %s\n", resTy)
	}
	pat := func(f string) string {
		p := "  | " + f
		for _, m := range ms {
			p += ", " + m
		}
		return p
	}
	outOfFuel := "goPanic"
	if hasRet {
		outOfFuel = "Sum.inr goPanic"
	}
	fmt.Fprintf(&sb, "%s => %s\n", pat("0"), wrap(outOfFuel))
	if t.monadic {
		fmt.Fprintf(&sb, "%s => do\n", pat("fuel + 1"))
	} else {
		fmt.Fprintf(&sb, "%s =>\n", pat("fuel + 1"))
	}
	for _, l := range body {
		fmt.Fprintf(&sb, "    %s\n", l)
	}
	t.aux = append(t.aux, sb.String())
	// the call
	call := name
	for _, f := range free {
		call += " " + f
	}
	call += " fuel"
	for _, m := range ms {
		call += " " + m
	}
	var r string
	if t.monadic {
		r = t.bind(call)
	} else {
		r = t.fresh()
		t.emit("let %s := %s", r, call)
	}
	if hasRet {
		rv, mv := t.fresh(), t.fresh()
		do := ""
		if t.monadic {
			do = " do"
		}
		t.emit("match %s with", r)
		t.emit("| Sum.inl %s =>%s", rv, do)
		t.emit("  %s", t.retWrap(rv))
		t.emit("| Sum.inr %s =>%s", mv, do)
		ls, _ := t.capture(func() {
			t.rebind(ms, mv)
			rest()
		})
		t.emitLines(ls, 1)
		return
	}
	t.rebind(ms, r)
	t.splitRest(rest)
}

var identRe = regexp.MustCompile(`[A-Za-z_][A-Za-z0-9_']*`)

// splitRest: what follows a loop becomes an auxiliary definition over the variables it uses (group imptrans only:
// the composite functions are long, and the tie theorems are proved part by part).  Only at the top level of the
// function body, where "what follows" returns the function's result.
func (t *itr) splitRest(rest func()) {
	if !splitAfterLoops || t.loopBreak != nil || !t.monadic || t.inAux > 0 {
		rest()
		return
	}
	lines, _ := t.capture(rest)
	text := strings.Join(lines, "\n")
	toks := map[string]bool{}
	for _, tk := range identRe.FindAllString(text, -1) {
		toks[tk] = true
	}
	var free []string
	for n, v := range t.env.vars {
		if !toks[n] {
			continue
		}
		if (v.kind == vSrc || v.kind == vBPtr) && !v.assigned {
			continue
		}
		free = append(free, n)
	}
	sort.Strings(free)
	t.nparts++
	name := fmt.Sprintf("%s_k%d", t.fn, t.nparts)
	ty := t.sig.resultLean()
	if strings.Contains(ty, "×") {
		ty = "(" + ty + ")"
	}
	var sb strings.Builder
	fmt.Fprintf(&sb, "/-- `%s`, continued after a loop -/\n", t.fn)
	fmt.Fprintf(&sb, "def %s", name)
	call := name
	for _, f := range free {
		fmt.Fprintf(&sb, " (%s : %s)", f, leanTyVar(t.env.vars[f]))
		call += " " + f
	}
	fmt.Fprintf(&sb, " : Prog %s := do\n", ty)
	for _, l := range lines {
		fmt.Fprintf(&sb, "  %s\n", l)
	}
	t.aux = append(t.aux, sb.String())
	t.emit("%s", call)
}
