package main

import (
	"fmt"
	"go/ast"
	"go/constant"
	"go/token"
	"sort"
	"strings"
)

var decVarsNeeded = map[string]bool{}

func needDecVar(name string) { decVarsNeeded[name] = true }

// decVarDef translates the initialiser of a package-level *Decimal variable: `&Decimal{Form: F, …}` or
// `New(coeff, exponent)` with constant arguments (what SetFinite makes of them).
func decVarDef(name string) string {
	for id, o := range info.Defs {
		if id.Name != name || o == nil || o.Parent() != pkg.Scope() {
			continue
		}
		vs, ok := findValueSpec(id)
		if !ok {
			break
		}
		for i, n := range vs.Names {
			if n != id || i >= len(vs.Values) {
				continue
			}
			switch v := vs.Values[i].(type) {
			case *ast.UnaryExpr:
				cl, ok := v.X.(*ast.CompositeLit)
				if v.Op != token.AND || !ok || identName(cl.Type) != "Decimal" {
					break
				}
				var fs []string
				for _, el := range cl.Elts {
					kv, ok := el.(*ast.KeyValueExpr)
					if !ok {
						return fail("package variable %s: positional composite literal", name)
					}
					tv := info.Types[kv.Value]
					if tv.Value == nil {
						return fail("package variable %s: non-constant field", name)
					}
					switch identName(kv.Key) {
					case "Form":
						fs = append(fs, "form := "+formLit(tv.Value, name))
					case "Negative":
						fs = append(fs, fmt.Sprintf("neg := %v", constant.BoolVal(tv.Value)))
					case "Exponent":
						fs = append(fs, "exp := "+tv.Value.ExactString())
					default:
						return fail("package variable %s: field %s", name, identName(kv.Key))
					}
				}
				return "{ " + strings.Join(fs, ", ") + " }"
			case *ast.CallExpr:
				if identName(v.Fun) == "New" && len(v.Args) == 2 {
					c, e := info.Types[v.Args[0]].Value, info.Types[v.Args[1]].Value
					if c == nil || e == nil {
						break
					}
					neg := constant.Sign(c) < 0
					abs := c
					if neg {
						abs = constant.UnaryOp(token.SUB, c, 0)
					}
					return fmt.Sprintf("{ form := %s, neg := %v, exp := %s, coeff := %s }", formLit(constVal("Finite"), name), neg, e.ExactString(), abs.ExactString())
				}
			}
		}
	}
	return fail("package variable %s: unsupported initialiser", name)
}

// newDecLit: `New(coeff, exponent)` with constant arguments as a Dec literal (what SetFinite makes of them)
func newDecLit(v *ast.CallExpr, who string) (string, bool) {
	c, e := info.Types[v.Args[0]].Value, info.Types[v.Args[1]].Value
	if c == nil || e == nil {
		return "", false
	}
	neg := constant.Sign(c) < 0
	abs := c
	if neg {
		abs = constant.UnaryOp(token.SUB, c, 0)
	}
	return fmt.Sprintf("({ form := %s, neg := %v, exp := %s, coeff := %s } : Dec)", formLit(constVal("Finite"), who), neg, e.ExactString(), abs.ExactString()), true
}

func goSourceOf(fd *ast.FuncDecl) string {
	p := fset.Position(fd.Pos())
	f := p.Filename
	if i := strings.LastIndex(f, "/"); i >= 0 {
		f = f[i+1:]
	}
	recv := ""
	if fd.Recv != nil && len(fd.Recv.List) == 1 {
		recv = "(" + exprStringType(fd.Recv.List[0].Type) + ") "
	}
	return fmt.Sprintf("%s: func %s%s", f, recv, fd.Name.Name)
}

func exprStringType(e ast.Expr) string {
	switch e := e.(type) {
	case *ast.StarExpr:
		return "*" + exprStringType(e.X)
	case *ast.Ident:
		return e.Name
	}
	return "?"
}

func transImp(sig *isig) string {
	t := &itr{sig: sig, fn: sig.key, env: newEnv(), monadic: sig.monadic}
	if sig.monadic {
		t.retWrap = func(v string) string { return "pure " + v }
	} else {
		t.retWrap = func(v string) string { return v }
	}
	var ps []string
	if sig.fuel {
		ps = append(ps, "(fuel : Nat)")
		t.env.vars["fuel"] = &ivar{cat: cNat, kind: vVal, assigned: true}
	}
	for i, p := range sig.params {
		if p.name == "fuel" && sig.fuel {
			t.fail("parameter named fuel")
		}
		v := &ivar{cat: p.cat, assigned: true}
		switch p.kind {
		case pCell:
			v.kind = vCell
		case pSrc:
			v.kind = vSrc
		case pOptSrc:
			v.kind = vOptSrc
		case pOptCell:
			v.kind = vOptCell
		case pDecIO, pDecIn:
			v.kind, v.cat, v.addrParam = vVal, cDec, true
			v.readOnly = p.kind == pDecIn
		case pEDIO:
			v.kind, v.cat = vVal, cED
			if p.cat == cLoopPtr {
				v.cat = cLoop
			}
		case pBigIO:
			v.kind, v.cat = vVal, cBig
		case pIntIO:
			v.kind, v.cat = vVal, cInt
		case pBPtr:
			v.kind, v.scratch = vBPtr, true
		default:
			switch p.cat {
			case cCtx, cMode:
				v.kind = vPlainCtx
			case cIntList:
				v.kind = vList
			default:
				v.kind = vVal
			}
		}
		if sig.variadic && i == len(sig.params)-1 && p.cat != cIntList {
			t.fail("variadic parameter of type other than ...int64")
		}
		if tmpNameRe.MatchString(p.name) {
			t.fail("parameter name %s clashes with generated names", p.name)
		}
		t.env.vars[p.name] = v
		ps = append(ps, fmt.Sprintf("(%s : %s)", p.name, p.lean()))
	}
	var body []string
	t.cur = &body
	for _, p := range sig.params {
		if p.kind == pBigIn {
			// a signed big integer: magnitude and sign flag
			t.env.vars[p.name] = &ivar{cat: cInt, kind: vVal, assigned: true}
			t.defineSign("local:"+p.name, "(decide ("+p.name+" < 0))")
			t.define(p.name, cBig, vVal, "(Int.natAbs "+p.name+")")
		}
	}
	t.stmts(sig.fd.Body.List, func() {
		if sig.nres() == 0 || (sig.retRecv && false) {
			t.emit("%s", t.retWrap("()"))
			return
		}
		if len(sig.results) == 0 {
			// only in/out parameters: their final values
			var vs []string
			for _, i := range sig.outs {
				vs = append(vs, sig.params[i].name)
			}
			t.emit("%s", t.retWrap(tuple(vs)))
			return
		}
		t.fail("control reaches the end without return")
	})
	var sb strings.Builder
	for _, a := range t.aux {
		sb.WriteString(a)
		sb.WriteString("\n")
	}
	ty := sig.resultLean()
	if sig.monadic {
		if strings.Contains(ty, "×") {
			ty = "(" + ty + ")"
		}
		ty = "Prog " + ty
	}
	doc := goSourceOf(sig.fd)
	if strings.Contains(sig.key, "_loc") {
		var ls []string
		for _, p := range sig.params {
			if p.kind == pDecIO {
				ls = append(ls, p.name)
			}
		}
		doc += " — variant in which " + strings.Join(ls, ", ") + " is the address of a local Decimal of the caller (passed in and returned by value)"
	}
	fmt.Fprintf(&sb, "/-- %s -/\n", doc)
	hdr := "def " + sig.key
	if len(ps) > 0 {
		hdr += " " + strings.Join(ps, " ")
	}
	if sig.monadic {
		fmt.Fprintf(&sb, "%s : %s := do\n", hdr, ty)
	} else {
		fmt.Fprintf(&sb, "%s : %s :=\n", hdr, ty)
	}
	for _, l := range body {
		fmt.Fprintf(&sb, "  %s\n", l)
	}
	return sb.String()
}

func genImp() string {
	return genImpGroup(impList, "import ApdVerif.Gen.ImpPrelude\n", "imp")
}

// genImpTrans: the composite functions (Sqrt, Cbrt, Pow, …), in a second file that imports the first
func genImpTrans() string {
	splitAfterLoops = true
	defer func() { splitAfterLoops = false }()
	return genImpGroup(impTransList, "import ApdVerif.Gen.Imp\nimport ApdVerif.Gen.ImpTransPrelude\n", "imptrans")
}

var decVarsEmitted = map[string]bool{}

// splitAfterLoops: emit what follows a loop as an auxiliary definition (group imptrans)
var splitAfterLoops bool

func genImpGroup(list []string, imports, group string) string {
	impDefs = nil
	for _, k := range list {
		fd := funcs[k]
		if fd == nil {
			fail("imp: function %s not found", k)
			continue
		}
		n := len(errs)
		sig := buildSig(k, fd)
		if len(errs) > n {
			continue
		}
		impSigs[k] = sig
		d := transImp(sig)
		if len(errs) > n {
			delete(impSigs, k)
			continue
		}
		impDefs = append(impDefs, d)
	}
	defs := impDefs
	var b strings.Builder
	b.WriteString(imports)
	b.WriteString("/-! GENERATED by harness/cmd/xlate (group " + group + ") from the Go source of cockroachdb/apd — do not edit.\n")
	b.WriteString("Store-level programs, translated statement by statement with the order of evaluation preserved\n")
	b.WriteString("(scheme: harness/cmd/xlate/imp.go; hand-written names used: Gen/ImpPrelude.lean). -/\n")
	b.WriteString("set_option linter.unusedVariables false\n")
	b.WriteString("namespace Apd.Gen.ImpG\nopen Apd Apd.Imp\n\n")
	var dv []string
	for n := range decVarsNeeded {
		if !decVarsEmitted[n] {
			dv = append(dv, n)
		}
	}
	sort.Strings(dv)
	for _, n := range dv {
		decVarsEmitted[n] = true
		fmt.Fprintf(&b, "/-- package variable `%s` -/\ndef %s : Dec := %s\n\n", n, n, decVarDef(n))
	}
	for _, d := range defs {
		b.WriteString(d)
		b.WriteString("\n")
	}
	b.WriteString("end Apd.Gen.ImpG\n")
	return b.String()
}
