// Command xlate re-extracts, from the current source of cockroachdb/apd, the package constants and a
// whitelisted set of side-effect-free leaf functions, and writes them as Lean definitions
// (ApdVerif/Gen/Consts.lean, ApdVerif/Gen/Leaf.lean). The Lean theorems in Props/GenTie.lean are
// then re-checked against what the code says now. A function that leaves the supported subset
// makes the translator fail (exit 1) naming it.
//
// A second group (imp.go, imp_*.go; flag -imp, on by default) translates the core methods of Decimal and Context
// into store-level programs over Decimal cells (ApdVerif/Gen/Imp.lean); Props/GenTieImp.lean proves each of them
// equal, on every heap and for every aliasing of the pointers, to the hand-written program of Imp/Ops.lean.
package main

import (
	"bytes"
	"crypto/sha256"
	"encoding/hex"
	"encoding/json"
	"flag"
	"fmt"
	"go/ast"
	"go/constant"
	"go/importer"
	"go/parser"
	"go/printer"
	"go/token"
	"go/types"
	"os"
	"path/filepath"
	"sort"
	"strings"
)

var (
	fset  = token.NewFileSet()
	info  *types.Info
	pkg   *types.Package
	funcs = map[string]*ast.FuncDecl{}
	errs  []string
)

func fail(format string, a ...interface{}) string {
	m := fmt.Sprintf(format, a...)
	errs = append(errs, m)
	return "sorryUnsupported"
}

func main() {
	repo := flag.String("repo", "/repo", "repository root")
	out := flag.String("out", ".", "output directory")
	impOn := flag.Bool("imp", true, "also emit the store-level programs (Imp.lean)")
	fpOut := flag.String("fingerprints", "", "also write a structural fingerprint of every top-level declaration to this JSON file")
	flag.Parse()
	matches, _ := filepath.Glob(filepath.Join(*repo, "*.go"))
	sort.Strings(matches)
	var files []*ast.File
	for _, m := range matches {
		if strings.HasSuffix(m, "_test.go") {
			continue
		}
		f, err := parser.ParseFile(fset, m, nil, parser.SkipObjectResolution|parser.ParseComments)
		if err != nil {
			fmt.Println("parse:", err)
			os.Exit(1)
		}
		// honour build constraints crudely: skip files with a verif tag (hooks)
		skip := false
		for _, cg := range f.Comments {
			for _, c := range cg.List {
				if strings.HasPrefix(c.Text, "//go:build") && strings.Contains(c.Text, "verif") && !strings.Contains(c.Text, "!verif") {
					skip = true
				}
			}
		}
		if skip {
			continue
		}
		files = append(files, f)
	}
	parsedFiles = files
	info = &types.Info{Types: map[ast.Expr]types.TypeAndValue{}, Defs: map[*ast.Ident]types.Object{}, Uses: map[*ast.Ident]types.Object{}, Selections: map[*ast.SelectorExpr]*types.Selection{}}
	conf := types.Config{Importer: importer.ForCompiler(fset, "source", nil), Error: func(err error) {}}
	var err error
	pkg, err = conf.Check("github.com/cockroachdb/apd/v3", fset, files, info)
	if pkg == nil {
		fmt.Println("typecheck:", err)
		os.Exit(1)
	}
	for _, f := range files {
		for _, d := range f.Decls {
			if fd, ok := d.(*ast.FuncDecl); ok {
				funcs[funcKey(fd)] = fd
			}
		}
	}
	if *fpOut != "" {
		writeFingerprints(*fpOut, files)
	}
	os.MkdirAll(*out, 0o755)
	writeFile(filepath.Join(*out, "Consts.lean"), genConsts())
	for _, g := range leafGroups {
		writeFile(filepath.Join(*out, g.file+".lean"), genLeaf(g))
	}
	if *impOn {
		writeFile(filepath.Join(*out, "Imp.lean"), genImp())
		writeFile(filepath.Join(*out, "ImpTrans.lean"), genImpTrans())
	}
	if len(errs) > 0 {
		for _, e := range errs {
			fmt.Println("xlate: unsupported:", e)
		}
		os.Exit(1)
	}
}

// writeFingerprints records, for every top-level declaration of the non-test, non-hook source, a hash of its
// syntax tree printed without comments: the hand-written Lean model was validated against exactly this text of
// each function; a declaration that changes (or appears, or disappears) is reported by the checks of the
// properties it bears on, which then widen their search (tools/fingerprints.py holds the map and the expectations).
func writeFingerprints(path string, files []*ast.File) {
	fp := map[string]string{}
	hash := func(n ast.Node) string {
		var buf bytes.Buffer
		// a node printed on its own carries no comments (they belong to the *ast.File)
		if err := (&printer.Config{Mode: printer.RawFormat, Tabwidth: 1}).Fprint(&buf, token.NewFileSet(), n); err != nil {
			return "unprintable:" + err.Error()
		}
		h := sha256.Sum256(buf.Bytes())
		return hex.EncodeToString(h[:8])
	}
	for _, f := range files {
		for _, d := range f.Decls {
			switch d := d.(type) {
			case *ast.FuncDecl:
				c := *d
				c.Doc = nil
				k := funcKey(d)
				for i := 2; fp[k] != ""; i++ { // several func init()
					k = fmt.Sprintf("%s#%d", funcKey(d), i)
				}
				fp[k] = hash(&c)
			case *ast.GenDecl:
				for _, sp := range d.Specs {
					switch sp := sp.(type) {
					case *ast.ValueSpec:
						c := *sp
						c.Doc, c.Comment = nil, nil
						for _, n := range sp.Names {
							if n.Name != "_" {
								fp[strings.ToLower(d.Tok.String())+":"+n.Name] = hash(&c)
							}
						}
					case *ast.TypeSpec:
						c := *sp
						c.Doc, c.Comment = nil, nil
						fp["type:"+sp.Name.Name] = hash(&c)
					}
				}
			}
		}
	}
	b, _ := json.MarshalIndent(fp, "", " ")
	writeFile(path, string(b)+"\n")
}

func writeFile(p, s string) {
	if err := os.WriteFile(p, []byte(s), 0o644); err != nil {
		fmt.Println(err)
		os.Exit(1)
	}
}

func funcKey(fd *ast.FuncDecl) string {
	if fd.Recv != nil && len(fd.Recv.List) == 1 {
		t := fd.Recv.List[0].Type
		if s, ok := t.(*ast.StarExpr); ok {
			t = s.X
		}
		if id, ok := t.(*ast.Ident); ok {
			return id.Name + "_" + fd.Name.Name
		}
	}
	return fd.Name.Name
}

// ---------- constants ----------

func constVal(name string) constant.Value {
	o := pkg.Scope().Lookup(name)
	if c, ok := o.(*types.Const); ok {
		return c.Val()
	}
	fail("constant %s not found", name)
	return constant.MakeInt64(0)
}

func localConst(fn, name string) constant.Value {
	for id, o := range info.Defs {
		if id.Name != name || o == nil {
			continue
		}
		if c, ok := o.(*types.Const); ok && o.Parent() != pkg.Scope() {
			if fd := funcs[fn]; fd != nil && id.Pos() >= fd.Pos() && id.Pos() <= fd.End() {
				return c.Val()
			}
		}
	}
	fail("local constant %s.%s not found", fn, name)
	return constant.MakeInt64(0)
}

var condNames = []string{"SystemOverflow", "SystemUnderflow", "Overflow", "Underflow", "Inexact", "Subnormal",
	"Rounded", "DivisionUndefined", "DivisionByZero", "DivisionImpossible", "InvalidOperation", "Clamped"}
var formNames = []string{"Finite", "Infinite", "NaNSignaling", "NaN"}
var rounderNames = []string{"RoundDown", "RoundHalfUp", "RoundHalfEven", "RoundCeiling", "RoundFloor", "RoundHalfDown", "RoundUp", "Round05Up"}

func genConsts() string {
	var b strings.Builder
	b.WriteString("/-! GENERATED by harness/cmd/xlate from the Go source of cockroachdb/apd — do not edit. -/\nnamespace Apd.Gen\n\n")
	for _, n := range []string{"MaxExponent", "MinExponent", "lowestZeroNegativeCoefficientCockroach", "unknownNumDigits"} {
		fmt.Fprintf(&b, "def %s : Int := %s\n", n, constVal(n).ExactString())
	}
	for _, n := range []string{"digitsTableSize", "powerTenTableSize", "inlineWords", "DefaultTraps"} {
		fmt.Fprintf(&b, "def %s : Nat := %s\n", n, constVal(n).ExactString())
	}
	fmt.Fprintf(&b, "def adjExponentLimit : Int := %s\n", localConst("Decimal_Append", "adjExponentLimit").ExactString())
	fmt.Fprintf(&b, "def systemErrors : Nat := %s\n", localConst("Condition_GoError", "systemErrors").ExactString())
	for _, n := range condNames {
		fmt.Fprintf(&b, "def %s : Nat := %s\n", n, constVal(n).ExactString())
	}
	b.WriteString("def condBits : List (String × Nat) := [")
	for i, n := range condNames {
		if i > 0 {
			b.WriteString(", ")
		}
		fmt.Fprintf(&b, "(%q, %s)", n, constVal(n).ExactString())
	}
	b.WriteString("]\n")
	b.WriteString("def formOrder : List (String × Int) := [")
	for i, n := range formNames {
		if i > 0 {
			b.WriteString(", ")
		}
		fmt.Fprintf(&b, "(%q, %s)", n, constVal(n).ExactString())
	}
	b.WriteString("]\n")
	for _, n := range rounderNames {
		fmt.Fprintf(&b, "def %s : String := %s\n", n, constVal(n).ExactString())
	}
	// small big-integer package variables: bigOne = NewBigInt(1) ...
	for _, n := range []string{"bigOne", "bigTwo", "bigFive", "bigTen"} {
		fmt.Fprintf(&b, "def %s : Nat := %s\n", n, bigVar(n))
	}
	// the digit strings of ln(10) and 1/ln(10) (C12 compares them with an independent evaluation)
	for _, n := range []string{"strLn10", "strInvLn10"} {
		s := constant.StringVal(constVal(n))
		fmt.Fprintf(&b, "def %sLen : Nat := %d\ndef %sPrefix : String := %q\n", n, len(s), n, s[:40])
		// the full constant as coefficient and exponent (what Decimal.SetString makes of it)
		dot := strings.Index(s, ".")
		digits := strings.TrimLeft(s[:dot]+s[dot+1:], "0")
		fmt.Fprintf(&b, "def %sCoeff : Nat := %s\ndef %sExp : Int := %d\n", n, digits, n, -(len(s) - dot - 1))
	}
	b.WriteString("\nend Apd.Gen\n")
	return b.String()
}

// bigVar finds `name = NewBigInt(k)` among the package-level variable declarations.
func bigVar(name string) string {
	for id, o := range info.Defs {
		if id.Name == name && o != nil && o.Parent() == pkg.Scope() {
			if vs, ok := findValueSpec(id); ok {
				for i, n := range vs.Names {
					if n == id && i < len(vs.Values) {
						if call, ok := vs.Values[i].(*ast.CallExpr); ok {
							if f, ok := call.Fun.(*ast.Ident); ok && f.Name == "NewBigInt" && len(call.Args) == 1 {
								if tv, ok := info.Types[call.Args[0]]; ok && tv.Value != nil {
									return tv.Value.ExactString()
								}
							}
						}
					}
				}
			}
		}
	}
	return fail("package variable %s is not NewBigInt(const)", name)
}

func findValueSpec(id *ast.Ident) (*ast.ValueSpec, bool) {
	var res *ast.ValueSpec
	for _, fd := range parsedFiles {
		ast.Inspect(fd, func(n ast.Node) bool {
			if vs, ok := n.(*ast.ValueSpec); ok {
				for _, nm := range vs.Names {
					if nm == id {
						res = vs
					}
				}
			}
			return res == nil
		})
	}
	return res, res != nil
}

var parsedFiles []*ast.File

// ---------- leaf functions ----------

type leafGroup struct {
	file  string
	funcs []string
}

var leafGroups = []leafGroup{
	{"Round", []string{"roundDown", "roundUp", "round05Up", "roundHalfUp", "roundHalfEven", "roundHalfDown", "roundFloor", "roundCeiling", "Rounder_ShouldAddOne"}},
	{"Cond", []string{"Condition_Overflow", "Condition_SystemOverflow", "Condition_negateOverflowFlags", "Condition_GoError"}},
	{"Misc", []string{"Decimal_cmpOrder", "Context_etiny"}},
	{"Inline", []string{"addInline", "mulInline", "quoInline", "remInline"}},
}

func genLeaf(g leafGroup) string {
	var b strings.Builder
	b.WriteString("import ApdVerif.Gen.Consts\nimport ApdVerif.Gen.Prelude\n")
	b.WriteString("/-! GENERATED by harness/cmd/xlate from the Go source of cockroachdb/apd — do not edit.\n")
	b.WriteString("Leaf decision functions, translated statement by statement (see harness/cmd/xlate). -/\nnamespace Apd.Gen\n\n")
	for _, k := range g.funcs {
		fd := funcs[k]
		if fd == nil {
			fail("function %s not found", k)
			fmt.Fprintf(&b, "def %s : sorryUnsupported := sorryUnsupported\n", k)
			continue
		}
		b.WriteString(transFunc(k, fd))
		b.WriteString("\n")
	}
	b.WriteString("end Apd.Gen\n")
	return b.String()
}

// leanType maps a Go type to the Lean type used for it.
func leanType(t types.Type) string {
	switch u := t.(type) {
	case *types.Pointer:
		if n, ok := u.Elem().(*types.Named); ok && n.Obj().Name() == "BigInt" {
			return "Nat" // magnitude of a non-negative big integer
		}
	case *types.Named:
		switch u.Obj().Name() {
		case "BigInt":
			return "Nat"
		case "Condition":
			return "Nat"
		case "Rounder":
			return "String"
		case "Form":
			return "Int"
		case "error":
			return "Nat"
		}
		return leanType(u.Underlying())
	case *types.Basic:
		switch u.Kind() {
		case types.Bool, types.UntypedBool:
			return "Bool"
		case types.Int, types.Int8, types.Int16, types.Int32, types.Int64, types.UntypedInt:
			return "Int"
		case types.Uint, types.Uint8, types.Uint16, types.Uint32, types.Uint64:
			return "Nat"
		case types.String:
			return "String"
		}
	}
	return fail("type %s", t.String())
}

func isUint64(t types.Type) bool {
	if b, ok := t.Underlying().(*types.Basic); ok {
		return b.Kind() == types.Uint64
	}
	return false
}
func isCondition(t types.Type) bool {
	if n, ok := t.(*types.Named); ok {
		return n.Obj().Name() == "Condition"
	}
	return false
}
func isUnsigned(t types.Type) bool {
	if b, ok := t.Underlying().(*types.Basic); ok {
		return b.Info()&types.IsUnsigned != 0
	}
	return false
}
func isBigIntPtr(t types.Type) bool {
	if p, ok := t.(*types.Pointer); ok {
		if n, ok := p.Elem().(*types.Named); ok {
			return n.Obj().Name() == "BigInt"
		}
	}
	return false
}

type tr struct {
	fn      string
	recv    string            // receiver name
	fields  map[string]string // receiver field -> parameter name (struct receivers)
	results int
}

func transFunc(key string, fd *ast.FuncDecl) string {
	t := &tr{fn: key, fields: map[string]string{}}
	var params []string
	if fd.Recv != nil {
		r := fd.Recv.List[0]
		rt := info.Types[r.Type].Type
		rn := "_"
		if len(r.Names) == 1 {
			rn = r.Names[0].Name
		}
		t.recv = rn
		if p, ok := rt.(*types.Pointer); ok {
			rt = p.Elem()
		}
		if st, ok := rt.Underlying().(*types.Struct); ok {
			// pass the fields that the body reads as separate parameters
			used := map[string]bool{}
			ast.Inspect(fd.Body, func(n ast.Node) bool {
				if se, ok := n.(*ast.SelectorExpr); ok {
					if id, ok := se.X.(*ast.Ident); ok && id.Name == rn {
						used[se.Sel.Name] = true
					}
				}
				return true
			})
			for i := 0; i < st.NumFields(); i++ {
				f := st.Field(i)
				if used[f.Name()] {
					pn := rn + "_" + f.Name()
					t.fields[f.Name()] = pn
					params = append(params, fmt.Sprintf("(%s : %s)", pn, leanType(f.Type())))
				}
			}
		} else {
			params = append(params, fmt.Sprintf("(%s : %s)", rn, leanType(rt)))
		}
	}
	for _, p := range fd.Type.Params.List {
		pt := info.Types[p.Type].Type
		for _, n := range p.Names {
			params = append(params, fmt.Sprintf("(%s : %s)", n.Name, leanType(pt)))
		}
	}
	var rts []string
	if fd.Type.Results != nil {
		for _, r := range fd.Type.Results.List {
			rt := leanType(info.Types[r.Type].Type)
			k := len(r.Names)
			if k == 0 {
				k = 1
			}
			for i := 0; i < k; i++ {
				rts = append(rts, rt)
			}
		}
	}
	t.results = len(rts)
	body := t.stmts(fd.Body.List, 1)
	return fmt.Sprintf("def %s %s : %s :=\n%s\n", key, strings.Join(params, " "), strings.Join(rts, " × "), body)
}

func ind(n int) string { return strings.Repeat("  ", n) }

// stmts translates a statement list (with the statements that follow) into one Lean expression.
func (t *tr) stmts(list []ast.Stmt, d int) string {
	if len(list) == 0 {
		return ind(d) + fail("%s: control reaches the end without return", t.fn)
	}
	s, rest := list[0], list[1:]
	switch s := s.(type) {
	case *ast.ReturnStmt:
		var es []string
		for _, e := range s.Results {
			es = append(es, t.expr(e))
		}
		if len(es) == 1 {
			return ind(d) + es[0]
		}
		return ind(d) + "(" + strings.Join(es, ", ") + ")"
	case *ast.DeclStmt:
		gd := s.Decl.(*ast.GenDecl)
		if gd.Tok == token.CONST {
			return t.stmts(rest, d) // constants are inlined by value
		}
		var out string
		for _, sp := range gd.Specs {
			vs := sp.(*ast.ValueSpec)
			for i, n := range vs.Names {
				ty := info.Defs[n].Type()
				if i < len(vs.Values) {
					out += fmt.Sprintf("%slet %s : %s := %s\n", ind(d), n.Name, leanType(ty), t.expr(vs.Values[i]))
				} else {
					out += fmt.Sprintf("%slet %s : %s := %s\n", ind(d), n.Name, leanType(ty), zero(ty))
				}
			}
		}
		return out + t.stmts(rest, d)
	case *ast.AssignStmt:
		return t.assign(s, d) + t.stmts(rest, d)
	case *ast.ExprStmt:
		// z.Rem(a, b): a BigInt method writing its receiver
		if call, ok := s.X.(*ast.CallExpr); ok {
			if se, ok := call.Fun.(*ast.SelectorExpr); ok {
				if id, ok := se.X.(*ast.Ident); ok && isBigIntRecv(se) {
					return fmt.Sprintf("%slet %s : Nat := %s\n", ind(d), id.Name, t.bigMethod(se.Sel.Name, call.Args)) + t.stmts(rest, d)
				}
			}
		}
		return ind(d) + fail("%s: expression statement", t.fn)
	case *ast.IfStmt:
		pre := ""
		if s.Init != nil {
			if as, ok := s.Init.(*ast.AssignStmt); ok {
				pre = t.assign(as, d)
			} else {
				return ind(d) + fail("%s: if-init", t.fn)
			}
		}
		thenB := t.stmts(append(append([]ast.Stmt{}, s.Body.List...), rest...), d+1)
		var elseL []ast.Stmt
		switch e := s.Else.(type) {
		case nil:
		case *ast.BlockStmt:
			elseL = e.List
		case *ast.IfStmt:
			elseL = []ast.Stmt{e}
		}
		elseB := t.stmts(append(append([]ast.Stmt{}, elseL...), rest...), d+1)
		return fmt.Sprintf("%s%sif %s then\n%s\n%selse\n%s", pre, ind(d), t.expr(s.Cond), thenB, ind(d), elseB)
	case *ast.SwitchStmt:
		if s.Init != nil || s.Tag == nil {
			return ind(d) + fail("%s: switch form", t.fn)
		}
		tag := t.expr(s.Tag)
		var def []ast.Stmt
		type cc struct {
			cond string
			body []ast.Stmt
		}
		var cases []cc
		for _, c := range s.Body.List {
			cl := c.(*ast.CaseClause)
			if cl.List == nil {
				def = cl.Body
				continue
			}
			var cs []string
			for _, e := range cl.List {
				cs = append(cs, fmt.Sprintf("(%s == %s)", tag, t.expr(e)))
			}
			cases = append(cases, cc{strings.Join(cs, " || "), cl.Body})
		}
		out := ""
		for _, c := range cases {
			out += fmt.Sprintf("%sif %s then\n%s\n%selse\n", ind(d), c.cond, t.stmts(append(append([]ast.Stmt{}, c.body...), rest...), d+1), ind(d))
		}
		return out + t.stmts(append(append([]ast.Stmt{}, def...), rest...), d+1)
	}
	return ind(d) + fail("%s: statement %T", t.fn, s)
}

func isBigIntRecv(se *ast.SelectorExpr) bool {
	tv, ok := info.Types[se.X]
	if !ok {
		return false
	}
	ty := tv.Type
	if n, ok := ty.(*types.Named); ok && n.Obj().Name() == "BigInt" {
		return true
	}
	return isBigIntPtr(ty)
}

func zero(ty types.Type) string {
	switch leanType(ty) {
	case "Bool":
		return "false"
	case "String":
		return "\"\""
	}
	return "0"
}

func (t *tr) assign(s *ast.AssignStmt, d int) string {
	// tuple from bits.X64
	if len(s.Lhs) == 2 && len(s.Rhs) == 1 {
		if call, ok := s.Rhs[0].(*ast.CallExpr); ok {
			if se, ok := call.Fun.(*ast.SelectorExpr); ok {
				if id, ok := se.X.(*ast.Ident); ok && id.Name == "bits" {
					var args []string
					for _, a := range call.Args {
						args = append(args, t.expr(a))
					}
					fn := map[string]string{"Add64": "add64", "Sub64": "sub64", "Mul64": "mul64"}[se.Sel.Name]
					if fn == "" {
						return ind(d) + fail("%s: bits.%s", t.fn, se.Sel.Name) + "\n"
					}
					a := s.Lhs[0].(*ast.Ident).Name
					b := s.Lhs[1].(*ast.Ident).Name
					return fmt.Sprintf("%slet %s_%s := %s %s\n%slet %s : Nat := %s_%s.1\n%slet %s : Nat := %s_%s.2\n",
						ind(d), a, b, fn, strings.Join(args, " "), ind(d), a, a, b, ind(d), b, a, b)
				}
			}
		}
	}
	if len(s.Lhs) != 1 || len(s.Rhs) != 1 {
		return ind(d) + fail("%s: assignment arity", t.fn) + "\n"
	}
	id, ok := s.Lhs[0].(*ast.Ident)
	if !ok {
		return ind(d) + fail("%s: assignment target", t.fn) + "\n"
	}
	var ty types.Type
	if o := info.Defs[id]; o != nil {
		ty = o.Type()
	} else if o := info.Uses[id]; o != nil {
		ty = o.Type()
	}
	rhs := t.expr(s.Rhs[0])
	switch s.Tok {
	case token.DEFINE, token.ASSIGN:
	case token.OR_ASSIGN:
		rhs = fmt.Sprintf("(%s ||| %s)", id.Name, rhs)
	case token.AND_ASSIGN:
		rhs = fmt.Sprintf("(%s &&& %s)", id.Name, rhs)
	default:
		return ind(d) + fail("%s: assignment operator %s", t.fn, s.Tok) + "\n"
	}
	return fmt.Sprintf("%slet %s : %s := %s\n", ind(d), id.Name, leanType(ty), rhs)
}

func (t *tr) bigMethod(name string, args []ast.Expr) string {
	var as []string
	for _, a := range args {
		as = append(as, t.expr(a))
	}
	switch name {
	case "Rem":
		return fmt.Sprintf("(%s %% %s)", as[0], as[1])
	}
	return fail("%s: BigInt.%s", t.fn, name)
}

func (t *tr) expr(e ast.Expr) string {
	if tv, ok := info.Types[e]; ok && tv.Value != nil {
		// constant expression: inline its value
		switch tv.Value.Kind() {
		case constant.Bool:
			return fmt.Sprint(constant.BoolVal(tv.Value))
		case constant.String:
			return fmt.Sprintf("%q", constant.StringVal(tv.Value))
		case constant.Int:
			s := tv.Value.ExactString()
			if strings.HasPrefix(s, "-") {
				return "(" + s + ")"
			}
			return s
		}
	}
	switch e := e.(type) {
	case *ast.ParenExpr:
		return "(" + t.expr(e.X) + ")"
	case *ast.Ident:
		switch e.Name {
		case "true", "false":
			return e.Name
		case "nil":
			return "0"
		}
		if o := info.Uses[e]; o != nil && o.Parent() == pkg.Scope() {
			if _, ok := o.(*types.Var); ok {
				return e.Name // package variable: must be defined in Consts (bigFive ...)
			}
		}
		return e.Name
	case *ast.SelectorExpr:
		if id, ok := e.X.(*ast.Ident); ok && id.Name == t.recv {
			if p, ok := t.fields[e.Sel.Name]; ok {
				return p
			}
		}
		return fail("%s: selector %s", t.fn, e.Sel.Name)
	case *ast.UnaryExpr:
		x := t.expr(e.X)
		switch e.Op {
		case token.NOT:
			return "(!" + x + ")"
		case token.SUB:
			return "(-" + x + ")"
		case token.XOR:
			if isCondition(info.Types[e.X].Type) {
				return "(4294967295 ^^^ " + x + ")"
			}
		}
		return fail("%s: unary %s", t.fn, e.Op)
	case *ast.BinaryExpr:
		x, y := t.expr(e.X), t.expr(e.Y)
		xt := info.Types[e.X].Type
		u64 := isUint64(xt)
		switch e.Op {
		case token.LAND:
			return "(" + x + " && " + y + ")"
		case token.LOR:
			return "(" + x + " || " + y + ")"
		case token.EQL:
			return "(" + x + " == " + y + ")"
		case token.NEQ:
			return "(" + x + " != " + y + ")"
		case token.LSS:
			return "(decide (" + x + " < " + y + "))"
		case token.LEQ:
			return "(decide (" + x + " ≤ " + y + "))"
		case token.GTR:
			return "(decide (" + x + " > " + y + "))"
		case token.GEQ:
			return "(decide (" + x + " ≥ " + y + "))"
		case token.OR:
			return "(" + x + " ||| " + y + ")"
		case token.AND:
			return "(" + x + " &&& " + y + ")"
		case token.ADD:
			if u64 {
				return "(add64w " + x + " " + y + ")"
			}
			return "(" + x + " + " + y + ")"
		case token.SUB:
			if u64 {
				return "(sub64w " + x + " " + y + ")"
			}
			if isUnsigned(xt) {
				return fail("%s: unsigned subtraction", t.fn)
			}
			return "(" + x + " - " + y + ")"
		case token.MUL:
			if u64 {
				return "(mul64w " + x + " " + y + ")"
			}
			return "(" + x + " * " + y + ")"
		case token.QUO:
			if isUnsigned(xt) {
				return "(" + x + " / " + y + ")"
			}
			return "(Int.tdiv " + x + " " + y + ")"
		case token.REM:
			if isUnsigned(xt) {
				return "(" + x + " % " + y + ")"
			}
			return "(Int.tmod " + x + " " + y + ")"
		}
		return fail("%s: binary %s", t.fn, e.Op)
	case *ast.CallExpr:
		// conversion?
		if tv, ok := info.Types[e.Fun]; ok && tv.IsType() {
			from := info.Types[e.Args[0]].Type
			x := t.expr(e.Args[0])
			to := leanType(tv.Type)
			fl := leanType(from)
			if to == fl {
				return x
			}
			if to == "Int" && fl == "Nat" {
				return "(Int.ofNat " + x + ")"
			}
			return fail("%s: conversion %s -> %s", t.fn, from, tv.Type)
		}
		switch f := e.Fun.(type) {
		case *ast.Ident:
			if _, ok := funcs[f.Name]; ok {
				var as []string
				for _, a := range e.Args {
					as = append(as, t.expr(a))
				}
				return "(" + f.Name + " " + strings.Join(as, " ") + ")"
			}
		case *ast.SelectorExpr:
			// errors.New(...)
			if id, ok := f.X.(*ast.Ident); ok && id.Name == "errors" && f.Sel.Name == "New" {
				if a, ok := e.Args[0].(*ast.Ident); ok && a.Name == "errExponentOutOfRangeStr" {
					return "errSys"
				}
				if c, ok := e.Args[0].(*ast.CallExpr); ok {
					if se, ok := c.Fun.(*ast.SelectorExpr); ok && se.Sel.Name == "String" && isCondition(info.Types[se.X].Type) {
						return "errTrap"
					}
				}
				return fail("%s: errors.New argument", t.fn)
			}
			rt := info.Types[f.X].Type
			// BigInt query methods on a non-negative magnitude
			if isBigIntPtr(rt) || isBigIntRecv(f) {
				x := t.expr(f.X)
				switch f.Sel.Name {
				case "Bit":
					if tv := info.Types[e.Args[0]]; tv.Value != nil && tv.Value.ExactString() == "0" {
						return "(" + x + " % 2)"
					}
				case "Sign":
					return "(natSign " + x + ")"
				}
				return fail("%s: BigInt.%s()", t.fn, f.Sel.Name)
			}
			// method of a translated named type: Condition.Overflow(), ...
			if n, ok := rt.(*types.Named); ok {
				key := n.Obj().Name() + "_" + f.Sel.Name
				if _, ok := funcs[key]; ok {
					var as []string
					as = append(as, t.expr(f.X))
					for _, a := range e.Args {
						as = append(as, t.expr(a))
					}
					return "(" + key + " " + strings.Join(as, " ") + ")"
				}
			}
		}
		return fail("%s: call", t.fn)
	}
	return fail("%s: expression %T", t.fn, e)
}
