// Group "imp" of the translator: store-level programs.
//
// For a fixed list of functions of /repo (impList) the syntax tree of each body is translated, statement by
// statement and preserving the order of evaluation, into a program of the free monad `Prog` of field reads and
// writes on Decimal cells (lean/ApdVerif/Imp/Prog.lean), or - for functions without *Decimal parameters - into a
// pure Lean function.  The output is lean/ApdVerif/Gen/Imp.lean; lean/ApdVerif/Props/GenTieImp.lean proves every
// generated program equal (same result, same final heap, every heap, every aliasing) to the hand-written one of
// lean/ApdVerif/Imp/Ops.lean.
//
// Translation scheme
//
//	*Decimal parameter      Cell if the body (transitively) writes through it, else Src; Option Src if the body
//	                        compares it with nil (a nil test `y != nil && ...` becomes a `match`)
//	x.Form / .Negative ...  `let t ← rdForm x` at the point where Go evaluates it; `d.F = e` is `wrF d e`
//	x.Coeff                 the cell's coeff : Nat; BigInt methods on it read their operands (in order) and then
//	                        write the receiver; a transient sign (SetInt64, Sub, Neg) lives in a local `sg_…`
//	BigInt / Decimal locals Lean values (`let`); methods of local Decimals are the value-level kernels of Model/
//	*Context                a value c : Ctx; Rounder -> Mode; Condition -> Cond; error -> ErrKind
//	if / switch             branches without `return` are joined on the set of locals they assign
//	                        (`let m ← (if … then do …; pure (a, b) else …)`); otherwise the rest of the block is
//	                        continued in the branches that fall through
//	for _, x := range xs    an auxiliary structurally recursive function (the body must not touch the heap)
//	kernels (not translated, mapped to the helper Ops.lean uses): NumDigits, tableExp10, Rounder.ShouldAddOne,
//	                        errors.New / fmt.Errorf (error class), New(const, const)
//
// Anything else makes the translator fail for that function (exit 1), naming the construct.
package main

import (
	"fmt"
	"go/ast"
	"go/constant"
	"go/token"
	"go/types"
	"math/big"
	"regexp"
	"sort"
	"strings"
)

// impList: the functions translated, callees before callers.
var impList = []string{
	"Condition_Inexact", "Condition_Subnormal", "Condition_GoError", "Context_goError",
	"Decimal_NumDigits", "Decimal_Sign", "Decimal_IsZero", "Decimal_setSlow", "Decimal_Set", "Decimal_Neg", "Decimal_Abs",
	"Decimal_setCoefficient", "Decimal_SetFinite", "Decimal_SetInt64",
	"Context_shouldSetAsNaN", "Context_setAsNaN",
	"roundAddOne", "Decimal_setExponent", "Rounder_Round", "Context_round", "Context_Round", "Context_Abs", "Context_Neg",
	"upscale", "Context_add", "Context_Add", "Context_Sub",
	"Context_Mul",
	"Condition_Overflow", "Condition_Underflow",
	"Context_etiny", "Context_quoSpecials", "Context_Quo", "Context_QuoInteger", "Context_Rem",
	"Context_quantize", "Context_Quantize",
	"Decimal_Cmp", "Context_Cmp",
	"Decimal_Modf",
	"Context_toIntegral", "Context_toIntegralSpecials", "Context_RoundToIntegralValue", "Context_RoundToIntegralExact",
	"Context_Ceil", "Context_Floor",
	"Decimal_setBig", "Decimal_Reduce", "Context_Reduce",
}

// impTransList: the composite functions (second output file, Gen/ImpTrans.lean)
var impTransList = []string{
	"Context_rootSpecials", "Context_logSpecials",
	"sqrtSettle",
	"Condition_SystemOverflow", "Condition_negateOverflowFlags",
	"MakeErrDecimal", "ErrDecimal_Err", "ErrDecimal_update", "ErrDecimal_Mul", "ErrDecimal_Quo", "ErrDecimal_Abs",
	"Context_integerPower",
	"Context_Sqrt",
	"Context_newLoop", "loop_done",
}

type cat int

const (
	cUnknown cat = iota
	cBool
	cInt
	cNat
	cCond
	cErr
	cForm
	cMode
	cCtx
	cDecPtr
	cDec
	cBigPtr
	cBig
	cIntPtr
	cIntList
	cUnit
	cED      // ErrDecimal held by value (a local struct)
	cEDPtr   // *ErrDecimal (receiver)
	cLoop    // loop (loop.go) held by value
	cLoopPtr // *loop
	cString  // a string (only passed around: names for diagnostics)
)

func classify(t types.Type) cat {
	switch u := t.(type) {
	case *types.Pointer:
		if n, ok := u.Elem().(*types.Named); ok {
			switch n.Obj().Name() {
			case "Decimal":
				return cDecPtr
			case "BigInt":
				return cBigPtr
			case "Context":
				return cCtx
			case "ErrDecimal":
				return cEDPtr
			case "loop":
				return cLoopPtr
			}
		}
		if b, ok := u.Elem().Underlying().(*types.Basic); ok && b.Kind() == types.Int64 {
			return cIntPtr
		}
	case *types.Named:
		switch u.Obj().Name() {
		case "Decimal":
			return cDec
		case "Context":
			return cCtx // a Context held by value (`down := *nc`)
		case "ErrDecimal":
			return cED
		case "loop":
			return cLoop
		case "BigInt":
			return cBig
		case "Condition":
			return cCond
		case "Form":
			return cForm
		case "Rounder":
			return cMode
		case "error":
			return cErr
		}
		return classify(u.Underlying())
	case *types.Basic:
		switch {
		case u.Info()&types.IsBoolean != 0:
			return cBool
		case u.Info()&types.IsUnsigned != 0:
			return cNat
		case u.Info()&types.IsInteger != 0:
			return cInt
		case u.Info()&types.IsString != 0:
			return cString
		}
	case *types.Slice:
		if classify(u.Elem()) == cInt {
			return cIntList
		}
	}
	return cUnknown
}

func leanOf(c cat) string {
	switch c {
	case cBool:
		return "Bool"
	case cInt:
		return "Int"
	case cNat:
		return "Nat"
	case cCond:
		return "Cond"
	case cErr:
		return "ErrKind"
	case cForm:
		return "Form"
	case cMode:
		return "Mode"
	case cCtx:
		return "Ctx"
	case cDec:
		return "Dec"
	case cBig:
		return "Nat"
	case cBigPtr:
		return "BPtr"
	case cDecPtr:
		return "Src"
	case cIntPtr:
		return "Int"
	case cIntList:
		return "List Int"
	case cUnit:
		return "Unit"
	case cED, cEDPtr:
		return "ED"
	case cLoop, cLoopPtr:
		return "Loop"
	case cString:
		return "String"
	}
	return "sorryUnsupported"
}

type pkind int

const (
	pPlain   pkind = iota
	pCell          // *Decimal written through
	pSrc           // *Decimal only read
	pOptSrc        // *Decimal that may be nil
	pOptCell       // *Decimal that may be nil and is written through
	pDecIO         // *Decimal that is the address of a caller's local Decimal: in/out value (variants)
	pDecIn         // *Decimal that is at every call site the address of a local Decimal and is only read: a value
	pEDIO          // *ErrDecimal receiver: the struct passed in and returned by value
	pBigIn         // *BigInt that is only read: a signed integer
	pBigIO         // *BigInt in/out value (pure functions)
	pIntIO         // *int64 in/out value
	pBPtr          // *BigInt pointer value (functions returning *BigInt)
)

type iparam struct {
	name string
	kind pkind
	cat  cat
}

func (p iparam) lean() string {
	switch p.kind {
	case pCell:
		return "Cell"
	case pSrc:
		return "Src"
	case pOptSrc:
		return "Option Src"
	case pOptCell:
		return "Option Cell"
	case pDecIO, pDecIn:
		return "Dec"
	case pEDIO:
		return leanOf(p.cat)
	case pBigIO:
		return "Nat"
	case pBigIn:
		return "Int"
	case pIntIO:
		return "Int"
	case pBPtr:
		return "BPtr"
	}
	return leanOf(p.cat)
}

type isig struct {
	key       string
	fd        *ast.FuncDecl
	monadic   bool
	hasRecv   bool
	params    []iparam       // receiver first
	results   []cat          // Go results (empty when retRecv)
	goResults []cat          // all Go results
	drop      map[int]string // Go results that are one of the function's own pointers (receiver / *BigInt parameter): not returned
	fuel      bool           // has `for` loops (directly or in a callee): takes a first parameter `fuel : Nat`
	retRecv   bool           // the single Go result is the *Decimal receiver
	outs      []int          // indices of in/out parameters, appended to the results
	variadic  bool
}

func (s *isig) resultLean() string {
	var ts []string
	for _, r := range s.results {
		ts = append(ts, leanOf(r))
	}
	for _, i := range s.outs {
		ts = append(ts, s.params[i].lean())
	}
	if len(ts) == 0 {
		return "Unit"
	}
	return strings.Join(ts, " × ")
}

func (s *isig) nres() int { return len(s.results) + len(s.outs) }

var impSigs = map[string]*isig{}

var bigMutators = map[string]bool{"Rsh": true, "SetUint64": true, "Set": true, "SetInt64": true, "Abs": true, "Neg": true, "Add": true, "Sub": true,
	"Mul": true, "Quo": true, "Rem": true, "QuoRem": true}

// callee key of a call expression, "" if it is not a call of a package function or method
func calleeKey(call *ast.CallExpr) string {
	switch f := call.Fun.(type) {
	case *ast.Ident:
		if _, ok := funcs[f.Name]; ok {
			return f.Name
		}
	case *ast.SelectorExpr:
		if tv, ok := info.Types[f.X]; ok {
			ty := tv.Type
			if p, ok := ty.(*types.Pointer); ok {
				ty = p.Elem()
			}
			if n, ok := ty.(*types.Named); ok {
				k := n.Obj().Name() + "_" + f.Sel.Name
				if _, ok := funcs[k]; ok {
					return k
				}
			}
		}
	}
	return ""
}

func identName(e ast.Expr) string {
	for {
		if p, ok := e.(*ast.ParenExpr); ok {
			e = p.X
			continue
		}
		break
	}
	if id, ok := e.(*ast.Ident); ok {
		return id.Name
	}
	return ""
}

// the identifier X of `X.Coeff` or `&X.Coeff`, "" otherwise
func coeffOwner(e ast.Expr) string {
	if u, ok := e.(*ast.UnaryExpr); ok && u.Op == token.AND {
		e = u.X
	}
	if se, ok := e.(*ast.SelectorExpr); ok && se.Sel.Name == "Coeff" {
		return identName(se.X)
	}
	return ""
}

// buildSig computes the Lean signature of a function: kinds of the pointer parameters from a scan of the body.
// variantOf returns the variant of a translated function in which the *Decimal parameters with the given indices
// are addresses of the caller's local Decimals (values passed in and returned); it is translated on first use.
func variantOf(base *isig, idxs []int) *isig {
	key := base.key + "_loc"
	for _, i := range idxs {
		key += fmt.Sprint(i)
	}
	if v := impSigs[key]; v != nil {
		return v
	}
	if impFailed[key] {
		return nil
	}
	n := len(errs)
	loc := map[int]bool{}
	for _, i := range idxs {
		loc[i] = true
	}
	v := buildSigLoc(base.key, base.fd, loc)
	v.key = key
	if len(errs) > n {
		impFailed[key] = true
		return nil
	}
	impSigs[key] = v
	d := transImp(v)
	if len(errs) > n {
		delete(impSigs, key)
		impFailed[key] = true
		return nil
	}
	impDefs = append(impDefs, d)
	return v
}

var impFailed = map[string]bool{}
var impDefs []string

func buildSig(key string, fd *ast.FuncDecl) *isig { return buildSigLoc(key, fd, nil) }

// alwaysLocal: the positions (receiver first) of the *Decimal parameters of a function that are, at every call
// site of the package, the address of a local Decimal variable
func alwaysLocal(key string) map[int]bool {
	counts := map[int]int{}
	calls := 0
	for _, f := range parsedFiles {
		ast.Inspect(f, func(n ast.Node) bool {
			call, ok := n.(*ast.CallExpr)
			if !ok || calleeKey(call) != key {
				return true
			}
			calls++
			var actuals []ast.Expr
			if se, ok := call.Fun.(*ast.SelectorExpr); ok && funcs[key].Recv != nil {
				actuals = append(actuals, se.X)
			}
			actuals = append(actuals, call.Args...)
			for i, a := range actuals {
				if isLocalDecimalAddr(a) {
					counts[i]++
				}
			}
			return true
		})
	}
	r := map[int]bool{}
	for i, c := range counts {
		if calls > 0 && c == calls {
			r[i] = true
		}
	}
	return r
}

// isLocalDecimalAddr: `&v` or `v` for a local variable v of type Decimal
func isLocalDecimalAddr(a ast.Expr) bool {
	if u, ok := a.(*ast.UnaryExpr); ok && u.Op == token.AND {
		a = u.X
	}
	id, ok := a.(*ast.Ident)
	if !ok {
		return false
	}
	o := info.Uses[id]
	v, ok := o.(*types.Var)
	if !ok || v.Parent() == pkg.Scope() || v.IsField() {
		return false
	}
	return classify(v.Type()) == cDec
}

func buildSigLoc(key string, fd *ast.FuncDecl, loc map[int]bool) *isig {
	s := &isig{key: key, fd: fd}
	always := alwaysLocal(key)
	written := map[string]bool{}
	alias := map[string][]string{} // z := d : writes through z are writes through d
	bigWritten := map[string]bool{}
	nilable := map[string]bool{}
	reassigned := map[string]bool{}
	ast.Inspect(fd.Body, func(n ast.Node) bool {
		switch n := n.(type) {
		case *ast.BinaryExpr:
			if n.Op == token.EQL || n.Op == token.NEQ {
				if identName(n.Y) == "nil" && identName(n.X) != "" {
					nilable[identName(n.X)] = true
				}
			}
		case *ast.AssignStmt:
			if len(n.Lhs) == len(n.Rhs) {
				for i, l := range n.Lhs {
					if a, b := identName(l), identName(n.Rhs[i]); a != "" && b != "" && a != "_" {
						if ty := goType(n.Rhs[i]); ty != nil && classify(ty) == cDecPtr {
							alias[a] = append(alias[a], b)
						}
					}
				}
			}
			for _, l := range n.Lhs {
				if se, ok := l.(*ast.SelectorExpr); ok {
					if id := identName(se.X); id != "" {
						written[id] = true
					}
				}
				if id := identName(l); id != "" && n.Tok != token.DEFINE {
					reassigned[id] = true
				}
			}
		case *ast.CallExpr:
			if se, ok := n.Fun.(*ast.SelectorExpr); ok && isBigIntRecv(se) && bigMutators[se.Sel.Name] {
				if id := identName(se.X); id != "" {
					bigWritten[id] = true
				}
				if se.Sel.Name == "QuoRem" && len(n.Args) == 3 {
					if id := identName(n.Args[2]); id != "" {
						bigWritten[id] = true
					}
				}
				if o := coeffOwner(se.X); o != "" {
					written[o] = true
				}
				if se.Sel.Name == "QuoRem" && len(n.Args) == 3 {
					if o := coeffOwner(n.Args[2]); o != "" {
						written[o] = true
					}
				}
			}
			if k := calleeKey(n); k != "" {
				if cs := impSigs[k]; cs != nil {
					var actuals []ast.Expr
					if cs.hasRecv {
						actuals = append(actuals, n.Fun.(*ast.SelectorExpr).X)
					}
					actuals = append(actuals, n.Args...)
					for i, a := range actuals {
						if i >= len(cs.params) {
							break
						}
						switch cs.params[i].kind {
						case pCell:
							if id := identName(a); id != "" {
								written[id] = true
							}
						case pBigIO:
							if o := coeffOwner(a); o != "" {
								written[o] = true
							}
							if id := identName(a); id != "" {
								bigWritten[id] = true
							}
						}
					}
				}
			}
		}
		return true
	})
	for changed := true; changed; {
		changed = false
		for a, bs := range alias {
			if written[a] {
				for _, b := range bs {
					if !written[b] {
						written[b] = true
						changed = true
					}
				}
			}
		}
	}
	hasBigPtrResult := false
	if fd.Type.Results != nil {
		for _, r := range fd.Type.Results.List {
			if len(r.Names) > 0 {
				fail("%s: named results", key)
			}
			c := classify(info.Types[r.Type].Type)
			if c == cUnknown {
				fail("%s: result type %s", key, info.Types[r.Type].Type)
			}
			s.goResults = append(s.goResults, c)
		}
	}
	s.drop = map[int]string{}
	// a *BigInt result that is always one of the *BigInt parameters: that parameter is in/out, the result dropped
	bigParam := map[string]bool{}
	for _, p := range fd.Type.Params.List {
		if classify(info.Types[p.Type].Type) == cBigPtr {
			for _, n := range p.Names {
				bigParam[n.Name] = true
			}
		}
	}
	retBig := map[string]bool{}
	for i, c := range s.goResults {
		if c != cBigPtr {
			continue
		}
		name := ""
		ok := true
		ast.Inspect(fd.Body, func(n ast.Node) bool {
			switch n := n.(type) {
			case *ast.FuncLit:
				return false
			case *ast.ReturnStmt:
				if len(n.Results) != len(s.goResults) {
					ok = false
					return true
				}
				id := identName(n.Results[i])
				if id == "" || !bigParam[id] || (name != "" && name != id) {
					ok = false
				}
				name = id
			}
			return true
		})
		if ok && name != "" && !reassigned[name] {
			s.drop[i] = name
			retBig[name] = true
		} else {
			hasBigPtrResult = true
		}
	}
	// `for` loops (other than range over the variadic list) run on fuel
	ast.Inspect(fd.Body, func(n ast.Node) bool {
		switch n := n.(type) {
		case *ast.ForStmt:
			s.fuel = true
		case *ast.CallExpr:
			if k := calleeKey(n); k != "" {
				if cs := impSigs[k]; cs != nil && cs.fuel {
					s.fuel = true
				}
			}
		}
		return true
	})
	add := func(name string, ty types.Type, isRecv bool) {
		c := classify(ty)
		p := iparam{name: name, cat: c}
		switch c {
		case cDecPtr:
			s.monadic = true
			switch {
			case always[len(s.params)] && !written[name] && !nilable[name]:
				p.kind = pDecIn
			case loc[len(s.params)]:
				p.kind = pDecIO
				if reassigned[name] {
					fail("%s: parameter %s is reassigned", key, name)
				}
			case nilable[name]:
				p.kind = pOptSrc
				if written[name] {
					p.kind = pOptCell
				}
				if reassigned[name] {
					fail("%s: parameter %s is nil-tested and reassigned", key, name)
				}
			case written[name]:
				p.kind = pCell
				if reassigned[name] {
					fail("%s: parameter %s is written through and reassigned", key, name)
				}
			default:
				p.kind = pSrc
			}
		case cBigPtr:
			switch {
			case hasBigPtrResult && !retBig[name]:
				p.kind = pBPtr
			case !bigWritten[name] && !retBig[name] && !reassigned[name]:
				p.kind = pBigIn
			default:
				p.kind = pBigIO
			}
		case cIntPtr:
			p.kind = pIntIO
		case cEDPtr, cLoopPtr:
			p.kind = pEDIO
		case cDec, cBig, cUnknown, cUnit:
			fail("%s: parameter %s of type %s", key, name, ty)
		}
		s.params = append(s.params, p)
	}
	if fd.Recv != nil {
		r := fd.Recv.List[0]
		rn := "_recv"
		if len(r.Names) == 1 {
			rn = r.Names[0].Name
		}
		s.hasRecv = true
		add(rn, info.Types[r.Type].Type, true)
	}
	for _, p := range fd.Type.Params.List {
		pt := info.Types[p.Type].Type
		if _, ok := p.Type.(*ast.Ellipsis); ok {
			s.variadic = true
		}
		for _, n := range p.Names {
			add(n.Name, pt, false)
		}
	}
	for i, p := range s.params {
		if p.kind == pBigIO || p.kind == pIntIO || p.kind == pDecIO || p.kind == pEDIO {
			s.outs = append(s.outs, i)
		}
	}
	for i, c := range s.goResults {
		if c == cDecPtr {
			// the result must be one of the function's own *Decimal pointers: its receiver, or always the same parameter
			name := ""
			okp := true
			ast.Inspect(fd.Body, func(n ast.Node) bool {
				switch n := n.(type) {
				case *ast.FuncLit:
					return false
				case *ast.ReturnStmt:
					if len(n.Results) != len(s.goResults) {
						okp = false
						return true
					}
					id := identName(n.Results[i])
					if id == "" || (name != "" && name != id) {
						okp = false
					}
					name = id
				}
				return true
			})
			isParam := false
			for _, p := range s.params {
				if p.name == name && p.cat == cDecPtr {
					isParam = true
				}
			}
			if okp && isParam && !reassigned[name] {
				s.drop[i] = name
			} else if s.hasRecv && s.params[0].cat == cDecPtr {
				s.drop[i] = s.params[0].name
			} else {
				fail("%s: returns a *Decimal that is not one of its own pointers", key)
				continue
			}
		}
		if _, dropped := s.drop[i]; !dropped {
			s.results = append(s.results, c)
		}
	}
	if len(s.goResults) == 1 && s.goResults[0] == cDecPtr && s.hasRecv && s.drop[0] == s.params[0].name && s.params[0].cat == cDecPtr {
		s.retRecv = true
	}
	return s
}

// ---------- constants of named types ----------

var condLean = map[string]string{"SystemOverflow": "cSysOverflow", "SystemUnderflow": "cSysUnderflow", "Overflow": "cOverflow",
	"Underflow": "cUnderflow", "Inexact": "cInexact", "Subnormal": "cSubnormal", "Rounded": "cRounded",
	"DivisionUndefined": "cDivUndefined", "DivisionByZero": "cDivByZero", "DivisionImpossible": "cDivImpossible",
	"InvalidOperation": "cInvalidOp", "Clamped": "cClamped"}
var formLean = map[string]string{"Finite": "finite", "Infinite": "infinite", "NaNSignaling": "nanSignaling", "NaN": "nan"}
var modeLean = map[string]string{"RoundDown": "down", "RoundHalfUp": "halfUp", "RoundHalfEven": "halfEven", "RoundCeiling": "ceiling",
	"RoundFloor": "floor", "RoundHalfDown": "halfDown", "RoundUp": "up", "Round05Up": "r05up"}

// condLit decodes a constant Condition into the named flags of the Go source (by the values the constants have now).
var inComplement bool

func condLit(v constant.Value, who string) string {
	n, ok := new(big.Int).SetString(v.ExactString(), 10)
	if !ok || n.Sign() < 0 {
		return fail("%s: condition constant %s", who, v)
	}
	if n.Sign() == 0 {
		return "({} : Cond)"
	}
	type fl struct {
		bit  *big.Int
		name string
	}
	var fls []fl
	for _, cn := range condNames {
		b, _ := new(big.Int).SetString(constVal(cn).ExactString(), 10)
		fls = append(fls, fl{b, cn})
	}
	sort.Slice(fls, func(i, j int) bool { return fls[i].bit.Cmp(fls[j].bit) < 0 })
	var parts []string
	rem := new(big.Int).Set(n)
	for _, f := range fls {
		if new(big.Int).And(rem, f.bit).Cmp(f.bit) == 0 && f.bit.Sign() > 0 {
			parts = append(parts, "Cond."+condLean[f.name])
			rem.AndNot(rem, f.bit)
		}
	}
	if rem.Sign() != 0 {
		// `^K`: the complement (in the 32 bits of a Condition) of a set of named flags
		all := new(big.Int).Sub(new(big.Int).Lsh(big.NewInt(1), 32), big.NewInt(1))
		comp := new(big.Int).Sub(all, n)
		named := big.NewInt(0)
		for _, f := range fls {
			named.Or(named, f.bit)
		}
		if comp.Sign() >= 0 && new(big.Int).AndNot(comp, named).Sign() == 0 && !inComplement {
			inComplement = true
			r := "(condNot " + condLit(constant.Make(comp), who) + ")"
			inComplement = false
			return r
		}
		return fail("%s: condition constant %s has unnamed bits", who, v)
	}
	if len(parts) == 1 {
		return parts[0]
	}
	return "(" + strings.Join(parts, " ||| ") + ")"
}

func formLit(v constant.Value, who string) string {
	for _, fn := range formNames {
		if constant.Compare(constVal(fn), token.EQL, v) {
			return "Form." + formLean[fn]
		}
	}
	return fail("%s: form constant %s", who, v)
}

func modeLit(v constant.Value, who string) string {
	for _, rn := range rounderNames {
		if constant.Compare(constVal(rn), token.EQL, v) {
			return "Mode." + modeLean[rn]
		}
	}
	return fail("%s: rounder constant %s", who, v)
}

var tmpNameRe = regexp.MustCompile(`^(t_[0-9]+|sg_.*)$`)

func proj(t string, i, n int) string {
	if n == 1 {
		return t
	}
	s := t
	for j := 0; j < i && j < n-1; j++ {
		if j == i-1 && i == n-1 {
			return s + ".2"
		}
		s += ".2"
	}
	return s + ".1"
}

func tuple(vs []string) string {
	if len(vs) == 0 {
		return "()"
	}
	if len(vs) == 1 {
		return vs[0]
	}
	return "(" + strings.Join(vs, ", ") + ")"
}

var _ = fmt.Sprint
