package main

import (
	"fmt"
	"go/ast"
	"go/constant"
	"go/token"
	"go/types"
	"strings"
)

var edFields = map[string]struct {
	lean string
	cat  cat
}{"err": {"err", cErr}, "Ctx": {"c", cCtx}, "Flags": {"fl", cCond}}

// the fields of `loop` (loop.go) as fields of the Lean structure `Loop` (Gen/ImpTransPrelude.lean); `name` (a string used in
// an error message only) has no counterpart
var loopFields = map[string]struct {
	lean string
	cat  cat
}{"c": {"c", cCtx}, "i": {"i", cNat}, "precision": {"precision", cInt}, "maxIterations": {"maxIterations", cNat},
	"arg": {"arg", cDec}, "prevZ": {"prevZ", cDec}, "delta": {"delta", cDec}}

var ctxFields = map[string]struct {
	lean string
	cat  cat
}{"Precision": {"prec", cNat}, "MaxExponent": {"emax", cInt}, "MinExponent": {"emin", cInt}, "Traps": {"traps", cCond}, "Rounding": {"mode", cMode}}

func goType(e ast.Expr) types.Type {
	if tv, ok := info.Types[e]; ok {
		return tv.Type
	}
	return nil
}

func (t *itr) catOf(e ast.Expr) cat {
	if se, ok := e.(*ast.SelectorExpr); ok {
		if v := t.env.vars[identName(se.X)]; v != nil && v.cat == cLoop {
			if f, ok := loopFields[se.Sel.Name]; ok {
				return f.cat
			}
		}
	}
	if id := identName(e); id != "" {
		if v := t.env.vars[id]; v != nil {
			return v.cat
		}
	}
	if ty := goType(e); ty != nil {
		return classify(ty)
	}
	return cUnknown
}

// constExpr renders a constant expression of the given Go type
func (t *itr) constExpr(v constant.Value, ty types.Type) (string, cat, bool) {
	c := classify(ty)
	switch c {
	case cCond:
		return condLit(v, t.fn), c, true
	case cForm:
		return formLit(v, t.fn), c, true
	case cMode:
		return modeLit(v, t.fn), c, true
	case cBool:
		return fmt.Sprint(constant.BoolVal(v)), c, true
	case cString:
		return fmt.Sprintf("%q", constant.StringVal(v)), c, true
	case cInt, cNat:
		s := v.ExactString()
		if strings.HasPrefix(s, "-") {
			if c == cNat {
				return t.fail("negative unsigned constant"), c, true
			}
			return "(" + s + ")", c, true
		}
		return s, c, true
	}
	return "", c, false
}

// expr translates a value expression; field reads are bound (in evaluation order) before the result is used.
func (t *itr) expr(e ast.Expr) (string, cat) {
	if tv, ok := info.Types[e]; ok && tv.Value != nil {
		if s, c, ok := t.constExpr(tv.Value, tv.Type); ok {
			return s, c
		}
		return t.fail("constant %s of type %s", tv.Value, tv.Type), cUnknown
	}
	switch e := e.(type) {
	case *ast.ParenExpr:
		return t.expr(e.X)
	case *ast.BasicLit:
		if e.Kind == token.INT {
			return e.Value, cInt // synthetic literal (x++ is x = x + 1)
		}
	case *ast.Ident:
		switch e.Name {
		case "true", "false":
			return e.Name, cBool
		}
		if v := t.env.vars[e.Name]; v != nil {
			switch {
			case v.kind == vVal && v.cat != cDec:
				if v.moved {
					t.fail("%s used after its address was given away", e.Name)
				}
				return e.Name, v.cat
			case v.kind == vList:
				return e.Name, cIntList
			case v.kind == vPlainCtx:
				return e.Name, v.cat
			}
			return t.fail("%s in a value position", e.Name), cUnknown
		}
		if o := info.Uses[e]; o != nil && o.Parent() == pkg.Scope() && classify(o.Type()) == cBigPtr {
			return "Apd.Gen." + e.Name, cBig
		}
		return t.fail("identifier %s", e.Name), cUnknown
	case *ast.StarExpr:
		if id := identName(e.X); id != "" {
			if v := t.env.vars[id]; v != nil && v.kind == vVal && (v.cat == cInt) {
				return id, cInt
			}
			if v := t.env.vars[id]; v != nil && v.cat == cCtx {
				return id, cCtx // `*nc`: a copy of the context
			}
		}
		return t.fail("dereference %s", exprString(e)), cUnknown
	case *ast.SelectorExpr:
		xc := t.catOf(e.X)
		switch xc {
		case cCtx:
			if f, ok := ctxFields[e.Sel.Name]; ok {
				x, _ := t.expr(e.X)
				return x + "." + f.lean, f.cat
			}
			return t.fail("context field %s", e.Sel.Name), cUnknown
		case cDecPtr, cDec:
			return t.readField(e.X, e.Sel.Name)
		case cED, cEDPtr:
			if f, ok := edFields[e.Sel.Name]; ok {
				x, _ := t.expr(e.X)
				return x + "." + f.lean, f.cat
			}
		case cLoop, cLoopPtr:
			if f, ok := loopFields[e.Sel.Name]; ok && f.cat != cDec {
				x, _ := t.expr(e.X)
				return x + "." + f.lean, f.cat
			}
		}
		return t.fail("selector %s", exprString(e)), cUnknown
	case *ast.UnaryExpr:
		if cl, ok := e.X.(*ast.CompositeLit); ok && e.Op == token.AND && identName(cl.Type) == "loop" {
			return t.expr(cl) // &loop{…}: the struct by value
		}
		switch e.Op {
		case token.NOT:
			x, _ := t.expr(e.X)
			return "(!" + x + ")", cBool
		case token.SUB:
			x, c := t.expr(e.X)
			if c != cInt {
				return t.fail("negation of a non-integer"), cUnknown
			}
			return "(-" + x + ")", cInt
		}
		return t.fail("unary %s", e.Op), cUnknown
	case *ast.BinaryExpr:
		return t.binary(e)
	case *ast.CompositeLit:
		if identName(e.Type) == "loop" {
			var parts []string
			for _, el := range e.Elts {
				kv, ok := el.(*ast.KeyValueExpr)
				if !ok {
					return t.fail("loop literal"), cUnknown
				}
				k := identName(kv.Key)
				if k == "name" {
					continue // diagnostics only
				}
				f, okf := loopFields[k]
				if !okf {
					return t.fail("loop literal: field %s", k), cUnknown
				}
				if f.cat == cDec {
					// new(Decimal).Set(arg): a fresh local copy
					call, ok := kv.Value.(*ast.CallExpr)
					se, ok2 := func() (*ast.SelectorExpr, bool) {
						if !ok {
							return nil, false
						}
						s, o := call.Fun.(*ast.SelectorExpr)
						return s, o
					}()
					if !ok2 || se.Sel.Name != "Set" || len(call.Args) != 1 {
						return t.fail("loop literal: field %s", k), cUnknown
					}
					if nc, ok := se.X.(*ast.CallExpr); !ok || identName(nc.Fun) != "new" || identName(nc.Args[0]) != "Decimal" {
						return t.fail("loop literal: field %s", k), cUnknown
					}
					tmp := t.fresh()
					t.emit("let %s : Dec := {}", tmp)
					t.env.vars[tmp] = &ivar{cat: cDec, kind: vVal, assigned: true, depth: t.depth}
					sig := impSigs["Decimal_Set"]
					if sig == nil {
						return t.fail("Decimal_Set not translated"), cUnknown
					}
					r := t.decRef(call.Args[0])
					if r.kind == "local" || r.kind == "const" {
						t.define(tmp, cDec, vVal, r.name)
					} else {
						t.callSig(sig, &ast.Ident{Name: tmp}, call.Args, true)
					}
					parts = append(parts, f.lean+" := "+tmp)
					continue
				}
				parts = append(parts, f.lean+" := "+t.exprAs(kv.Value, f.cat))
			}
			return "({ " + strings.Join(parts, ", ") + " } : Loop)", cLoop
		}
		if identName(e.Type) == "ErrDecimal" {
			fs := map[string]string{}
			for _, el := range e.Elts {
				kv, ok := el.(*ast.KeyValueExpr)
				f, okf := edFields[identName(kv.Key)]
				if !ok || !okf {
					return t.fail("ErrDecimal literal"), cUnknown
				}
				fs[f.lean] = t.exprAs(kv.Value, f.cat)
			}
			if fs["c"] == "" {
				return t.fail("ErrDecimal literal without a context"), cUnknown
			}
			var parts []string
			for _, k := range []string{"c", "fl", "err"} {
				if v, ok := fs[k]; ok {
					parts = append(parts, k+" := "+v)
				}
			}
			return "({ " + strings.Join(parts, ", ") + " } : ED)", cED
		}
		return t.fail("composite literal"), cUnknown
	case *ast.CallExpr:
		rs, cs := t.call(e, false)
		if len(rs) != 1 || rs[0] == droppedResult {
			return t.fail("call %s used as a single value", exprString(e)), cUnknown
		}
		return rs[0], cs[0]
	}
	return t.fail("expression %T", e), cUnknown
}

// nilTest recognises `y != nil` / `y == nil` on a nilable *Decimal; returns the variable and whether the test is !=
func (t *itr) nilTest(e ast.Expr) (string, bool, bool) {
	for {
		if p, ok := e.(*ast.ParenExpr); ok {
			e = p.X
			continue
		}
		break
	}
	b, ok := e.(*ast.BinaryExpr)
	if !ok || (b.Op != token.NEQ && b.Op != token.EQL) || identName(b.Y) != "nil" {
		return "", false, false
	}
	id := identName(b.X)
	if v := t.env.vars[id]; v != nil && (v.kind == vOptSrc || v.kind == vOptCell) {
		return id, b.Op == token.NEQ, true
	}
	if v := t.env.vars[id]; v != nil && v.addrParam {
		v.unwrapped = true // the address of a local is never nil
		return id, b.Op == token.NEQ, true
	}
	return "", false, false
}

// shortCircuit builds `a && b` / `a || b` where b may read the heap
func (t *itr) shortCircuit(a string, and bool, evalB func() string) string {
	ls, _ := t.capture(func() {
		b := evalB()
		t.emit("\x00%s", b)
	})
	last := ls[len(ls)-1][1:]
	ls = ls[:len(ls)-1]
	if len(ls) == 0 {
		if and {
			return "(" + a + " && " + last + ")"
		}
		return "(" + a + " || " + last + ")"
	}
	if !t.monadic {
		return t.fail("heap access in pure code")
	}
	// binds of b bump the temp counter inside capture: keep numbering monotone (capture shares t.tmp)
	v := t.fresh()
	if and {
		t.emit("let %s ← (if %s then do", v, a)
		t.emitLines(ls, 2)
		t.emit("    pure %s", last)
		t.emit("  else")
		t.emit("    pure false)")
	} else {
		t.emit("let %s ← (if %s then", v, a)
		t.emit("    pure true")
		t.emit("  else do")
		t.emitLines(ls, 2)
		t.emit("    pure %s)", last)
	}
	return v
}

func (t *itr) binary(e *ast.BinaryExpr) (string, cat) {
	switch e.Op {
	case token.LAND, token.LOR:
		and := e.Op == token.LAND
		// nil guard on the left: `y != nil && B`
		if id, ne, ok := t.nilTest(e.X); ok {
			v := t.env.vars[id]
			if !(ne && and) {
				return t.fail("nil test %s in this position", exprString(e.X)), cUnknown
			}
			if v.unwrapped {
				return t.expr(e.Y)
			}
			if v.knownNil {
				return "false", cBool
			}
			if !t.monadic {
				return t.fail("nil guard in pure code"), cUnknown
			}
			ls, _ := t.capture(func() {
				t.env.vars[id].unwrapped = true
				b, _ := t.expr(e.Y)
				t.emit("pure %s", b)
			})
			r := t.fresh()
			t.emit("let %s ← (match %s with", r, id)
			t.emit("  | none => pure false")
			t.emit("  | some %s => do", id)
			t.emitLines(ls, 2)
			(*t.cur)[len(*t.cur)-1] += ")"
			return r, cBool
		}
		a, _ := t.expr(e.X)
		return t.shortCircuit(a, and, func() string { b, _ := t.expr(e.Y); return b }), cBool
	}
	xc, yc := t.catOf(e.X), t.catOf(e.Y)
	// pointer comparisons
	if (e.Op == token.EQL || e.Op == token.NEQ) && (xc == cDecPtr || yc == cDecPtr) {
		if identName(e.X) == "nil" || identName(e.Y) == "nil" {
			return t.fail("nil comparison %s outside a guard", exprString(e)), cUnknown
		}
		ra, rb := t.decRef(e.X), t.decRef(e.Y)
		if ra.kind == "local" || rb.kind == "local" {
			// the address of a local Decimal differs from every operand pointer and from every other local
			same := ra.kind == "local" && rb.kind == "local" && ra.name == rb.name
			if (e.Op == token.EQL) == same {
				return "true", cBool
			}
			return "false", cBool
		}
		a := t.asSrc(ra, "pointer comparison")
		b := t.asSrc(rb, "pointer comparison")
		op := map[token.Token]string{token.EQL: "==", token.NEQ: "!="}[e.Op]
		return "(" + a + " " + op + " " + b + ")", cBool
	}
	if (e.Op == token.EQL || e.Op == token.NEQ) && xc == cCtx && identName(e.Y) == "nil" {
		// the model's contexts are values: a *Context is never nil
		t.expr(e.X)
		if e.Op == token.NEQ {
			return "true", cBool
		}
		return "false", cBool
	}
	if (e.Op == token.EQL || e.Op == token.NEQ) && xc == cErr && identName(e.Y) == "nil" {
		x, _ := t.expr(e.X)
		op := map[token.Token]string{token.EQL: "==", token.NEQ: "!="}[e.Op]
		return "(" + x + " " + op + " ErrKind.none)", cBool
	}
	x, xc := t.expr(e.X)
	y, yc2 := t.expr(e.Y)
	_ = yc2
	unsigned := xc == cNat
	switch e.Op {
	case token.EQL:
		return "(" + x + " == " + y + ")", cBool
	case token.NEQ:
		return "(" + x + " != " + y + ")", cBool
	case token.LSS:
		return "(decide (" + x + " < " + y + "))", cBool
	case token.LEQ:
		return "(decide (" + x + " ≤ " + y + "))", cBool
	case token.GTR:
		return "(decide (" + x + " > " + y + "))", cBool
	case token.GEQ:
		return "(decide (" + x + " ≥ " + y + "))", cBool
	case token.OR:
		if xc == cCond {
			return "(" + x + " ||| " + y + ")", cCond
		}
	case token.AND:
		if xc == cCond {
			return "(" + x + " &&& " + y + ")", cCond
		}
	case token.ADD:
		if xc == cInt || xc == cNat {
			return "(" + x + " + " + y + ")", xc
		}
	case token.SUB:
		if unsigned {
			// exact when it does not wrap around; the widths of unsigned fields are not modelled (c.prec : Nat)
			return "(usub " + x + " " + y + ")", cNat
		}
		if xc == cInt {
			return "(" + x + " - " + y + ")", xc
		}
	case token.MUL:
		if xc == cInt || xc == cNat {
			return "(" + x + " * " + y + ")", xc
		}
	case token.QUO:
		if xc == cNat {
			return "(" + x + " / " + y + ")", xc
		}
		if xc == cInt {
			return "(Int.tdiv " + x + " " + y + ")", xc
		}
	case token.REM:
		if xc == cNat {
			return "(" + x + " % " + y + ")", xc
		}
		if xc == cInt {
			return "(Int.tmod " + x + " " + y + ")", xc
		}
	}
	return t.fail("binary %s on %s", e.Op, exprString(e.X)), cUnknown
}

func intInfo(ty types.Type) (width int, signed bool, ok bool) {
	b, isB := ty.Underlying().(*types.Basic)
	if !isB || b.Info()&types.IsInteger == 0 {
		return 0, false, false
	}
	switch b.Kind() {
	case types.Int8, types.Uint8:
		width = 8
	case types.Int16, types.Uint16:
		width = 16
	case types.Int32, types.Uint32:
		width = 32
	case types.Int64, types.Uint64, types.Int, types.Uint:
		width = 64
	default:
		return 0, false, false
	}
	return width, b.Info()&types.IsUnsigned == 0, true
}

func (t *itr) conversion(e *ast.CallExpr, to types.Type) (string, cat) {
	from := goType(e.Args[0])
	x, xc := t.expr(e.Args[0])
	tw, ts, ok1 := intInfo(to)
	fw, fs, ok2 := intInfo(from)
	if !ok1 || !ok2 || classify(to) == cCond || classify(from) == cCond {
		return t.fail("conversion %s -> %s", from, to), cUnknown
	}
	_ = xc
	switch {
	case fs && ts:
		if tw >= fw {
			return x, cInt
		}
		if tw == 32 {
			return "(narrow32 " + x + ")", cInt
		}
	case !fs && ts:
		if tw > fw {
			return "(" + x + " : Int)", cInt
		}
		if tw == 32 {
			return "(narrow32 (" + x + " : Int))", cInt
		}
	case !fs && !ts:
		if tw >= fw {
			return x, cNat
		}
	case fs && !ts:
		if tw == 32 || tw == 64 {
			return "(toU32 " + x + ")", cNat
		}
	}
	return t.fail("conversion %s -> %s", from, to), cUnknown
}

// errorValue classifies errors.New / fmt.Errorf
func (t *itr) errorValue(e *ast.CallExpr) (string, bool) {
	se, ok := e.Fun.(*ast.SelectorExpr)
	if !ok {
		return "", false
	}
	pk := identName(se.X)
	switch {
	case pk == "errors" && se.Sel.Name == "New" && len(e.Args) == 1:
		a := e.Args[0]
		if tv, ok := info.Types[a]; ok && tv.Value != nil && tv.Value.Kind() == constant.String {
			s := constant.StringVal(tv.Value)
			switch s {
			case constant.StringVal(constVal("errExponentOutOfRangeStr")):
				return "ErrKind.sys", true
			case constant.StringVal(constVal("errZeroPrecisionStr")):
				return "ErrKind.zeroPrec", true
			}
			return "ErrKind.other", true
		}
		if c, ok := a.(*ast.CallExpr); ok {
			if s2, ok := c.Fun.(*ast.SelectorExpr); ok && s2.Sel.Name == "String" && classify(goType(s2.X)) == cCond {
				return "ErrKind.trap", true
			}
		}
		return t.fail("errors.New argument"), true
	case pk == "fmt" && se.Sel.Name == "Errorf" && len(e.Args) >= 1:
		if tv, ok := info.Types[e.Args[0]]; ok && len(e.Args) == 2 && tv.Value != nil && strings.HasSuffix(constant.StringVal(tv.Value), ": %w") {
			x, c := t.expr(e.Args[1])
			if c == cErr {
				return x, true // a wrapped error keeps its class
			}
		}
		if tv, ok := info.Types[e.Args[0]]; ok && tv.Value != nil && !strings.Contains(constant.StringVal(tv.Value), "%w") {
			return "ErrKind.other", true // a fresh error value (its text is not modelled)
		}
		return t.fail("fmt.Errorf form"), true
	}
	return "", false
}

// call translates a call; returns the Go results (as Lean expressions) and their categories.
func (t *itr) call(e *ast.CallExpr, stmt bool) ([]string, []cat) {
	one := func(s string, c cat) ([]string, []cat) { return []string{s}, []cat{c} }
	if tv, ok := info.Types[e.Fun]; ok && tv.IsType() {
		return one(t.conversion(e, tv.Type))
	}
	if s, ok := t.errorValue(e); ok {
		return one(s, cErr)
	}
	switch f := e.Fun.(type) {
	case *ast.Ident:
		switch f.Name {
		case "NumDigits":
			if len(e.Args) == 1 {
				b := t.bigRef(e.Args[0])
				t.noSign(b, "NumDigits")
				return one("(Apd.ndigits "+t.readBig(b)+" : Int)", cInt)
			}
		case "tableExp10":
			b := t.bigRef(e)
			return one(b.name, cBig)
		}
		if sig := impSigs[f.Name]; sig != nil {
			return t.callSig(sig, nil, e.Args, stmt)
		}
		return one(t.fail("call of %s (not translated)", f.Name), cUnknown)
	case *ast.SelectorExpr:
		rc := t.catOf(f.X)
		if rc == cUnknown {
			if ty := goType(f.X); ty != nil {
				rc = classify(ty)
			}
		}
		switch rc {
		case cBig, cBigPtr:
			return t.bigMethod(f.X, f.Sel.Name, e.Args)
		case cMode:
			if f.Sel.Name == "ShouldAddOne" && len(e.Args) == 3 {
				m, _ := t.expr(f.X)
				b := t.bigRef(e.Args[0])
				t.noSign(b, "ShouldAddOne")
				n, _ := t.expr(e.Args[1])
				h, _ := t.expr(e.Args[2])
				// the callee dereferences `result` after all the arguments have been evaluated
				bv := t.readBig(b)
				return one(fmt.Sprintf("(Apd.shouldAddOne %s %s %s %s)", m, bv, n, h), cBool)
			}
		case cED, cEDPtr:
			if ok := t.edKernel(f.X, f.Sel.Name, e.Args); ok {
				return []string{droppedResult}, []cat{cUnit}
			}
		case cCtx:
			if rs, cs, ok := t.ctxKernel(f.X, f.Sel.Name, e.Args); ok {
				return rs, cs
			}
			if f.Sel.Name == "WithPrecision" && len(e.Args) == 1 {
				// kernel: a copy of the context with another precision
				cx, _ := t.expr(f.X)
				p, pc := t.expr(e.Args[0])
				if pc != cNat {
					return one(t.fail("WithPrecision argument"), cUnknown)
				}
				return one("{ "+cx+" with prec := "+p+" }", cCtx)
			}
		case cDec:
			if t.allLocalDecArgs(e.Args) {
				return t.localDecMethod(f.X, f.Sel.Name, e.Args)
			}
			// a local receiver with heap operands: the translated method, specialised to the local (variantOf)
		case cDecPtr:
			if u, ok := f.X.(*ast.UnaryExpr); ok && u.Op == token.AND && t.allLocalDecArgs(e.Args) {
				return t.localDecMethod(u.X, f.Sel.Name, e.Args)
			}
		}
		if k := calleeKey(e); k != "" {
			if sig := impSigs[k]; sig != nil {
				return t.callSig(sig, f.X, e.Args, stmt)
			}
			return one(t.fail("call of %s (not translated)", k), cUnknown)
		}
	}
	return one(t.fail("call %s", exprString(e)), cUnknown)
}

// callSig calls a translated function.
func (t *itr) callSig(sig *isig, recv ast.Expr, args []ast.Expr, stmt bool) ([]string, []cat) {
	var actuals []ast.Expr
	if sig.hasRecv {
		actuals = append(actuals, recv)
	}
	actuals = append(actuals, args...)
	// f(g(…)): the results of g are the arguments
	var spread []string
	if len(args) == 1 && len(sig.params)-boolInt(sig.hasRecv) > 1 {
		if inner, ok := args[0].(*ast.CallExpr); ok {
			rs, _ := t.call(inner, false)
			if len(rs) != len(sig.params)-boolInt(sig.hasRecv) {
				t.fail("call of %s with the results of %s: arity", sig.key, exprString(inner))
				return []string{"sorryUnsupported"}, []cat{cUnknown}
			}
			spread = rs
		}
	}
	// addresses of local Decimals: the callee is specialised to them
	var locIdx []int
	for i, p := range sig.params {
		if p.cat == cDecPtr && (p.kind == pCell || p.kind == pOptCell) && i < len(actuals) && identName(actuals[i]) != "nil" {
			a := actuals[i]
			isLoc := false
			if u, ok := a.(*ast.UnaryExpr); ok && u.Op == token.AND {
				if v := t.env.vars[identName(u.X)]; v != nil && v.cat == cDec {
					isLoc = true
				}
			} else if v := t.env.vars[identName(a)]; v != nil && v.cat == cDec {
				isLoc = true
			}
			if isLoc {
				locIdx = append(locIdx, i)
			}
		}
	}
	if len(locIdx) > 0 {
		vs := variantOf(sig, locIdx)
		if vs == nil {
			t.fail("call of %s with local Decimals: variant not translated", sig.key)
			return []string{"sorryUnsupported"}, []cat{cUnknown}
		}
		sig = vs
	}
	var as []string
	type wb struct {
		big bigRef
		id  string
		k   pkind
	}
	var wbs []wb
	var deferred []int
	np := len(sig.params)
	for i, p := range sig.params {
		if spread != nil && !(sig.hasRecv && i == 0) {
			as = append(as, spread[i-boolInt(sig.hasRecv)])
			continue
		}
		if sig.variadic && i == np-1 {
			var xs []string
			for _, a := range actuals[i:] {
				x, _ := t.expr(a)
				xs = append(xs, x)
			}
			as = append(as, "["+strings.Join(xs, ", ")+"]")
			break
		}
		if i >= len(actuals) {
			t.fail("call of %s: too few arguments", sig.key)
			break
		}
		a := actuals[i]
		switch p.kind {
		case pCell:
			r := t.decRef(a)
			if r.kind != "cell" {
				t.fail("call of %s: argument %s must be a destination cell, is %s", sig.key, p.name, r.kind)
			}
			as = append(as, r.name)
		case pSrc:
			as = append(as, t.asSrc(t.decRef(a), "call of "+sig.key))
		case pOptSrc:
			r := t.decRef(a)
			switch r.kind {
			case "nil":
				as = append(as, "none")
			case "opt":
				as = append(as, r.name)
			default:
				as = append(as, "(some "+t.asSrc(r, "call of "+sig.key)+")")
			}
		case pDecIO:
			r := t.decRef(a)
			if r.kind != "local" {
				t.fail("call of %s: argument %s must be a local Decimal", sig.key, p.name)
			}
			as = append(as, r.name)
			wbs = append(wbs, wb{id: r.name, k: pDecIO})
		case pBigIn:
			b := t.bigRef(a)
			v := t.readBig(b)
			if sg, ok := t.signOf(b); ok {
				as = append(as, "(bigInt "+sg+" "+v+")")
			} else {
				as = append(as, "("+v+" : Int)")
			}
		case pEDIO:
			id := identName(a)
			if u, ok := a.(*ast.UnaryExpr); ok && u.Op == token.AND {
				id = identName(u.X)
			}
			v := t.env.vars[id]
			if v == nil || (v.cat != cED && v.cat != cLoop) || v.kind != vVal {
				t.fail("call of %s: the struct must be a local", sig.key)
			}
			as = append(as, id)
			wbs = append(wbs, wb{id: id, k: pEDIO})
		case pDecIn:
			r := t.decRef(a)
			if r.kind != "local" {
				t.fail("call of %s: argument %s must be a local Decimal", sig.key, p.name)
			}
			as = append(as, r.name)
		case pOptCell:
			r := t.decRef(a)
			switch r.kind {
			case "nil":
				as = append(as, "none")
			case "optcell":
				as = append(as, r.name)
			case "cell":
				as = append(as, "(some "+r.name+")")
			default:
				as = append(as, t.fail("call of %s: argument %s must be nil or a destination cell, is %s", sig.key, p.name, r.kind))
			}
		case pBigIO:
			// the callee dereferences the pointer after all the arguments have been evaluated
			b := t.bigRef(a)
			t.noSign(b, "call of "+sig.key)
			deferred = append(deferred, len(as))
			as = append(as, "")
			wbs = append(wbs, wb{big: b, k: pBigIO})
		case pIntIO:
			id := ""
			if u, ok := a.(*ast.UnaryExpr); ok && u.Op == token.AND {
				id = identName(u.X)
			} else {
				id = identName(a)
			}
			v := t.env.vars[id]
			if v == nil || v.cat != cInt || v.kind != vVal {
				t.fail("call of %s: argument %s must be the address of an integer local", sig.key, p.name)
			}
			as = append(as, id)
			wbs = append(wbs, wb{id: id, k: pIntIO})
		case pBPtr:
			// the address of a scratch big integer is given away
			if u, ok := a.(*ast.UnaryExpr); ok && u.Op == token.AND {
				id := identName(u.X)
				if v := t.env.vars[id]; v != nil && v.cat == cBig && v.kind == vVal {
					as = append(as, "(BPtr.val "+id+")")
					v.moved = true
					break
				}
			}
			if id := identName(a); id != "" {
				if v := t.env.vars[id]; v != nil && v.kind == vBPtr {
					as = append(as, id)
					break
				}
			}
			as = append(as, t.fail("call of %s: *BigInt argument %s", sig.key, exprString(a)))
		default:
			x, _ := t.expr(a)
			as = append(as, x)
		}
	}
	{
		j := 0
		for _, w := range wbs {
			if w.k == pBigIO {
				as[deferred[j]] = t.readBig(w.big)
				j++
			}
		}
	}
	if sig.fuel {
		if !t.sig.fuel {
			t.fail("call of %s (which has loops) from a function without fuel", sig.key)
		}
		as = append([]string{"fuel"}, as...)
	}
	app := sig.key
	if len(as) > 0 {
		app += " " + strings.Join(as, " ")
	}
	n := sig.nres()
	var res string
	if sig.monadic {
		if !t.monadic {
			t.fail("call of the heap program %s in pure code", sig.key)
		}
		switch {
		case n == 0:
			t.emit("%s", app)
		case stmt && len(wbs) == 0:
			t.emit("let _ ← %s", app)
			n = 0
		default:
			res = t.bind(app)
		}
	} else if n > 0 {
		if n > 1 || len(wbs) > 0 {
			res = t.fresh()
			t.emit("let %s := %s", res, app)
		} else {
			res = "(" + app + ")"
		}
	}
	var rs []string
	var cs []cat
	k := 0
	for i, c := range sig.goResults {
		if _, dropped := sig.drop[i]; dropped {
			rs = append(rs, droppedResult)
			cs = append(cs, cUnit)
			continue
		}
		if n == 0 {
			rs = append(rs, "()")
		} else {
			rs = append(rs, proj(res, k, n))
		}
		cs = append(cs, c)
		k++
	}
	if n > 0 {
		for j, w := range wbs {
			v := proj(res, len(sig.results)+j, n)
			switch w.k {
			case pBigIO:
				t.writeBig(w.big, v)
			case pIntIO:
				t.define(w.id, cInt, vVal, v)
			case pDecIO:
				t.define(w.id, cDec, vVal, v)
			case pEDIO:
				t.define(w.id, t.env.vars[w.id].cat, vVal, v)
			}
		}
	}
	return rs, cs
}

func boolInt(b bool) int {
	if b {
		return 1
	}
	return 0
}

// droppedResult stands for a Go result that is one of the callee's own pointers (its receiver, a *BigInt parameter)
const droppedResult = "\x00dropped"

// ctxOps: the value-level model (Model/*.lean) of the Context methods, used when every Decimal involved is a local
// or a package constant (no heap access at all), as Imp/Ops.lean and Imp/TransOps.lean do
var ctxOps = map[string]struct {
	fn    string
	extra string
	pair  bool // returns Dec × Cond (a Condition result) instead of Out (Condition, error)
}{
	"round": {"Apd.ctxRound", "", true},
	"Mul":   {"Apd.mulOp", "", false}, "Add": {"Apd.addOp", " false", false}, "Sub": {"Apd.addOp", " true", false},
	"Quo": {"Apd.quoOp", "", false}, "Abs": {"Apd.absOp", "", false}, "Neg": {"Apd.negOp", "", false},
	"Round": {"Apd.roundOp", "", false}, "Rem": {"Apd.remOp", "", false}, "QuoInteger": {"Apd.quoIntegerOp", "", false},
}

// ctxKernel: `c.Op(&d, &x, …)` with every Decimal argument a local or a constant
func (t *itr) ctxKernel(recv ast.Expr, name string, args []ast.Expr) ([]string, []cat, bool) {
	op, ok := ctxOps[name]
	if !ok || len(args) == 0 || !t.allLocalDecArgs(args) {
		return nil, nil, false
	}
	for _, a := range args {
		if ty := goType(a); ty == nil || classify(ty) != cDecPtr {
			return nil, nil, false
		}
	}
	dst := t.decRef(args[0])
	if dst.kind != "local" {
		return nil, nil, false
	}
	cx, _ := t.expr(recv)
	app := op.fn + " " + cx
	for _, a := range args[1:] {
		r := t.decRef(a)
		if r.kind != "local" && r.kind != "const" {
			return nil, nil, false
		}
		app += " " + r.name
	}
	app += op.extra
	o := t.fresh()
	t.emit("let %s := %s", o, app)
	if op.pair {
		t.define(dst.name, cDec, vVal, o+".1")
		return []string{o + ".2"}, []cat{cCond}, true
	}
	t.define(dst.name, cDec, vVal, o+".d")
	return []string{o + ".fl", o + ".err"}, []cat{cCond, cErr}, true
}

// edKernel: `ed.Op(&d, &x, …)` with every Decimal argument a local or a constant: `ED.step` of Model/Trans.lean (the
// wrapper skipped after an error, else the value-level operation under `ed.Ctx`, flags accumulated, error recorded)
func (t *itr) edKernel(recv ast.Expr, name string, args []ast.Expr) bool {
	op, ok := ctxOps[name]
	if !ok || op.pair || len(args) == 0 || !t.allLocalDecArgs(args) {
		return false
	}
	ed := identName(recv)
	if v := t.env.vars[ed]; v == nil || v.cat != cED || v.kind != vVal {
		return false
	}
	for _, a := range args {
		if ty := goType(a); ty == nil || classify(ty) != cDecPtr {
			return false
		}
	}
	dst := t.decRef(args[0])
	if dst.kind != "local" {
		return false
	}
	app := "fun c => " + op.fn + " c"
	for _, a := range args[1:] {
		r := t.decRef(a)
		if r.kind != "local" && r.kind != "const" {
			return false
		}
		app += " " + r.name
	}
	app += op.extra
	o := t.fresh()
	t.emit("let %s := Apd.ED.step %s %s (%s)", o, ed, dst.name, app)
	t.define(ed, cED, vVal, o+".1")
	t.define(dst.name, cDec, vVal, o+".2")
	return true
}

// allLocalDecArgs: every *Decimal argument is a local or a package constant (then the method of a local receiver
// is a value-level kernel)
func (t *itr) allLocalDecArgs(args []ast.Expr) bool {
	for _, a := range args {
		if ty := goType(a); ty != nil && classify(ty) == cDecPtr {
			if call, ok := a.(*ast.CallExpr); ok && identName(call.Fun) == "New" {
				continue
			}
			id := identName(a)
			if u, ok := a.(*ast.UnaryExpr); ok && u.Op == token.AND {
				id = identName(u.X)
				if se, ok := u.X.(*ast.SelectorExpr); ok && t.catOf(se) == cDec {
					continue
				}
			}
			if v := t.env.vars[id]; v != nil {
				if v.cat != cDec {
					return false
				}
				continue
			}
			if id == "nil" {
				return false
			}
			// package-level constant
		}
	}
	return true
}

// localDecMethod: a method of a local (value) Decimal is the value-level kernel of Model/
func (t *itr) localDecMethod(recv ast.Expr, name string, args []ast.Expr) ([]string, []cat) {
	one := func(s string, c cat) ([]string, []cat) { return []string{s}, []cat{c} }
	r := t.decRef(recv)
	if r.kind != "local" {
		return one(t.fail("method %s on %s", name, exprString(recv)), cUnknown)
	}
	localArg := func(a ast.Expr) string {
		ar := t.decRef(a)
		if ar.kind == "local" {
			return ar.name
		}
		t.fail("%s.%s: argument %s is not a local Decimal", r.name, name, exprString(a))
		return "sorryUnsupported"
	}
	valArg := func(a ast.Expr) string {
		ar := t.decRef(a)
		switch ar.kind {
		case "local", "const":
			return ar.name
		}
		t.fail("%s.%s: argument %s is not a local or constant Decimal", r.name, name, exprString(a))
		return "sorryUnsupported"
	}
	switch {
	case name == "Modf" && len(args) == 2:
		i, f := localArg(args[0]), localArg(args[1])
		if i == f || i == r.name || f == r.name {
			return one(t.fail("Modf with aliased locals"), cUnknown)
		}
		m := t.fresh()
		t.emit("let %s := Apd.modf %s", m, r.name)
		t.define(i, cDec, vVal, m+".1")
		t.define(f, cDec, vVal, m+".2")
		return nil, nil
	case name == "Abs" && len(args) == 1:
		t.define(r.name, cDec, vVal, "Apd.Dec.absD "+localArg(args[0]))
		return nil, nil
	case name == "Neg" && len(args) == 1:
		t.define(r.name, cDec, vVal, "Apd.Dec.negD "+localArg(args[0]))
		return nil, nil
	case name == "Set" && len(args) == 1:
		t.define(r.name, cDec, vVal, valArg(args[0]))
		return nil, nil
	case name == "IsZero" && len(args) == 0:
		return one("(Apd.Dec.isZero "+r.name+")", cBool)
	case name == "NumDigits" && len(args) == 0:
		return one("(Apd.ndigits "+r.name+".coeff : Int)", cInt)
	case name == "Sign" && len(args) == 0:
		return one("(Apd.Dec.sign "+r.name+")", cInt)
	case name == "Cmp" && len(args) == 1:
		return one("(Apd.Dec.cmp "+r.name+" "+valArg(args[0])+")", cInt)
	}
	// any other method: the translated function, specialised to the local receiver
	if rt := goType(recv); rt != nil {
		if n, ok := derefNamed(rt); ok {
			if sig := impSigs[n+"_"+name]; sig != nil {
				return t.callSig(sig, recv, args, false)
			}
		}
	}
	return one(t.fail("method %s of a local Decimal", name), cUnknown)
}

func derefNamed(ty types.Type) (string, bool) {
	if p, ok := ty.(*types.Pointer); ok {
		ty = p.Elem()
	}
	if n, ok := ty.(*types.Named); ok {
		return n.Obj().Name(), true
	}
	return "", false
}

// bigMethod: BigInt methods read their operands in order, then write the receiver.
func (t *itr) bigMethod(recv ast.Expr, name string, args []ast.Expr) ([]string, []cat) {
	one := func(s string, c cat) ([]string, []cat) { return []string{s}, []cat{c} }
	z := t.bigRef(recv)
	if !z.ok {
		return one("sorryUnsupported", cUnknown)
	}
	arg := func(i int) bigRef { return t.bigRef(args[i]) }
	clearPlace := func(b bigRef) {
		if _, ok := t.env.sign[b.place()]; ok {
			t.defineSign(b.place(), "false")
			delete(t.env.sign, b.place())
		}
	}
	clearSign := func() { clearPlace(z) }
	switch {
	case name == "Sign" && len(args) == 0:
		v := t.readBig(z)
		if s, ok := t.signOf(z); ok {
			return one("(bigSign "+s+" "+v+")", cInt)
		}
		return one("(natSign "+v+")", cInt)
	case name == "Bit" && len(args) == 1:
		if tv, ok := info.Types[args[0]]; ok && tv.Value != nil && tv.Value.ExactString() == "0" {
			return one("("+t.readBig(z)+" % 2)", cNat)
		}
		return one(t.fail("BigInt.Bit of a non-zero index"), cUnknown)
	case name == "IsUint64" && len(args) == 0:
		t.noSign(z, "IsUint64")
		return one("(decide ("+t.readBig(z)+" < 18446744073709551616))", cBool)
	case name == "Uint64" && len(args) == 0:
		// the low 64 bits of the magnitude
		return one("("+t.readBig(z)+" % 18446744073709551616)", cNat)
	case name == "SetUint64" && len(args) == 1:
		x, xc := t.expr(args[0])
		if xc != cNat {
			return one(t.fail("SetUint64 argument"), cUnknown)
		}
		t.writeBig(z, x)
		clearSign()
		return nil, nil
	case name == "Cmp" && len(args) == 1:
		y := arg(0)
		t.noSign(z, "Cmp")
		t.noSign(y, "Cmp")
		a := t.readBig(z)
		b := t.readBig(y)
		return one("(Apd.cmpNat "+a+" "+b+")", cInt)
	case name == "Set" && len(args) == 1:
		x := arg(0)
		sx, has := t.signOf(x)
		t.writeBig(z, t.readBig(x))
		if has {
			t.defineSign(z.place(), sx)
		} else {
			clearSign()
		}
		return nil, nil
	case name == "Rsh" && len(args) == 2:
		x := arg(0)
		n, nc := t.expr(args[1])
		if nc != cNat && nc != cInt {
			return one(t.fail("Rsh count"), cUnknown)
		}
		sx, has := t.signOf(x)
		v := t.readBig(x)
		if has {
			// arithmetic shift of a signed value: the magnitude of floor(x / 2^n)
			t.writeBig(z, "(bigRshMag "+sx+" "+v+" "+n+")")
			t.defineSign(z.place(), sx)
		} else {
			t.writeBig(z, "("+v+" / 2 ^ "+n+")")
			clearSign()
		}
		return nil, nil
	case name == "SetInt64" && len(args) == 1:
		x, _ := t.expr(args[0])
		t.writeBig(z, "(Int.natAbs "+x+")")
		if tv, ok := info.Types[args[0]]; ok && tv.Value != nil && constant.Sign(tv.Value) >= 0 {
			clearSign() // a non-negative constant
			return nil, nil
		}
		t.defineSign(z.place(), "(decide ("+x+" < 0))")
		return nil, nil
	case name == "Abs" && len(args) == 1:
		x := arg(0)
		t.writeBig(z, t.readBig(x))
		clearSign()
		return nil, nil
	case name == "Neg" && len(args) == 1:
		x := arg(0)
		sx, has := t.signOf(x)
		t.writeBig(z, t.readBig(x))
		if has {
			t.defineSign(z.place(), "(!"+sx+")")
		} else {
			t.defineSign(z.place(), "true")
		}
		return nil, nil
	case (name == "Add" || name == "Mul" || name == "Quo" || name == "Rem") && len(args) == 2:
		x, y := arg(0), arg(1)
		t.noSign(x, name)
		t.noSign(y, name)
		a := t.readBig(x)
		b := t.readBig(y)
		op := map[string]string{"Add": "+", "Mul": "*", "Quo": "/", "Rem": "%"}[name]
		t.writeBig(z, "("+a+" "+op+" "+b+")")
		clearSign()
		return nil, nil
	case name == "Sub" && len(args) == 2:
		x, y := arg(0), arg(1)
		t.noSign(x, name)
		t.noSign(y, name)
		a := t.readBig(x)
		b := t.readBig(y)
		d := t.fresh()
		t.emit("let %s : Int := ((%s : Int) - (%s : Int))", d, a, b)
		t.writeBig(z, "(Int.natAbs "+d+")")
		t.defineSign(z.place(), "(decide ("+d+" < 0))")
		return nil, nil
	case name == "QuoRem" && len(args) == 3:
		x, y, r := arg(0), arg(1), arg(2)
		t.noSign(x, name)
		t.noSign(y, name)
		if r.place() == z.place() {
			return one(t.fail("QuoRem with aliased results"), cUnknown)
		}
		a := t.readBig(x)
		b := t.readBig(y)
		q, m := t.fresh(), t.fresh()
		t.emit("let %s : Nat := (%s / %s)", q, a, b)
		t.emit("let %s : Nat := (%s %% %s)", m, a, b)
		t.writeBig(z, q)
		t.writeBig(r, m)
		clearSign()
		clearPlace(r)
		return nil, nil
	}
	return one(t.fail("BigInt.%s", name), cUnknown)
}
