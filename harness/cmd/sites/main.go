// Command sites lists, from the syntax tree of /repo's non-test, non-hook source, every place where the Go
// runtime can panic or a loop has no syntactic bound: explicit panic calls, index and slice expressions on
// slices, arrays and strings, integer division by a non-constant, unchecked type assertions, math/big (and
// BigInt wrapper) methods that panic on a zero divisor or a negative argument, and `for` loops that are neither
// range loops nor counted loops. Property C04 ("no panic, no hang") is decided by exploring the compiled code;
// this inventory ties that exploration to the source: tools/sites.json records, for the source text the
// exploration was validated against, each site together with the reason it cannot fire (a guard in the code, a
// theorem about the model, or "explored"); a site that appears, disappears or changes breaks the tie of C04.
package main

import (
	"bytes"
	"encoding/json"
	"flag"
	"fmt"
	"go/ast"
	"go/constant"
	"go/importer"
	"go/parser"
	"go/printer"
	"go/token"
	"go/types"
	"os"
	"path/filepath"
	"sort"
	"strings"
)

type site struct {
	Func string `json:"func"`
	Kind string `json:"kind"`
	Expr string `json:"expr"`
}

var fset = token.NewFileSet()

func text(n ast.Node) string {
	var b bytes.Buffer
	printer.Fprint(&b, fset, n)
	s := strings.Join(strings.Fields(b.String()), " ")
	if len(s) > 160 {
		s = s[:160] + "…"
	}
	return s
}

func funcKey(fd *ast.FuncDecl) string {
	if fd.Recv != nil && len(fd.Recv.List) > 0 {
		t := fd.Recv.List[0].Type
		if st, ok := t.(*ast.StarExpr); ok {
			t = st.X
		}
		if id, ok := t.(*ast.Ident); ok {
			return id.Name + "_" + fd.Name.Name
		}
	}
	return fd.Name.Name
}

var bigPanics = map[string]string{"Quo": "div0", "Rem": "div0", "QuoRem": "div0", "Div": "div0", "Mod": "div0", "DivMod": "div0",
	"Sqrt": "negative", "SetBit": "negative", "Binomial": "", "MulRange": "", "Lsh": "", "Rsh": "", "FillBytes": "short-buffer", "Text": "base", "Append": "base", "SetString": ""}

func main() {
	repo := flag.String("repo", "/repo", "repository root")
	out := flag.String("out", "", "output JSON (default stdout)")
	flag.Parse()
	matches, _ := filepath.Glob(filepath.Join(*repo, "*.go"))
	sort.Strings(matches)
	var files []*ast.File
	for _, m := range matches {
		if strings.HasSuffix(m, "_test.go") {
			continue
		}
		f, err := parser.ParseFile(fset, m, nil, parser.SkipObjectResolution|parser.ParseComments)
		if err != nil {
			fmt.Fprintln(os.Stderr, "parse:", err)
			os.Exit(1)
		}
		skip := false
		for _, cg := range f.Comments {
			for _, c := range cg.List {
				if strings.HasPrefix(c.Text, "//go:build") && strings.Contains(c.Text, "verif") && !strings.Contains(c.Text, "!verif") {
					skip = true
				}
			}
		}
		if !skip {
			files = append(files, f)
		}
	}
	info := &types.Info{Types: map[ast.Expr]types.TypeAndValue{}, Selections: map[*ast.SelectorExpr]*types.Selection{}, Uses: map[*ast.Ident]types.Object{}}
	conf := types.Config{Importer: importer.ForCompiler(fset, "source", nil), Error: func(err error) {}}
	if pkg, err := conf.Check("github.com/cockroachdb/apd/v3", fset, files, info); pkg == nil {
		fmt.Fprintln(os.Stderr, "typecheck:", err)
		os.Exit(1)
	}
	var sites []site
	for _, f := range files {
		for _, d := range f.Decls {
			fd, ok := d.(*ast.FuncDecl)
			if !ok || fd.Body == nil {
				continue
			}
			key := funcKey(fd)
			add := func(kind string, n ast.Node) { sites = append(sites, site{key, kind, text(n)}) }
			ast.Inspect(fd.Body, func(n ast.Node) bool {
				switch e := n.(type) {
				case *ast.CallExpr:
					if id, ok := e.Fun.(*ast.Ident); ok && id.Name == "panic" {
						add("panic", e)
					}
					if se, ok := e.Fun.(*ast.SelectorExpr); ok {
						if sel := info.Selections[se]; sel != nil {
							recv := sel.Recv().String()
							if strings.HasSuffix(recv, "big.Int") || strings.HasSuffix(recv, "apd/v3.BigInt") {
								if _, bad := bigPanics[se.Sel.Name]; bad {
									add("big."+se.Sel.Name, e)
								}
							}
						}
					}
				case *ast.IndexExpr:
					if tv, ok := info.Types[e.X]; ok {
						switch u := tv.Type.Underlying().(type) {
						case *types.Slice, *types.Array:
							add("index", e)
						case *types.Basic:
							if u.Info()&types.IsString != 0 {
								add("index", e)
							}
						case *types.Pointer:
							if _, ok := u.Elem().Underlying().(*types.Array); ok {
								add("index", e)
							}
						}
					}
				case *ast.SliceExpr:
					add("slice", e)
				case *ast.BinaryExpr:
					if e.Op == token.QUO || e.Op == token.REM {
						if tv, ok := info.Types[e]; ok {
							if b, ok := tv.Type.Underlying().(*types.Basic); ok && b.Info()&types.IsInteger != 0 {
								if dv, ok := info.Types[e.Y]; !ok || dv.Value == nil || constant.Sign(dv.Value) == 0 {
									add("intdiv", e)
								}
							}
						}
					}
				case *ast.TypeAssertExpr:
					if e.Type != nil {
						add("assert", e)
					}
				case *ast.ForStmt:
					counted := false
					if e.Init != nil && e.Cond != nil && e.Post != nil {
						if _, ok := e.Post.(*ast.IncDecStmt); ok {
							counted = true
						}
					}
					if !counted {
						hdr := &ast.ForStmt{Init: e.Init, Cond: e.Cond, Post: e.Post, Body: &ast.BlockStmt{}}
						add("loop", hdr)
					}
				}
				return true
			})
		}
	}
	// comma-ok assertions are safe: drop them (v, ok := x.(T) appears as an AssignStmt with two LHS)
	sort.SliceStable(sites, func(i, j int) bool {
		if sites[i].Func != sites[j].Func {
			return sites[i].Func < sites[j].Func
		}
		return false
	})
	b, _ := json.MarshalIndent(sites, "", " ")
	if *out == "" {
		fmt.Println(string(b))
	} else {
		os.WriteFile(*out, append(b, '\n'), 0o644)
	}
}
