// Command race runs Context operations from many goroutines over SHARED contexts and operand
// decimals (each goroutine with its own destinations) and compares every result with a sequential
// baseline. Built with -race, so data races are reported by the Go race detector (exit code 66).
package main

import (
	"bufio"
	"flag"
	"fmt"
	"math/rand"
	"os"
	"sync"

	"github.com/cockroachdb/apd/v3"
)

type kase struct {
	op   int
	c    *apd.Context
	x, y *apd.Decimal
	exp  int32
	want string
}

var opNames = []string{"add", "sub", "mul", "quo", "quoint", "rem", "abs", "neg", "round", "reduce", "cmp", "quantize",
	"rtie", "rtiv", "ceil", "floor", "sqrt", "cbrt", "exp", "ln", "log10", "pow", "cmpd", "cmptotal", "string", "int64", "modf", "numdigits"}

func run(k *kase) string {
	d := new(apd.Decimal)
	var r apd.Condition
	var err error
	aux := ""
	switch opNames[k.op] {
	case "add":
		r, err = k.c.Add(d, k.x, k.y)
	case "sub":
		r, err = k.c.Sub(d, k.x, k.y)
	case "mul":
		r, err = k.c.Mul(d, k.x, k.y)
	case "quo":
		r, err = k.c.Quo(d, k.x, k.y)
	case "quoint":
		r, err = k.c.QuoInteger(d, k.x, k.y)
	case "rem":
		r, err = k.c.Rem(d, k.x, k.y)
	case "abs":
		r, err = k.c.Abs(d, k.x)
	case "neg":
		r, err = k.c.Neg(d, k.x)
	case "round":
		r, err = k.c.Round(d, k.x)
	case "reduce":
		var n int
		n, r, err = k.c.Reduce(d, k.x)
		aux = fmt.Sprint(n)
	case "cmp":
		r, err = k.c.Cmp(d, k.x, k.y)
	case "quantize":
		r, err = k.c.Quantize(d, k.x, k.exp)
	case "rtie":
		r, err = k.c.RoundToIntegralExact(d, k.x)
	case "rtiv":
		r, err = k.c.RoundToIntegralValue(d, k.x)
	case "ceil":
		r, err = k.c.Ceil(d, k.x)
	case "floor":
		r, err = k.c.Floor(d, k.x)
	case "sqrt":
		r, err = k.c.Sqrt(d, k.x)
	case "cbrt":
		r, err = k.c.Cbrt(d, k.x)
	case "exp":
		r, err = k.c.Exp(d, k.x)
	case "ln":
		r, err = k.c.Ln(d, k.x)
	case "log10":
		r, err = k.c.Log10(d, k.x)
	case "pow":
		r, err = k.c.Pow(d, k.x, k.y)
	case "cmpd":
		aux = fmt.Sprint(k.x.Cmp(k.y))
	case "cmptotal":
		aux = fmt.Sprint(k.x.CmpTotal(k.y))
	case "string":
		aux = k.x.String() + k.x.Text('f')
	case "int64":
		v, e := k.x.Int64()
		aux = fmt.Sprint(v, e != nil)
	case "modf":
		var f apd.Decimal
		k.x.Modf(d, &f)
		aux = f.String()
	case "numdigits":
		aux = fmt.Sprint(k.x.NumDigits(), k.x.Sign(), k.x.IsZero())
	}
	e := ""
	if err != nil {
		e = err.Error()
	}
	return fmt.Sprintf("%s|%d|%s|%s", d.String(), uint32(r), e, aux)
}

func main() {
	n := flag.Int("n", 400, "number of shared cases")
	seed := flag.Int64("seed", 1, "seed")
	gor := flag.Int("goroutines", 16, "goroutines")
	flag.Parse()
	r := rand.New(rand.NewSource(*seed))
	modes := []apd.Rounder{apd.RoundDown, apd.RoundHalfUp, apd.RoundHalfEven, apd.RoundCeiling, apd.RoundFloor, apd.RoundHalfDown, apd.RoundUp, apd.Round05Up}
	// a handful of SHARED contexts (incl. BaseContext-derived) and operands (inline and heap coefficients)
	var ctxs []*apd.Context
	for i := 0; i < 6; i++ {
		ctxs = append(ctxs, &apd.Context{Precision: uint32(1 + r.Intn(30)), MaxExponent: 6144, MinExponent: -6143, Rounding: modes[r.Intn(8)]})
	}
	ctxs = append(ctxs, apd.BaseContext.WithPrecision(20))
	var ops []*apd.Decimal
	for i := 0; i < 40; i++ {
		d := new(apd.Decimal)
		digits := 1 + r.Intn(18)
		if i%3 == 0 {
			digits = 30 + r.Intn(60) // beyond the 128-bit inline array
		}
		s := ""
		for j := 0; j < digits; j++ {
			s += string(rune('0' + r.Intn(10)))
		}
		d.SetString(s)
		d.Exponent = int32(r.Intn(21) - 10 - digits/2)
		d.Negative = r.Intn(4) == 0
		ops = append(ops, d)
	}
	ops = append(ops, apd.New(0, 0), apd.New(1, 0), &apd.Decimal{Form: apd.Infinite}, &apd.Decimal{Form: apd.NaN})
	cases := make([]*kase, *n)
	for i := range cases {
		k := &kase{op: r.Intn(len(opNames)), c: ctxs[r.Intn(len(ctxs))], x: ops[r.Intn(len(ops))], y: ops[r.Intn(len(ops))], exp: int32(r.Intn(9) - 4)}
		cases[i] = k
		k.want = run(k) // sequential baseline
	}
	diffs := make([]int, *n)
	var mu sync.Mutex
	var wg sync.WaitGroup
	for g := 0; g < *gor; g++ {
		wg.Add(1)
		go func(g int) {
			defer wg.Done()
			rr := rand.New(rand.NewSource(*seed + int64(g)*7919))
			for rep := 0; rep < 3; rep++ {
				for _, i := range rr.Perm(*n) {
					if got := run(cases[i]); got != cases[i].want {
						mu.Lock()
						diffs[i]++
						mu.Unlock()
					}
				}
			}
		}(g)
	}
	wg.Wait()
	w := bufio.NewWriter(os.Stdout)
	defer w.Flush()
	for i, k := range cases {
		st := "same"
		if diffs[i] > 0 {
			st = "differs"
		}
		fmt.Fprintf(w, "%d conc %s %d %s %s => %s\n", i+1, opNames[k.op], k.c.Precision, k.x.String(), k.y.String(), st)
	}
}
