// Command race runs Context operations from many goroutines over SHARED contexts and operand
// decimals (each goroutine with its own destinations) and compares every result with a sequential
// baseline. Built with -race, so data races are reported by the Go race detector (exit code 66).
package main

import (
	"bufio"
	"flag"
	"fmt"
	"math/rand"
	"os"
	"sync"

	"github.com/cockroachdb/apd/v3"
)

type kase struct {
	op   int
	c    *apd.Context
	x, y *apd.Decimal
	exp  int32
	want string
}

var opNames = []string{"add", "sub", "mul", "quo", "quoint", "rem", "abs", "neg", "round", "reduce", "cmp", "quantize",
	"rtie", "rtiv", "ceil", "floor", "sqrt", "cbrt", "exp", "ln", "log10", "pow", "cmpd", "cmptotal", "string", "int64", "modf", "numdigits"}

func run(k *kase) string {
	d := new(apd.Decimal)
	var r apd.Condition
	var err error
	aux := ""
	switch opNames[k.op] {
	case "add":
		r, err = k.c.Add(d, k.x, k.y)
	case "sub":
		r, err = k.c.Sub(d, k.x, k.y)
	case "mul":
		r, err = k.c.Mul(d, k.x, k.y)
	case "quo":
		r, err = k.c.Quo(d, k.x, k.y)
	case "quoint":
		r, err = k.c.QuoInteger(d, k.x, k.y)
	case "rem":
		r, err = k.c.Rem(d, k.x, k.y)
	case "abs":
		r, err = k.c.Abs(d, k.x)
	case "neg":
		r, err = k.c.Neg(d, k.x)
	case "round":
		r, err = k.c.Round(d, k.x)
	case "reduce":
		var n int
		n, r, err = k.c.Reduce(d, k.x)
		aux = fmt.Sprint(n)
	case "cmp":
		r, err = k.c.Cmp(d, k.x, k.y)
	case "quantize":
		r, err = k.c.Quantize(d, k.x, k.exp)
	case "rtie":
		r, err = k.c.RoundToIntegralExact(d, k.x)
	case "rtiv":
		r, err = k.c.RoundToIntegralValue(d, k.x)
	case "ceil":
		r, err = k.c.Ceil(d, k.x)
	case "floor":
		r, err = k.c.Floor(d, k.x)
	case "sqrt":
		r, err = k.c.Sqrt(d, k.x)
	case "cbrt":
		r, err = k.c.Cbrt(d, k.x)
	case "exp":
		r, err = k.c.Exp(d, k.x)
	case "ln":
		r, err = k.c.Ln(d, k.x)
	case "log10":
		r, err = k.c.Log10(d, k.x)
	case "pow":
		r, err = k.c.Pow(d, k.x, k.y)
	case "cmpd":
		aux = fmt.Sprint(k.x.Cmp(k.y))
	case "cmptotal":
		aux = fmt.Sprint(k.x.CmpTotal(k.y))
	case "string":
		aux = k.x.String() + k.x.Text('f')
	case "int64":
		v, e := k.x.Int64()
		aux = fmt.Sprint(v, e != nil)
	case "modf":
		var f apd.Decimal
		k.x.Modf(d, &f)
		aux = f.String()
	case "numdigits":
		aux = fmt.Sprint(k.x.NumDigits(), k.x.Sign(), k.x.IsZero())
	}
	e := ""
	if err != nil {
		e = err.Error()
	}
	return fmt.Sprintf("%s|%d|%s|%s", d.String(), uint32(r), e, aux)
}

// mkOperands builds the operand population. It is deterministic in r, so that calling it twice with
// equal generators gives twin populations: one is SHARED by the goroutines and is not touched by
// anything before they start (a first read-only use that writes to its operand is then seen by the
// race detector), the other gives the sequential baseline.
func mkOperands(r *rand.Rand) []*apd.Decimal {
	var ops []*apd.Decimal
	digitsStr := func(digits int) string {
		s := string(rune('1' + r.Intn(9)))
		for j := 1; j < digits; j++ {
			s += string(rune('0' + r.Intn(10)))
		}
		return s
	}
	big := apd.BaseContext.WithPrecision(200)
	for i := 0; i < 48; i++ {
		d := new(apd.Decimal)
		digits := 1 + r.Intn(18)
		switch i % 8 {
		case 0, 3:
			digits = 30 + r.Intn(60) // beyond the 128-bit inline array
			d.SetString(digitsStr(digits))
		case 1:
			digits = 20 + r.Intn(18) // inline, two words
			d.SetString(digitsStr(digits))
		case 2:
			// heap-backed coefficient holding a small value: a large destination shrunk in place
			l := digitsStr(40 + r.Intn(30))
			d.SetString(l)
			var y apd.Decimal
			y.SetString(l)
			var k apd.Decimal
			k.SetInt64(int64(1 + r.Intn(1000)))
			big.Sub(&y, &y, &k)
			big.Sub(d, d, &y)
		case 4:
			// large destination reduced by an in-place integer division / remainder
			l := digitsStr(40 + r.Intn(30))
			d.SetString(l)
			var y apd.Decimal
			y.SetString(digitsStr(38))
			if r.Intn(2) == 0 {
				big.QuoInteger(d, d, &y)
			} else {
				big.Rem(d, d, &y)
			}
		case 5:
			// small destination grown in place
			d.SetInt64(int64(1 + r.Intn(1<<30)))
			var y apd.Decimal
			y.SetString(digitsStr(25 + r.Intn(30)))
			big.Mul(d, d, &y)
		case 6:
			// a copy (Set) of a heap-backed value, and of a shrunk one
			var src apd.Decimal
			src.SetString(digitsStr(45))
			if r.Intn(2) == 0 {
				var y apd.Decimal
				y.Set(&src)
				y.Coeff.Sub(&y.Coeff, apd.NewBigInt(int64(1+r.Intn(99))))
				src.Coeff.Sub(&src.Coeff, &y.Coeff)
			}
			d.Set(&src)
		default:
			d.SetString(digitsStr(digits))
		}
		d.Exponent = int32(r.Intn(21) - 10 - digits/2)
		d.Negative = r.Intn(4) == 0
		ops = append(ops, d)
	}
	// operands that take the code beyond its lookup tables (powers of ten above 10^128, digit counts above
	// 128 bits): long coefficients with hundreds of fractional digits and a non-zero integer part, and
	// exponents far apart - each with its own scale, so that concurrent calls need different powers
	for i := 0; i < 8; i++ {
		d := new(apd.Decimal)
		frac := 129 + r.Intn(300)
		d.SetString(digitsStr(frac + 1 + r.Intn(60)))
		d.Exponent = int32(-frac)
		d.Negative = r.Intn(4) == 0
		ops = append(ops, d)
	}
	for i := 0; i < 4; i++ {
		d := new(apd.Decimal)
		d.SetString(digitsStr(1 + r.Intn(30)))
		d.Exponent = int32(129 + r.Intn(400))
		if r.Intn(2) == 0 {
			d.Exponent = -d.Exponent - 40
		}
		ops = append(ops, d)
	}
	ops = append(ops, apd.New(0, 0), apd.New(1, 0), apd.New(10, -1), &apd.Decimal{Form: apd.Infinite}, &apd.Decimal{Form: apd.NaN})
	return ops
}

func mkContexts(r *rand.Rand) []*apd.Context {
	modes := []apd.Rounder{apd.RoundDown, apd.RoundHalfUp, apd.RoundHalfEven, apd.RoundCeiling, apd.RoundFloor, apd.RoundHalfDown, apd.RoundUp, apd.Round05Up}
	var ctxs []*apd.Context
	for i := 0; i < 6; i++ {
		ctxs = append(ctxs, &apd.Context{Precision: uint32(1 + r.Intn(30)), MaxExponent: 6144, MinExponent: -6143, Rounding: modes[r.Intn(8)]})
	}
	ctxs = append(ctxs, apd.BaseContext.WithPrecision(20), apd.BaseContext.WithPrecision(0), apd.BaseContext.WithPrecision(1))
	// contexts that trap the everyday conditions ("exact or error"): the composite functions (Sqrt, Cbrt, Exp, Ln,
	// Pow, Quantize ...) then leave through their internal error exits, concurrently with calls that succeed - a
	// resource released twice or too early on such an exit only shows when both kinds of call are in flight
	ctxs = append(ctxs,
		&apd.Context{Precision: 30, MaxExponent: 6144, MinExponent: -6143, Rounding: apd.RoundHalfEven, Traps: apd.Inexact},
		&apd.Context{Precision: uint32(2 + r.Intn(12)), MaxExponent: 999, MinExponent: -999, Rounding: modes[r.Intn(8)], Traps: apd.Inexact | apd.Rounded},
		&apd.Context{Precision: uint32(1 + r.Intn(20)), MaxExponent: 99, MinExponent: -99, Rounding: modes[r.Intn(8)], Traps: apd.Condition(1<<12 - 1)})
	return ctxs
}

func main() {
	n := flag.Int("n", 400, "number of shared cases")
	seed := flag.Int64("seed", 1, "seed")
	gor := flag.Int("goroutines", 16, "goroutines")
	flag.Parse()
	w := bufio.NewWriter(os.Stdout)
	defer w.Flush()
	// several rounds, each over a FRESH shared population: the first use of an operand happens inside
	// the goroutines
	const perRound = 100
	id := 0
	for round := 0; id < *n; round++ {
		rs := *seed*1000003 + int64(round)
		shared, twins := mkOperands(rand.New(rand.NewSource(rs))), mkOperands(rand.New(rand.NewSource(rs)))
		sctx, tctx := mkContexts(rand.New(rand.NewSource(rs+1))), mkContexts(rand.New(rand.NewSource(rs+1)))
		r := rand.New(rand.NewSource(rs + 2))
		m := perRound
		if *n-id < m {
			m = *n - id
		}
		cases := make([]*kase, m)
		base := make([]*kase, m)
		for i := range cases {
			op, ci, xi, yi, e := r.Intn(len(opNames)), r.Intn(len(sctx)), r.Intn(len(shared)), r.Intn(len(shared)), int32(r.Intn(9)-4)
			cases[i] = &kase{op: op, c: sctx[ci], x: shared[xi], y: shared[yi], exp: e}
			base[i] = &kase{op: op, c: tctx[ci], x: twins[xi], y: twins[yi], exp: e}
		}
		got := make([][]string, *gor)
		start := make(chan struct{})
		var wg sync.WaitGroup
		for g := 0; g < *gor; g++ {
			wg.Add(1)
			go func(g int) {
				defer wg.Done()
				rr := rand.New(rand.NewSource(rs + int64(g)*7919))
				res := make([]string, m)
				<-start
				for rep := 0; rep < 2; rep++ {
					for _, i := range rr.Perm(m) {
						s := run(cases[i])
						if rep == 0 || res[i] == s {
							res[i] = s
						} else {
							res[i] = "UNSTABLE " + res[i] + " / " + s
						}
					}
				}
				got[g] = res
			}(g)
		}
		close(start)
		wg.Wait()
		// sequential baseline, on the twin population (never shared)
		for i, k := range base {
			want := run(k)
			st := "same"
			for g := 0; g < *gor; g++ {
				if got[g][i] != want {
					st = "differs"
				}
			}
			id++
			fmt.Fprintf(w, "%d conc %s %d %s %s => %s\n", id, opNames[k.op], k.c.Precision, k.x.String(), k.y.String(), st)
		}
	}
}
