package main

import (
	"fmt"
	"math/big"
	"strings"

	"github.com/cockroachdb/apd/v3"
)

var modeOrder = []apd.Rounder{apd.RoundDown, apd.RoundHalfUp, apd.RoundHalfEven, apd.RoundCeiling,
	apd.RoundFloor, apd.RoundHalfDown, apd.RoundUp, apd.Round05Up}

func (rn *runner) runOut(op string, c *apd.Context, x, y *apd.Decimal, iarg int32) string {
	return rn.runOutPre(op, c, x, y, iarg, junk(rn.r))
}

// runOutPre runs op with the given destination pre-state (an undelivered outcome leaves it visible).
func (rn *runner) runOutPre(op string, c *apd.Context, x, y *apd.Decimal, iarg int32, d *apd.Decimal) string {
	def := ctxOps[op]
	xc := new(apd.Decimal).Set(x)
	var yc *apd.Decimal
	if y != nil {
		yc = new(apd.Decimal).Set(y)
	}
	cc := *c
	r, e, _ := def.run(&cc, d, xc, yc, iarg)
	return fmt.Sprintf("%s %d %s", showDec(d), uint32(r), errKind(e, r, c.Traps))
}

func optDec(y *apd.Decimal, arity int) string {
	if arity == 2 && y != nil {
		return showDec(y)
	}
	return "-"
}

// modesCase runs one call under the eight rounding modes.
func (rn *runner) modesCase(op string, c *apd.Context, x, y *apd.Decimal, iarg int32) {
	def := ctxOps[op]
	in := fmt.Sprintf("%s %d %d %d %d %s %s %d", op, c.Precision, c.MaxExponent, c.MinExponent, uint32(c.Traps), showDec(x), optDec(y, def.arity), iarg)
	rn.rawCase("modes", in, true, "modes-"+op, func() string {
		var parts []string
		for _, m := range modeOrder {
			cc := *c
			cc.Rounding = m
			parts = append(parts, rn.runOut(op, &cc, x, y, iarg))
		}
		return strings.Join(parts, " ")
	})
}

func negated(d *apd.Decimal) *apd.Decimal {
	r := new(apd.Decimal).Set(d)
	r.Negative = !r.Negative
	return r
}

func mirrorMode(m apd.Rounder) apd.Rounder {
	switch m {
	case apd.RoundFloor:
		return apd.RoundCeiling
	case apd.RoundCeiling:
		return apd.RoundFloor
	}
	return m
}

func shifted(d *apd.Decimal, k int32) *apd.Decimal {
	r := new(apd.Decimal).Set(d)
	if r.Form == apd.Finite {
		r.Exponent += k
	}
	return r
}

// relCase runs two related calls.
func (rn *runner) relCase(kind, op string, c *apd.Context, x, y *apd.Decimal, k int32) {
	arity := 2
	if kind == "mono" {
		arity = 2
	} else if d, ok := ctxOps[op]; ok {
		arity = d.arity
	}
	in := fmt.Sprintf("%s %s %s %s %s %d", kind, op, showCtx(c), showDec(x), optDec(y, arity), k)
	rn.rawCase("rel", in, true, "rel-"+kind, func() string {
		var a, b string
		switch kind {
		case "comm":
			a, b = rn.runOut(op, c, x, y, 0), rn.runOut(op, c, y, x, 0)
		case "subneg":
			a, b = rn.runOut("sub", c, x, y, 0), rn.runOut("add", c, x, negated(y), 0)
		case "mirror":
			cm := *c
			cm.Rounding = mirrorMode(c.Rounding)
			a = rn.runOut(op, c, x, y, 0)
			if op == "add" || op == "sub" {
				b = rn.runOut(op, &cm, negated(x), negated(y), 0)
			} else {
				b = rn.runOut(op, &cm, negated(x), y, 0)
			}
		case "scale":
			a = rn.runOut(op, c, x, y, 0)
			if op == "mul" || op == "quo" {
				b = rn.runOut(op, c, shifted(x, k), y, 0)
			} else {
				b = rn.runOut(op, c, shifted(x, k), shifted(y, k), 0)
			}
		case "mono":
			a, b = rn.runOut("round", c, x, nil, 0), rn.runOut("round", c, y, nil, 0)
		}
		return a + " " + b
	})
}

func (rn *runner) streamModes(g *gen) {
	ops := []string{"add", "sub", "mul", "quo", "round", "quantize", "rtie"}
	for i := 0; i < rn.n; i++ {
		op := ops[g.r.Intn(len(ops))]
		def := ctxOps[op]
		c := g.ctx(false, false)
		c.Rounding = modeOrder[g.r.Intn(8)]
		var x, y *apd.Decimal
		switch {
		case op == "quo" && g.r.Intn(2) == 0:
			x, y = g.divPair(c)
		case def.arity == 2:
			x = g.decimal(c, false)
			y = g.related(c, x, false)
		default:
			x = g.decimal(c, false)
		}
		var iarg int32
		if def.hasInt {
			iarg = int32(int64(x.Exponent) + int64(g.r.Intn(int(x.NumDigits())+3)) - 1)
		}
		switch g.r.Intn(8) {
		case 0, 1, 2:
			rn.modesCase(op, c, x, y, iarg)
		case 3:
			if op == "add" || op == "mul" {
				rn.relCase("comm", op, c, x, y, 0)
			} else {
				rn.modesCase(op, c, x, y, iarg)
			}
		case 4:
			if y == nil {
				y = g.decimal(c, false)
			}
			rn.relCase("subneg", "sub", c, x, y, 0)
		case 5:
			if def.hasInt || op == "rtie" {
				rn.modesCase(op, c, x, y, iarg)
			} else {
				rn.relCase("mirror", op, c, x, y, 0)
			}
		case 6:
			if op == "add" || op == "sub" || op == "mul" || op == "quo" {
				rn.relCase("scale", op, c, x, y, int32(g.pick(1, -1, 2, -3, 7, -7, 20, -20)))
			} else {
				rn.modesCase(op, c, x, y, iarg)
			}
		default:
			xx := g.decimal(c, false)
			yy := g.variant(c, xx)
			if g.r.Intn(3) == 0 && xx.Form == apd.Finite {
				xx, yy = g.monoTwins(c)
			}
			rn.relCase("mono", "round", c, xx, yy, 0)
		}
	}
}

// monoTwins returns two decimals that are equal or differ by one unit hundreds of digits down: a short one
// (Precision+1..+3 digits, the first discarded digit chosen around the half) and the same digits followed
// by k zeros, plus or minus one in the last place, with k up to and beyond the size of the package's
// power-of-ten table. Rounding must order them as their values are ordered, whatever path the long one takes.
func (g *gen) monoTwins(c *apd.Context) (*apd.Decimal, *apd.Decimal) {
	p := int(c.Precision)
	if p < 1 {
		p = 1
	}
	var sb strings.Builder
	sb.WriteByte(byte('1' + g.r.Intn(9)))
	for i := 1; i < p; i++ {
		sb.WriteByte(byte('0' + g.r.Intn(10)))
	}
	sb.WriteByte("0145569"[g.r.Intn(7)])
	for i := g.r.Intn(3); i > 0; i-- {
		sb.WriteByte("0059"[g.r.Intn(4)])
	}
	co, _ := new(big.Int).SetString(sb.String(), 10)
	x := new(apd.Decimal)
	x.Coeff.SetMathBigInt(co)
	x.Exponent = int32(g.r.Intn(41) - 20)
	x.Negative = g.r.Intn(4) == 0
	k := int(g.pick(1, 2, 30, 126, 127, 128, 129, 130, 131, 200, 260))
	lo := new(big.Int).Mul(co, pow10(k))
	lo.Add(lo, big.NewInt(g.pick(0, 0, 1, -1)))
	y := new(apd.Decimal)
	y.Coeff.SetMathBigInt(lo)
	y.Exponent = x.Exponent - int32(k)
	y.Negative = x.Negative
	if g.r.Intn(2) == 0 {
		return y, x
	}
	return x, y
}
