// Command harness runs the real apd code (built from /repo's working tree) on generated or
// replayed cases and prints one protocol line per case for the Lean model driver.
package main

import (
	"bufio"
	"encoding/json"
	"flag"
	"fmt"
	"hash/fnv"
	"math/rand"
	"os"
	"sort"
	"strconv"
	"strings"
	"time"

	"github.com/cockroachdb/apd/v3"
)

type stats struct {
	Stream      string         `json:"stream"`
	Seed        int64          `json:"seed"`
	Evaluations int            `json:"evaluations"`
	Distinct    int            `json:"distinct_nontrivial"`
	Rule        string         `json:"rule"`
	ByOp        map[string]int `json:"by_op"`
	ByErr       map[string]int `json:"by_err"`
	ByFlag      map[string]int `json:"by_flag"`
	ByTag       map[string]int `json:"by_tag"`
	Samples     []string       `json:"samples"`
	Panics      int            `json:"panics"`
	Hangs       int            `json:"hangs"`
	seen        map[uint64]struct{}
}

func newStats(stream string, seed int64) *stats {
	return &stats{Stream: stream, Seed: seed, ByOp: map[string]int{}, ByErr: map[string]int{},
		ByFlag: map[string]int{}, ByTag: map[string]int{}, seen: map[uint64]struct{}{}}
}

func (s *stats) note(op, input, errk string, flags uint32, nontrivial bool, tags ...string) {
	s.Evaluations++
	s.ByOp[op]++
	s.ByErr[errk]++
	for i := uint(0); i < 12; i++ {
		if flags&(1<<i) != 0 {
			s.ByFlag[condNames[i]]++
		}
	}
	for _, t := range tags {
		s.ByTag[t]++
	}
	if nontrivial {
		h := fnv.New64a()
		h.Write([]byte(input))
		k := h.Sum64()
		if _, ok := s.seen[k]; !ok {
			s.seen[k] = struct{}{}
			s.Distinct++
		}
	}
	if len(s.Samples) < 12 && (s.Evaluations%97 == 1) {
		s.Samples = append(s.Samples, input)
	}
}

var condNames = []string{"SystemOverflow", "SystemUnderflow", "Overflow", "Underflow", "Inexact",
	"Subnormal", "Rounded", "DivisionUndefined", "DivisionByZero", "DivisionImpossible",
	"InvalidOperation", "Clamped"}

func formLetter(f apd.Form) string {
	switch f {
	case apd.Finite:
		return "f"
	case apd.Infinite:
		return "i"
	case apd.NaNSignaling:
		return "s"
	case apd.NaN:
		return "n"
	}
	return "?"
}

func showDec(d *apd.Decimal) string {
	n := "0"
	if d.Negative {
		n = "1"
	}
	return formLetter(d.Form) + ":" + n + ":" + d.Coeff.String() + ":" + strconv.Itoa(int(d.Exponent))
}

func parseDec(s string) (*apd.Decimal, error) {
	parts := strings.Split(s, ":")
	if len(parts) != 4 {
		return nil, fmt.Errorf("bad decimal %q", s)
	}
	d := new(apd.Decimal)
	switch parts[0] {
	case "f":
		d.Form = apd.Finite
	case "i":
		d.Form = apd.Infinite
	case "s":
		d.Form = apd.NaNSignaling
	case "n":
		d.Form = apd.NaN
	default:
		return nil, fmt.Errorf("bad form %q", s)
	}
	d.Negative = parts[1] == "1"
	if _, ok := d.Coeff.SetString(parts[2], 10); !ok {
		return nil, fmt.Errorf("bad coeff %q", s)
	}
	e, err := strconv.Atoi(parts[3])
	if err != nil {
		return nil, err
	}
	d.Exponent = int32(e)
	return d, nil
}

func modeName(r apd.Rounder) string {
	if r == "" {
		return "-"
	}
	return string(r)
}

func showCtx(c *apd.Context) string {
	return fmt.Sprintf("%d %d %d %d %s", c.Precision, c.MaxExponent, c.MinExponent, uint32(c.Traps), modeName(c.Rounding))
}

func parseCtx(t []string) (*apd.Context, error) {
	p, e1 := strconv.Atoi(t[0])
	emax, e2 := strconv.Atoi(t[1])
	emin, e3 := strconv.Atoi(t[2])
	tr, e4 := strconv.Atoi(t[3])
	for _, e := range []error{e1, e2, e3, e4} {
		if e != nil {
			return nil, e
		}
	}
	m := t[4]
	if m == "-" {
		m = ""
	}
	return &apd.Context{Precision: uint32(p), MaxExponent: int32(emax), MinExponent: int32(emin),
		Traps: apd.Condition(tr), Rounding: apd.Rounder(m)}, nil
}

// errKind canonicalises an error to the small enum of the protocol.
func errKind(err error, res apd.Condition, traps apd.Condition) string {
	if err == nil {
		return "none"
	}
	msg := err.Error()
	switch {
	case strings.Contains(msg, "exponent out of range"):
		return "sys"
	case strings.Contains(msg, "may not have 0 Precision"):
		return "zeroprec"
	}
	if t := res & traps; t != 0 && safeCondString(t) == msg {
		return "trap"
	}
	// composite functions return the error of an internal step (flags 0): a trapped condition
	// shows as a list of condition names, possibly behind "Quo: " style prefixes
	if i := strings.LastIndex(msg, ": "); i >= 0 {
		msg = msg[i+2:]
	}
	if msg != "" {
		all := true
		for _, part := range strings.Split(msg, ", ") {
			if !condStrings[part] {
				all = false
			}
		}
		if all {
			return "trap"
		}
	}
	return "other"
}

var condStrings = map[string]bool{"overflow": true, "underflow": true, "inexact": true, "subnormal": true,
	"rounded": true, "division undefined": true, "division by zero": true, "division impossible": true,
	"invalid operation": true, "clamped": true}

func safeCondString(c apd.Condition) (s string) {
	defer func() {
		if recover() != nil {
			s = "<panic>"
		}
	}()
	return c.String()
}

type ctxOp struct {
	arity  int
	hasInt bool
	p0     bool // Precision 0 is in the operation's stated domain
	run    func(c *apd.Context, d, x, y *apd.Decimal, i int32) (apd.Condition, error, int64)
}

var ctxOps = map[string]ctxOp{
	"add": {2, false, true, func(c *apd.Context, d, x, y *apd.Decimal, i int32) (apd.Condition, error, int64) {
		r, e := c.Add(d, x, y)
		return r, e, 0
	}},
	"sub": {2, false, true, func(c *apd.Context, d, x, y *apd.Decimal, i int32) (apd.Condition, error, int64) {
		r, e := c.Sub(d, x, y)
		return r, e, 0
	}},
	"mul": {2, false, true, func(c *apd.Context, d, x, y *apd.Decimal, i int32) (apd.Condition, error, int64) {
		r, e := c.Mul(d, x, y)
		return r, e, 0
	}},
	"quo": {2, false, false, func(c *apd.Context, d, x, y *apd.Decimal, i int32) (apd.Condition, error, int64) {
		r, e := c.Quo(d, x, y)
		return r, e, 0
	}},
	"quoint": {2, false, false, func(c *apd.Context, d, x, y *apd.Decimal, i int32) (apd.Condition, error, int64) {
		r, e := c.QuoInteger(d, x, y)
		return r, e, 0
	}},
	"rem": {2, false, false, func(c *apd.Context, d, x, y *apd.Decimal, i int32) (apd.Condition, error, int64) {
		r, e := c.Rem(d, x, y)
		return r, e, 0
	}},
	"abs": {1, false, true, func(c *apd.Context, d, x, y *apd.Decimal, i int32) (apd.Condition, error, int64) {
		r, e := c.Abs(d, x)
		return r, e, 0
	}},
	"neg": {1, false, true, func(c *apd.Context, d, x, y *apd.Decimal, i int32) (apd.Condition, error, int64) {
		r, e := c.Neg(d, x)
		return r, e, 0
	}},
	"round": {1, false, true, func(c *apd.Context, d, x, y *apd.Decimal, i int32) (apd.Condition, error, int64) {
		r, e := c.Round(d, x)
		return r, e, 0
	}},
	"reduce": {1, false, true, func(c *apd.Context, d, x, y *apd.Decimal, i int32) (apd.Condition, error, int64) {
		n, r, e := c.Reduce(d, x)
		return r, e, int64(n)
	}},
	"cmp": {2, false, true, func(c *apd.Context, d, x, y *apd.Decimal, i int32) (apd.Condition, error, int64) {
		r, e := c.Cmp(d, x, y)
		return r, e, 0
	}},
	"quantize": {1, true, false, func(c *apd.Context, d, x, y *apd.Decimal, i int32) (apd.Condition, error, int64) {
		r, e := c.Quantize(d, x, i)
		return r, e, 0
	}},
	"rtie": {1, false, false, func(c *apd.Context, d, x, y *apd.Decimal, i int32) (apd.Condition, error, int64) {
		r, e := c.RoundToIntegralExact(d, x)
		return r, e, 0
	}},
	"rtiv": {1, false, false, func(c *apd.Context, d, x, y *apd.Decimal, i int32) (apd.Condition, error, int64) {
		r, e := c.RoundToIntegralValue(d, x)
		return r, e, 0
	}},
	"ceil": {1, false, false, func(c *apd.Context, d, x, y *apd.Decimal, i int32) (apd.Condition, error, int64) {
		r, e := c.Ceil(d, x)
		return r, e, 0
	}},
	"sqrt": {1, false, false, func(c *apd.Context, d, x, y *apd.Decimal, i int32) (apd.Condition, error, int64) {
		r, e := c.Sqrt(d, x)
		return r, e, 0
	}},
	"cbrt": {1, false, false, func(c *apd.Context, d, x, y *apd.Decimal, i int32) (apd.Condition, error, int64) {
		r, e := c.Cbrt(d, x)
		return r, e, 0
	}},
	"exp": {1, false, false, func(c *apd.Context, d, x, y *apd.Decimal, i int32) (apd.Condition, error, int64) {
		r, e := c.Exp(d, x)
		return r, e, 0
	}},
	"ln": {1, false, false, func(c *apd.Context, d, x, y *apd.Decimal, i int32) (apd.Condition, error, int64) {
		r, e := c.Ln(d, x)
		return r, e, 0
	}},
	"log10": {1, false, false, func(c *apd.Context, d, x, y *apd.Decimal, i int32) (apd.Condition, error, int64) {
		r, e := c.Log10(d, x)
		return r, e, 0
	}},
	"pow": {2, false, false, func(c *apd.Context, d, x, y *apd.Decimal, i int32) (apd.Condition, error, int64) {
		r, e := c.Pow(d, x, y)
		return r, e, 0
	}},
	"floor": {1, false, false, func(c *apd.Context, d, x, y *apd.Decimal, i int32) (apd.Condition, error, int64) {
		r, e := c.Floor(d, x)
		return r, e, 0
	}},
}

type callResult struct {
	d     *apd.Decimal
	res   apd.Condition
	err   error
	aux   int64
	panic string
	hang  bool
	text  string
	tape  string
}

var callTimeout = 20 * time.Second

// guarded runs f under recover and a watchdog.
// A call that does not return keeps its goroutine spinning for the rest of the run. After maxHangs reported
// hangs the stream ends (output flushed, statistics written): further reports add nothing, and the spinning
// goroutines would eat the machine.
var (
	hangCount int
	finishRun func()
)

const maxHangs = 6

func guarded(f func() callResult) callResult {
	if hangCount >= maxHangs && finishRun != nil {
		finishRun()
		os.Exit(0)
	}
	ch := make(chan callResult, 1)
	go func() {
		defer func() {
			if r := recover(); r != nil {
				ch <- callResult{panic: fmt.Sprint(r)}
			}
		}()
		ch <- f()
	}()
	select {
	case r := <-ch:
		return r
	case <-time.After(callTimeout):
		hangCount++
		return callResult{hang: true}
	}
}

// junk pre-fills a destination so that dependence on its prior contents shows up.
func junk(r *rand.Rand) *apd.Decimal {
	d := new(apd.Decimal)
	switch r.Intn(8) {
	case 5: // finite, exponent beyond the package limits (left by another context, or by hand)
		d.SetFinite(7, 0)
		d.Exponent = 160000
	case 6: // an infinity whose unused fields hold what an overflow left there
		d.Form = apd.Infinite
		d.Coeff.SetInt64(5)
		d.Exponent = -170000
	case 0:
		d.Form = apd.NaN
	case 1:
		d.Form = apd.Infinite
		d.Negative = true
	case 2:
		d.Form = apd.NaNSignaling
	case 3:
		d.SetString("-123456789012345678901234567890123456789012345E+77")
	case 4:
		d.SetFinite(987654321, -40)
		d.Negative = true
	}
	return d
}

type runner struct {
	w     *bufio.Writer
	st    *stats
	r     *rand.Rand
	n     int
	lines int
	// shared package state (lookup tables, constants): digest at start, checked every snapEvery lines
	snap0    uint64
	snapInit bool
	snapFrom int
}

const snapEvery = 40

// snapCheck compares the package's shared tables and constants with their state at the start of the
// stream; a change is reported once, for the window of lines in which it happened (C06).
func (rn *runner) snapCheck(force bool) {
	if !rn.snapInit {
		rn.snap0, _ = apd.VerifSnapshot()
		rn.snapInit = true
		rn.snapFrom = 1
		return
	}
	if !force && rn.lines%snapEvery != 0 {
		return
	}
	if rn.lines < rn.snapFrom {
		return
	}
	now, _ := apd.VerifSnapshot()
	st := "same"
	if now != rn.snap0 {
		st = "changed"
		rn.snap0 = now // report each change once
	}
	from := rn.snapFrom
	rn.snapFrom = rn.lines + 2
	rn.lines++
	fmt.Fprintf(rn.w, "%d snapshot %d %d => %s\n", rn.lines, from, rn.lines-1, st)
}

func (rn *runner) ctxCase(op string, c *apd.Context, x, y *apd.Decimal, iarg int32) {
	def, ok := ctxOps[op]
	if !ok {
		fmt.Fprintf(os.Stderr, "unknown op %s\n", op)
		os.Exit(2)
	}
	ys := "-"
	if def.arity == 2 {
		ys = showDec(y)
	}
	input := fmt.Sprintf("ctxop %s %s %s %s %d", op, showCtx(c), showDec(x), ys, iarg)
	// operands are copied so that the printed input is what the call saw
	xc := new(apd.Decimal).Set(x)
	var yc *apd.Decimal
	if y != nil {
		yc = new(apd.Decimal).Set(y)
	}
	cc := *c
	res := guarded(func() callResult {
		d := junk(rn.r)
		if tapeOps[op] {
			tapeStart()
		}
		r, e, aux := def.run(&cc, d, xc, yc, iarg)
		tape := ""
		if tapeOps[op] {
			tape = " " + tapeStop()
		}
		return callResult{d: d, res: r, err: e, aux: aux, tape: tape}
	})
	rn.emit(op, input, c, res)
}

func (rn *runner) emit(op, input string, c *apd.Context, res callResult) {
	rn.snapCheck(false)
	rn.lines++
	id := strconv.Itoa(rn.lines)
	switch {
	case res.hang:
		rn.st.Hangs++
		rn.st.note(op, input, "hang", 0, true, "hang")
		fmt.Fprintf(rn.w, "%s %s => HANG\n", id, input)
	case res.panic != "":
		rn.st.Panics++
		rn.st.note(op, input, "panic", 0, true, "panic")
		fmt.Fprintf(rn.w, "%s %s => PANIC\n", id, input)
	default:
		ek := errKind(res.err, res.res, c.Traps)
		nontrivial := res.res&(apd.Inexact|apd.Rounded|apd.Subnormal|apd.Overflow|apd.Clamped) != 0 || res.d.Form != apd.Finite || ek != "none"
		tag := "exact"
		switch {
		case res.d.Form != apd.Finite:
			tag = "special-result"
		case res.res&apd.Subnormal != 0:
			tag = "subnormal"
		case res.res&apd.Inexact != 0:
			tag = "inexact"
		case res.res&apd.Rounded != 0:
			tag = "rounded-exact"
		}
		rn.st.note(op, input, ek, uint32(res.res), nontrivial, tag)
		fmt.Fprintf(rn.w, "%s %s => %s %d %s %d%s\n", id, input, showDec(res.d), uint32(res.res), ek, res.aux, res.tape)
	}
}

// replayLine re-runs one recorded input line (everything before "=>", without the id).
func (rn *runner) replayLine(line string) error {
	if i := strings.Index(line, "=>"); i >= 0 {
		line = strings.TrimSpace(line[:i])
	}
	t := strings.Fields(line)
	if len(t) > 0 {
		if _, err := strconv.Atoi(t[0]); err == nil {
			t = t[1:] // drop id
		}
	}
	if len(t) == 0 {
		return nil
	}
	switch t[0] {
	case "ctxop":
		if len(t) != 10 {
			return fmt.Errorf("bad ctxop line: %q", line)
		}
		c, err := parseCtx(t[2:7])
		if err != nil {
			return err
		}
		x, err := parseDec(t[7])
		if err != nil {
			return err
		}
		var y *apd.Decimal
		if t[8] != "-" {
			if y, err = parseDec(t[8]); err != nil {
				return err
			}
		}
		ia, err := strconv.Atoi(t[9])
		if err != nil {
			return err
		}
		rn.ctxCase(t[1], c, x, y, int32(ia))
		return nil
	}
	return fmt.Errorf("unknown line kind %q", t[0])
}

func (rn *runner) replayFile(path string) error {
	f, err := os.Open(path)
	if err != nil {
		return err
	}
	defer f.Close()
	sc := bufio.NewScanner(f)
	sc.Buffer(make([]byte, 1<<20), 1<<26)
	for sc.Scan() {
		line := strings.TrimSpace(sc.Text())
		if line == "" || strings.HasPrefix(line, "#") {
			continue
		}
		if err := rn.replayLine(line); err != nil {
			return err
		}
	}
	return sc.Err()
}

func main() {
	stream := flag.String("stream", "arith", "stream to generate")
	n := flag.Int("n", 1000, "number of generated cases")
	seed := flag.Int64("seed", 1, "PRNG seed")
	corpus := flag.String("corpus", "", "corpus / replay file to run first (comma separated)")
	only := flag.Bool("replay-only", false, "run only the corpus files")
	statsPath := flag.String("stats", "", "write statistics JSON here")
	ops := flag.String("ops", "", "restrict to these ops (comma separated)")
	extreme := flag.Bool("extreme", false, "allow exponents at the package limits")
	flag.Parse()

	w := bufio.NewWriterSize(os.Stdout, 1<<20)
	defer w.Flush()
	rn := &runner{w: w, st: newStats(*stream, *seed), r: rand.New(rand.NewSource(*seed)), n: *n}
	finishRun = func() {
		w.Flush()
		if *statsPath != "" {
			rn.st.Rule = "cases drawn from one PRNG (seed) by structure-directed generators; a case is non-trivial when the call rounded, clamped, went subnormal, overflowed, returned a special value or an error; distinct = distinct input lines among those"
			b, _ := json.MarshalIndent(rn.st, "", " ")
			os.WriteFile(*statsPath, b, 0o644)
		}
	}
	if *corpus != "" {
		for _, p := range strings.Split(*corpus, ",") {
			if err := rn.replayFile(p); err != nil {
				fmt.Fprintln(os.Stderr, "replay:", err)
				os.Exit(2)
			}
		}
	}
	if !*only {
		var opList []string
		if *ops != "" {
			opList = strings.Split(*ops, ",")
		}
		g := &gen{r: rn.r}
		switch *stream {
		case "arith":
			rn.streamArith(g, opList, *extreme)
		case "digits":
			rn.streamDigits(g, *extreme)
		case "order":
			rn.streamOrder(g)
		case "conv":
			rn.streamConv(g)
		case "modes":
			rn.streamModes(g)
		case "roots":
			rn.streamRoots(g)
		case "specials":
			rn.streamSpecials(g)
		case "translog":
			rn.streamTransLog(g)
		case "traps":
			rn.streamTraps(g, opList)
		case "errdec":
			rn.streamErrDec(g)
		case "bigint":
			rn.streamBigInt(g)
		case "alias":
			rn.streamAlias(g, opList)
		case "strings":
			rn.streamStrings(g)
		case "total":
			rn.streamTotal(g)
		case "text":
			rn.streamText(g)
		default:
			fmt.Fprintf(os.Stderr, "unknown stream %q\n", *stream)
			os.Exit(2)
		}
	}
	rn.snapCheck(true)
	finishRun()
}

func (rn *runner) streamArith(g *gen, opList []string, extreme bool) {
	if len(opList) == 0 {
		for k := range ctxOps {
			opList = append(opList, k)
		}
		sort.Strings(opList)
	}
	for i := 0; i < rn.n; i++ {
		op := opList[g.r.Intn(len(opList))]
		def := ctxOps[op]
		c := g.ctx(def.p0, extreme)
		switch op {
		case "quantize", "rtie", "rtiv", "ceil", "floor", "quoint", "rem":
			if g.r.Intn(8) == 0 {
				g.narrow(c)
			}
		}
		var x, y *apd.Decimal
		var iarg int32
		switch {
		case (op == "quo" || op == "quoint" || op == "rem") && g.r.Intn(2) == 0:
			x, y = g.divPair(c)
		case def.arity == 2:
			x = g.decimal(c, extreme)
			y = g.related(c, x, extreme)
		default:
			x = g.decimal(c, extreme)
		}
		if def.hasInt {
			// target exponent near x's exponent / digits, and around etiny / emax
			base := int64(x.Exponent)
			nd := x.NumDigits()
			switch g.r.Intn(8) {
			case 0:
				iarg = int32(base)
			case 1:
				iarg = int32(base + nd)
			case 2:
				iarg = int32(base + nd + 1 + int64(g.r.Intn(3)))
			case 3:
				iarg = int32(base - int64(g.r.Intn(int(c.Precision)+3)))
			case 4:
				iarg = c.MinExponent - int32(c.Precision) + 1 - int32(g.r.Intn(2))
			case 5:
				iarg = c.MaxExponent + int32(g.r.Intn(2))
			default:
				iarg = int32(base + int64(g.r.Intn(int(nd)+2)))
			}
			if iarg > 100000 {
				iarg = 100000
			}
			if iarg < -100000 {
				iarg = -100000
			}
			if g.r.Intn(16) == 0 && x.Form == apd.Finite {
				// exponent gaps at and beyond the package limit, in both directions: the operand's exponent
				// is moved so that |x.Exponent - iarg| is 99999..100002 or far more
				gap := g.pick(100001, 100002, 100003, 120000, 199999)
				if extreme && g.r.Intn(3) == 0 {
					// the largest gaps that are still rescaled: coefficients of 100000 digits (seconds per case in the model)
					gap = g.pick(99999, 100000)
				}
				lo := gap - 100000
				if lo < -100000 {
					lo = -100000
				}
				xe := lo + int64(g.r.Intn(int(100000-lo)+1))
				if g.r.Intn(2) == 0 {
					x.Exponent = int32(xe)
					iarg = int32(xe - gap)
					if g.r.Intn(4) != 0 {
						// make the call reach the rescaling step: target exponent not below Etiny, operand inside
						// the exponent range and (half of the time) short enough for the precision
						c.MinExponent = -100000
						c.MaxExponent = 100000
						if g.r.Intn(2) == 0 {
							x.Coeff.SetMathBigInt(g.coeff(1 + g.r.Intn(int(c.Precision)+1)))
						}
					}
				} else {
					x.Exponent = int32(-xe)
					iarg = int32(gap - xe)
				}
			}
		}
		rn.ctxCase(op, c, x, y, iarg)
	}
}

func sortStrings(xs []string) { sort.Strings(xs) }
