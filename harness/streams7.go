//go:build verif

package main

import (
	"encoding/hex"
	"fmt"
	"math"
	"math/big"
	"strconv"
	"strings"

	"github.com/cockroachdb/apd/v3"
)

// ---------- strings stream: the parser on grammar derivations, single-edit mutants and random bytes ----------

var alphabet = []string{"0", "1", "5", "9", "+", "-", ".", "e", "E", "n", "a", "N", "s", "S", "i", "I", "f", "t", "y", "İ", "K", "_", "x", " ", "\x00", "inf", "nan"}

func (g *gen) digitsStr(max int) string {
	n := 1 + g.r.Intn(max)
	var sb strings.Builder
	for i := 0; i < n; i++ {
		sb.WriteByte(byte('0' + g.r.Intn(10)))
	}
	return sb.String()
}

// grammatical produces a string of the GDA numeric-string grammar.
func (g *gen) grammatical() string {
	sign := []string{"", "", "+", "-"}[g.r.Intn(4)]
	mixCase := func(s string) string {
		b := []byte(s)
		for i := range b {
			if g.r.Intn(2) == 0 && b[i] >= 'a' && b[i] <= 'z' {
				b[i] -= 32
			}
		}
		return string(b)
	}
	switch g.r.Intn(10) {
	case 0:
		return sign + mixCase([]string{"inf", "infinity"}[g.r.Intn(2)])
	case 1:
		p := ""
		if g.r.Intn(2) == 0 {
			p = g.digitsStr(25)
		}
		return sign + mixCase([]string{"nan", "snan"}[g.r.Intn(2)]) + p
	}
	var m string
	switch g.r.Intn(4) {
	case 0:
		m = g.digitsStr(30)
	case 1:
		m = g.digitsStr(20) + "." + g.digitsStr(20)
	case 2:
		m = "." + g.digitsStr(20)
	default:
		m = g.digitsStr(20) + "."
	}
	e := ""
	if g.r.Intn(2) == 0 {
		es := []string{"", "+", "-"}[g.r.Intn(3)]
		var ed string
		switch g.r.Intn(6) {
		case 0:
			ed = fmt.Sprint(g.pick(99999, 100000, 100001, 99990, 100010))
		case 1:
			ed = fmt.Sprint(g.pick(2147483647, 2147483648, 4294967296, 99999999999))
		default:
			ed = fmt.Sprint(g.r.Intn(400))
		}
		e = []string{"e", "E"}[g.r.Intn(2)] + es + ed
	}
	return sign + m + e
}

// steeredNumeric writes a finite numeric string whose mantissa carries leading zeros (before the point,
// after it, or both) and/or trailing zeros, with the written exponent chosen so that the adjusted exponent
// of the denoted value lands at or next to the context's MaxExponent, MinExponent or Etiny: the places
// where a digit count taken from the text instead of the value decides between a finite result, an
// overflow, a subnormal and an error.
func (g *gen) steeredNumeric(c *apd.Context) string {
	sign := []string{"", "", "+", "-"}[g.r.Intn(4)]
	zeros := func(n int64) string { return strings.Repeat("0", int(n)) }
	// significant digits: first digit non-zero
	nsig := 1 + g.r.Intn(12)
	if g.r.Intn(4) == 0 {
		nsig = int(c.Precision) + g.r.Intn(3) - 1
		if nsig < 1 {
			nsig = 1
		}
	}
	var sb strings.Builder
	sb.WriteByte(byte('1' + g.r.Intn(9)))
	for i := 1; i < nsig; i++ {
		sb.WriteByte(byte('0' + g.r.Intn(10)))
	}
	sig := sb.String() + zeros(g.pick(0, 0, 0, 1, 3))
	var m string
	var adjM int64 // adjusted exponent of the mantissa's value
	lzInt := g.pick(0, 0, 1, 2, 5)
	switch g.r.Intn(4) {
	case 0: // 000ddd
		m = zeros(lzInt) + sig
		adjM = int64(len(sig) - 1)
	case 1: // 00.000ddd
		lzFrac := g.pick(0, 1, 2, 3, 7)
		m = zeros(lzInt) + "." + zeros(lzFrac) + sig
		adjM = -int64(lzFrac) - 1
	case 2: // 00d.ddd
		k := 1 + g.r.Intn(len(sig))
		m = zeros(lzInt) + sig[:k] + "." + sig[k:]
		adjM = int64(k - 1)
	default: // .000ddd
		lzFrac := g.pick(0, 1, 2, 4, 9)
		m = "." + zeros(lzFrac) + sig
		adjM = -int64(lzFrac) - 1
	}
	etiny := int64(c.MinExponent) - int64(c.Precision) + 1
	targets := []int64{int64(c.MaxExponent) - 1, int64(c.MaxExponent), int64(c.MaxExponent) + 1, int64(c.MaxExponent) + 2,
		int64(c.MinExponent), int64(c.MinExponent) - 1, int64(c.MinExponent) + 1, etiny, etiny - 1, etiny + 1,
		100000, 100001, 99999, -100000, -100001}
	t := targets[g.r.Intn(len(targets))] + int64(g.pick(0, 0, 0, 1, -1, 3, -3))
	ex := t - adjM
	es := ""
	if ex >= 0 && g.r.Intn(2) == 0 {
		es = "+"
	}
	exs := fmt.Sprint(ex)
	if g.r.Intn(6) == 0 { // leading zeros in the exponent digits
		if ex < 0 {
			exs = "-" + zeros(g.pick(1, 2, 9, 15)) + exs[1:]
		} else {
			exs = zeros(g.pick(1, 2, 9, 15)) + exs
		}
	}
	return sign + m + []string{"e", "E"}[g.r.Intn(2)] + es + exs
}

// confusable returns a byte or rune that is NOT in the grammar but is "close" to a character that is:
// one bit away from it (so any masking / case-folding trick maps it onto the grammar), with the high bit
// set, or a Unicode digit / sign / letter look-alike.
func (g *gen) confusable() string {
	const gram = "0123456789+-.eEnNaAsSiIfFtTyY"
	t := gram[g.r.Intn(len(gram))]
	switch g.r.Intn(6) {
	case 0, 1, 2:
		b := t ^ (1 << uint(g.r.Intn(8)))
		return string([]byte{b})
	case 3:
		return string([]byte{byte(g.r.Intn(256))})
	case 4:
		return []string{"\uff10", "\uff15", "\u0660", "\u0665", "\u06f1", "\u2212", "\uff0b", "\uff0e", "\uff25", "\u0131", "\u017f", "\u212a", "\u00a0", "\u2003", "\t", "\n", "\r", "\v", "\f"}[g.r.Intn(19)]
	default:
		return string([]byte{t, 0})
	}
}

func (g *gen) mutate(s string) string {
	r := []rune(s)
	pos := 0
	if len(r) > 0 {
		pos = g.r.Intn(len(r) + 1)
	}
	a := alphabet[g.r.Intn(len(alphabet))]
	if g.r.Intn(3) == 0 {
		a = g.confusable()
	}
	switch g.r.Intn(3) {
	case 0: // insert
		return string(r[:pos]) + a + string(r[pos:])
	case 1: // delete
		if len(r) == 0 {
			return a
		}
		if pos == len(r) {
			pos--
		}
		return string(r[:pos]) + string(r[pos+1:])
	default: // substitute
		if len(r) == 0 {
			return a
		}
		if pos == len(r) {
			pos--
		}
		return string(r[:pos]) + a + string(r[pos+1:])
	}
}

func (rn *runner) parseCase(c *apd.Context, s string, tag string) {
	in := fmt.Sprintf("%s %s", showCtx(c), hex.EncodeToString([]byte(s)))
	if s == "" {
		in = fmt.Sprintf("%s -", showCtx(c))
	}
	rn.rawCase("parse", in, true, tag, func() string {
		cc := *c
		d := junk(rn.r)
		dd, res, err := cc.SetString(d, s)
		// the same acceptance set must hold for UnmarshalText and Scan
		var u apd.Decimal
		uerr := u.UnmarshalText([]byte(s))
		var sc apd.Decimal
		serr := sc.Scan(s)
		var sb apd.Decimal
		sberr := sb.Scan([]byte(s))
		bd, _, berr := apd.NewFromString(s)
		agree := "same"
		if (uerr == nil) != (berr == nil) || (serr == nil) != (berr == nil) || (sberr == nil) != (berr == nil) {
			agree = "entrypoints-differ"
		} else if berr == nil {
			// ... and the same Decimal, field by field (sign of zero, exponent, form): Scan is the inverse of Value
			if w := showDec(bd); showDec(&u) != w || showDec(&sc) != w || showDec(&sb) != w {
				agree = "entrypoints-differ"
			}
			// a reused destination (a NullDecimal scanned row after row) gives the same Decimal as well
			rd := junk(rn.r)
			if rerr := rd.Scan(s); rerr != nil || showDec(rd) != showDec(bd) {
				agree = "entrypoints-differ"
			}
		}
		bk := "ok"
		if berr != nil {
			bk = errKind(berr, 0, 0)
			if bk == "none" {
				bk = "other"
			}
		}
		if err != nil && dd == nil && res == 0 {
			return fmt.Sprintf("err %s %s %s", errKind(err, res, c.Traps), bk, agree)
		}
		if dd == nil {
			return fmt.Sprintf("err-with-partial %s %s %s", errKind(err, res, c.Traps), bk, agree)
		}
		return fmt.Sprintf("ok %s %d %s %s %s", showDec(dd), uint32(res), errKind(err, res, c.Traps), bk, agree)
	})
}

func (rn *runner) streamStrings(g *gen) {
	for i := 0; i < rn.n; i++ {
		c := g.ctx(true, true)
		if g.r.Intn(3) == 0 {
			*c = apd.BaseContext
		}
		if g.r.Intn(8) == 0 {
			c.Traps = g.traps()
		}
		s := g.grammatical()
		if g.r.Intn(4) == 0 {
			s = g.steeredNumeric(c)
		}
		switch g.r.Intn(10) {
		case 0, 1, 2, 3:
			rn.parseCase(c, s, "grammatical")
		case 4, 5, 6, 7:
			rn.parseCase(c, g.mutate(s), "mutant")
		case 8:
			rn.parseCase(c, g.mutate(g.mutate(s)), "mutant2")
		default:
			n := g.r.Intn(12)
			b := make([]byte, n)
			for j := range b {
				if g.r.Intn(3) == 0 {
					b[j] = byte(g.r.Intn(256))
				} else {
					a := alphabet[g.r.Intn(len(alphabet))]
					b[j] = a[0]
				}
			}
			rn.parseCase(c, string(b), "random")
		}
	}
}

// ---------- total stream: every exported entry point under recover + watchdog (C04) ----------

func (rn *runner) apiCase(name, args string, f func()) {
	rn.rawCase("api", name+" "+args, true, "api-"+name, func() string { f(); return "ok" })
}

type fakeState struct {
	flags string
	width int
	has   bool
	sb    strings.Builder
}

func (f *fakeState) Write(b []byte) (int, error) { return f.sb.Write(b) }
func (f *fakeState) Width() (int, bool)          { return f.width, f.has }
func (f *fakeState) Precision() (int, bool)      { return 0, false }
func (f *fakeState) Flag(c int) bool             { return strings.ContainsRune(f.flags, rune(c)) }

// precisionProbes calls the functions that index tables by precision (the pre-rounded ln(10) constants,
// loop bounds, working precisions) at every precision next to a power of two and next to the length of
// the constants' digit strings: where a table lookup or a bound is one off, it is there.
func (rn *runner) precisionProbes() {
	var ps []uint32
	for k := uint(0); k <= 11; k++ {
		for d := -3; d <= 2; d++ {
			if p := (1 << k) + d; p >= 1 {
				ps = append(ps, uint32(p))
			}
		}
	}
	for p := 2990; p <= 3014; p++ {
		ps = append(ps, uint32(p))
	}
	ps = append(ps, 4095, 4096, 4097)
	two, half, ten := apd.New(2, 0), apd.New(5, -1), apd.New(10, 0)
	for _, p := range ps {
		c := apd.BaseContext.WithPrecision(p)
		rn.apiCase("PrecProbe", fmt.Sprintf("ln-log10 %d", p), func() {
			var d apd.Decimal
			_, _ = c.Ln(&d, two)
			_, _ = c.Ln(&d, half)
			_, _ = c.Log10(&d, two)
			_, _ = c.Log10(&d, ten)
		})
		if p <= 300 || p >= 2990 {
			rn.apiCase("PrecProbe", fmt.Sprintf("exp-pow-roots %d", p), func() {
				var d apd.Decimal
				_, _ = c.Exp(&d, two)
				_, _ = c.Pow(&d, two, half)
				_, _ = c.Sqrt(&d, two)
				_, _ = c.Cbrt(&d, two)
			})
		}
	}
	// operands with more digits than the package's exponent limit (well-formed: only exponent and adjusted exponent
	// are limited): the first internal rounding of such a coefficient fails inside Rounder.Round, and a loop that
	// keeps multiplying through an ErrDecimal must notice (repo: Cbrt's scaling loops used to spin forever)
	for _, n := range []int{100010, 100100, 150000} {
		for _, e := range []int64{-99000, int64(-n) + 2, int64(-n) - 50000} {
			x := decFromBig(new(big.Int).Add(pow10(n-1), big.NewInt(1)), e, false)
			rn.apiCase("DigitProbe", fmt.Sprintf("roots-logs %d %d", n, e), func() {
				c := apd.BaseContext.WithPrecision(5)
				var d apd.Decimal
				_, _ = c.Cbrt(&d, x)
				_, _ = c.Sqrt(&d, x)
				_, _ = c.Ln(&d, x)
				_, _ = c.Log10(&d, x)
				_, _ = c.Pow(&d, x, half)
				_, _, _ = c.Reduce(&d, x)
				_, _ = c.Round(&d, x)
				_, _ = c.Quantize(&d, x, 0)
			})
		}
	}
	// Pow works at max(Precision, digits of the base)+10: a long base at a small precision
	for _, n := range []int{2036, 2037, 2038, 2039, 2040, 2990, 3000} {
		x := decFromBig(new(big.Int).Sub(pow10(n), big.NewInt(3)), int64(-n+1), false)
		rn.apiCase("PrecProbe", fmt.Sprintf("pow-long-base %d", n), func() {
			var d apd.Decimal
			_, _ = apd.BaseContext.WithPrecision(5).Pow(&d, x, half)
		})
	}
}

func (rn *runner) streamTotal(g *gen) {
	verbs := []rune{'e', 'E', 'f', 'F', 'g', 'G', 'v', 's', 'd', 'x', 'q'}
	rn.precisionProbes()
	for i := 0; i < rn.n; i++ {
		c := g.ctx(true, false)
		x := g.decimal(c, false)
		if g.r.Intn(20) == 0 {
			x = g.finite(c, true)
		}
		xs := showDec(x)
		switch g.r.Intn(14) {
		case 0:
			v := verbs[g.r.Intn(len(verbs))]
			fl := []string{"", "+", "-", " ", "0", "+0", "-0", "+-", " 0", "#"}[g.r.Intn(10)]
			w := g.r.Intn(40)
			rn.apiCase("Format", fmt.Sprintf("%s %c %q %d", xs, v, fl, w), func() {
				st := &fakeState{flags: fl, width: w, has: g.r.Intn(2) == 0}
				x.Format(st, v)
				_ = fmt.Sprintf("%"+fl+fmt.Sprint(w)+string(v), x)
			})
		case 1:
			b := byte(g.r.Intn(256))
			rn.apiCase("Text", fmt.Sprintf("%s %d", xs, b), func() { _ = x.Text(b); _ = x.Append(nil, b); _ = x.String() })
		case 2:
			rn.apiCase("Marshal", xs, func() {
				b, _ := x.MarshalText()
				var y apd.Decimal
				_ = y.UnmarshalText(b)
				_, _ = x.Value()
				var n apd.NullDecimal
				_ = n.Scan(string(b))
				_ = n.Scan(nil)
				_, _ = n.Value()
			})
		case 3:
			rn.apiCase("Decompose", xs, func() {
				f, n, co, e := x.Decompose(nil)
				var y apd.Decimal
				_ = y.Compose(f, n, co, e)
				_ = y.Compose(byte(g.r.Intn(5)), n, co, e)
				buf := make([]byte, g.r.Intn(40))
				x.Decompose(buf)
			})
		case 4:
			rn.apiCase("Float", xs, func() {
				f, _ := x.Float64()
				var y apd.Decimal
				_, _ = y.SetFloat64(f)
				for _, v := range []float64{math.Inf(1), math.Inf(-1), math.NaN(), 0, math.Copysign(0, -1), math.MaxFloat64, math.SmallestNonzeroFloat64} {
					_, _ = y.SetFloat64(v)
					_, _ = y.Float64()
				}
				_ = y.Scan(f)
				_ = y.Scan(int64(7))
				_ = y.Scan(struct{}{})
			})
		case 5:
			rn.apiCase("Misc", xs, func() {
				_ = x.Size()
				_ = x.Sign()
				_ = x.IsZero()
				_ = x.NumDigits()
				_, _ = x.Int64()
				var y apd.Decimal
				y.Neg(x)
				y.Abs(x)
				y.Reduce(x)
				x.Modf(nil, nil)
				x.Modf(&y, nil)
				x.Modf(nil, &y)
				_ = x.Cmp(&y)
				_ = x.CmpTotal(&y)
				_ = apd.New(g.r.Int63(), int32(g.r.Intn(100)))
				_ = apd.NewWithBigInt(apd.NewBigInt(-g.r.Int63()), 3)
				y.SetInt64(math.MinInt64)
				y.SetFinite(math.MinInt64, 5)
			})
		case 6:
			cond := apd.Condition(g.r.Intn(4096))
			rn.apiCase("Condition", fmt.Sprint(uint32(cond)), func() {
				_ = cond.String()
				_, _ = cond.GoError(apd.Condition(g.r.Intn(4096)))
				_ = cond.Any()
				_ = cond.Clamped()
			})
		default:
			// every Context method on one operand pair, including zero precision
			op := []string{"add", "sub", "mul", "quo", "quoint", "rem", "abs", "neg", "round", "reduce", "cmp", "quantize", "rtie", "rtiv", "ceil", "floor", "sqrt", "cbrt"}[g.r.Intn(18)]
			def := ctxOps[op]
			var y *apd.Decimal
			if def.arity == 2 {
				y = g.related(c, x, false)
			}
			if op == "sqrt" || op == "cbrt" {
				if c.Precision > 30 {
					c.Precision = 30
				}
				if x.Form == apd.Finite && (x.Exponent > 300 || x.Exponent < -300) {
					x.Exponent = int32(g.r.Intn(600) - 300)
				}
			}
			if g.r.Intn(4) == 0 {
				c.Traps = g.traps()
			}
			rn.ctxCase(op, c, x, y, int32(g.r.Intn(21)-10))
		}
	}
}

// ---------- text stream: formatting, re-parsing, Compose/Decompose, float64 round trip (C13, C14) ----------

func hx(s string) string {
	if s == "" {
		return "-"
	}
	return hex.EncodeToString([]byte(s))
}

func reparse(s string) string {
	d, _, err := apd.NewFromString(s)
	if err != nil {
		return "err"
	}
	return showDec(d)
}

func (rn *runner) textCase(g *gen, d *apd.Decimal) {
	verb := []rune{'e', 'E', 'f', 'F', 'g', 'G', 'v', 's'}[g.r.Intn(8)]
	fl := []string{"", "+", "-", " ", "0", "+0", "-0", "+-", " 0", "+ "}[g.r.Intn(10)]
	w := -1
	if g.r.Intn(3) != 0 {
		w = g.r.Intn(30)
	}
	in := fmt.Sprintf("%s %c %s %d", showDec(d), verb, hx(fl), w)
	rn.rawCase("text", in, true, "text", func() string {
		var parts []string
		for _, v := range []byte{'G', 'g', 'E', 'e', 'f'} {
			t := d.Text(v)
			parts = append(parts, hx(t), reparse(t))
		}
		// String / MarshalText / Value agree with Text('G')
		same := "same"
		mt, _ := d.MarshalText()
		val, _ := d.Value()
		if d.String() != d.Text('G') || string(mt) != d.String() || val.(string) != d.String() {
			same = "string-variants-differ"
		}
		// fmt verb with flags and width, through the real fmt package
		spec := "%" + fl
		if w >= 0 {
			spec += fmt.Sprint(w)
		}
		spec += string(verb)
		parts = append(parts, hx(fmt.Sprintf(spec, d)), same)
		// Compose(Decompose(d))
		f, n, co, e := d.Decompose(nil)
		var y apd.Decimal
		y.Form = apd.NaNSignaling // junk pre-state
		if err := y.Compose(f, n, co, e); err != nil {
			parts = append(parts, "compose-err")
		} else {
			parts = append(parts, showDec(&y))
		}
		// the same verb with the sign flags only (no width, no '0', no '-'): the text that the padding rules of fmt
		// are applied to - the driver evaluates those rules on this output (C14_format_minus/_left/_width)
		sf := strings.NewReplacer("0", "", "-", "").Replace(fl)
		parts = append(parts, hx(fmt.Sprintf("%"+sf+string(verb), d)))
		return strings.Join(parts, " ")
	})
}

// decompCase: Decompose into a buffer of a given capacity, Compose into a destination with a junk pre-state;
// then Compose again from a zero-padded coefficient and from an unknown form byte (C13; model: Model/Decompose.lean).
func (rn *runner) decompCase(g *gen, d *apd.Decimal) {
	capN := int(g.pick(0, 0, 1, 8, 16, 64, 4096))
	pre := junk(rn.r)
	pad := int(g.pick(0, 1, 3))
	badForm := byte(3 + g.r.Intn(253))
	in := fmt.Sprintf("%s %d %s %d %d", showDec(d), capN, showDec(pre), pad, badForm)
	rn.rawCase("decomp", in, true, "decomp", func() string {
		var buf []byte
		if capN > 0 {
			buf = make([]byte, 0, capN)
		}
		before := showDec(d)
		f, n, co, e := d.Decompose(buf)
		y := new(apd.Decimal).Set(pre)
		r1 := "compose-err"
		if err := y.Compose(f, n, co, e); err == nil {
			r1 = showDec(y)
		}
		// zero-padded coefficient: the same value
		z := new(apd.Decimal).Set(pre)
		padded := append(make([]byte, pad), co...)
		r2 := "compose-err"
		if err := z.Compose(f, n, padded, e); err == nil {
			r2 = showDec(z)
		}
		// unknown form: an error, destination untouched
		u := new(apd.Decimal).Set(pre)
		r3 := "accepted"
		if err := u.Compose(badForm, n, co, e); err != nil {
			r3 = "rejected:" + showDec(u)
		}
		op := "operand-same"
		if showDec(d) != before {
			op = "operand-changed"
		}
		nb := "0"
		if n {
			nb = "1"
		}
		return fmt.Sprintf("%d %s %s %d %s %s %s %s", f, nb, hx(string(co)), e, r1, r2, r3, op)
	})
}

func (rn *runner) floatCase(bits uint64) {
	rn.rawCase("float", fmt.Sprint(bits), true, "float", func() string {
		f := math.Float64frombits(bits)
		// the destination holds something else before (sign, form, exponent of an earlier value)
		d := *junk(rn.r)
		if _, err := d.SetFloat64(f); err != nil {
			return "seterr"
		}
		back, err := d.Float64()
		if err != nil {
			return showDec(&d) + " float64err"
		}
		rt := "roundtrip"
		if math.Float64bits(back) != bits && !(math.IsNaN(f) && math.IsNaN(back)) {
			rt = "differs"
		}
		// shortest coefficient: the digits strconv prints with precision -1
		short := "shortest"
		if d.Form == apd.Finite {
			digits := strings.NewReplacer(".", "", "-", "").Replace(strings.SplitN(fmt.Sprintf("%e", f), "e", 2)[0])
			_ = digits
			s := strings.SplitN(strings.TrimPrefix(strconvE(f), "-"), "E", 2)[0]
			s = strings.Replace(s, ".", "", 1)
			s = strings.TrimLeft(s, "0")
			if s == "" {
				s = "0"
			}
			if d.Coeff.String() != s {
				short = "notshortest"
			}
		}
		return showDec(&d) + " " + rt + " " + short
	})
}

func (rn *runner) streamText(g *gen) {
	for i := 0; i < rn.n; i++ {
		c := g.ctx(false, false)
		var d *apd.Decimal
		switch g.r.Intn(10) {
		case 0: // around the scientific/plain switch-over: adjusted exponent -6/-7
			d = g.finite(c, false)
			d.Exponent = int32(-int64(d.NumDigits()) + 1 - int64(g.pick(5, 6, 7, 8)))
		case 1: // zeros around -2000/-2001 and other exponents
			d = apd.New(0, int32(g.pick(0, 1, -1, -6, -7, -8, -1999, -2000, -2001, 5, -100000, 100000)))
			d.Negative = g.r.Intn(2) == 0
		case 2:
			d = special(apd.Form(1+g.r.Intn(3)), g.r.Intn(2) == 0)
		case 3: // full exponent range (rarely: plain notation of 1E+100000 is 100001 characters)
			d = g.finite(c, g.r.Intn(40) == 0)
		case 4: // exponent 0 / positive / small negative
			d = g.finite(c, false)
			d.Exponent = int32(g.pick(0, 1, 2, 5, -1, -2, -3))
		default:
			d = g.decimal(c, false)
		}
		rn.textCase(g, d)
		if i%3 == 0 {
			rn.decompCase(g, d)
		}
		if i%12 == 0 {
			// exponents beyond the package limits, up to the ends of int32: scientific notation only
			// (plain notation of such a value would have billions of characters)
			nd := 1 + g.r.Intn(20)
			e := g.pick(math.MaxInt32, math.MaxInt32-1, math.MaxInt32-int64(nd), math.MaxInt32-int64(nd)+1, math.MaxInt32-int64(nd)+2,
				math.MinInt32, math.MinInt32+1, math.MinInt32+int64(nd), 100001, 200000, -100001-int64(nd), -300000, 1<<30, -(1 << 30))
			x := decFromBig(g.coeff(nd), e, g.r.Intn(2) == 0)
			if x.Coeff.Sign() != 0 {
				rn.rawCase("sci", showDec(x), true, "sci", func() string {
					return hx(x.String()) + " " + hx(x.Text('E')) + " " + hx(x.Text('e')) + " " + hx(x.Text('g'))
				})
			}
		}
		if i%3 == 0 {
			var bits uint64
			switch g.r.Intn(6) {
			case 0:
				bits = uint64(g.r.Intn(2048))<<52 | uint64(g.pick(0, 1, 1<<52-1, 1<<51))
			case 1:
				bits = g.r.Uint64()
			case 2:
				bits = math.Float64bits(float64(g.r.Intn(1000)) / 8)
			case 3:
				bits = math.Float64bits(math.Pow(10, float64(g.r.Intn(600)-300)))
			case 4:
				bits = uint64(g.r.Intn(4)) << 62
			default:
				bits = g.r.Uint64() &^ (1 << 63)
			}
			rn.floatCase(bits)
		}
	}
}

func strconvE(f float64) string { return strconv.FormatFloat(f, 'E', -1, 64) }
