//go:build verif

package main

import (
	"fmt"
	"math/big"
	"strings"

	"github.com/cockroachdb/apd/v3"
)

// ---------- bigint stream: method sequences on live receivers, mirrored on math/big ----------

func (g *gen) bigValue() *big.Int {
	one := big.NewInt(1)
	var v *big.Int
	switch g.r.Intn(15) {
	case 12, 13: // k*k, k*k-1, k*k+1 with k*k just below a representation boundary (2^53: float64 exactness;
		// 2^64, 2^128: inline words) - where a root computed through another number type goes wrong first
		top := uint(g.pick(53, 53, 64, 128, 106))
		lim := new(big.Int).Sqrt(new(big.Int).Lsh(one, top)) // floor(sqrt(2^top))
		k := new(big.Int).Sub(lim, new(big.Int).Rand(g.r, new(big.Int).Rsh(lim, 2)))
		v = new(big.Int).Mul(k, k)
		v.Add(v, big.NewInt(g.pick(0, -1, -1, 1)))
		return v
	case 14: // around 2^53 and 2^24 (float64 / float32 exactness)
		v = new(big.Int).Lsh(one, uint(g.pick(24, 52, 53, 54)))
		v.Add(v, big.NewInt(int64(g.r.Intn(5)-2)))
		return v
	case 0:
		v = big.NewInt(int64(g.r.Intn(5) - 2))
	case 1:
		v = new(big.Int).Lsh(one, uint(g.pick(31, 32, 33)))
	case 2:
		v = new(big.Int).Lsh(one, uint(g.pick(62, 63, 64, 65)))
	case 3:
		v = new(big.Int).Lsh(one, uint(g.pick(126, 127, 128, 129)))
	case 4:
		v = new(big.Int).Rand(g.r, new(big.Int).Lsh(one, 64))
	case 5:
		v = new(big.Int).Rand(g.r, new(big.Int).Lsh(one, 128))
	case 6:
		v = new(big.Int).Rand(g.r, new(big.Int).Lsh(one, uint(1+g.r.Intn(300))))
	case 7:
		v = new(big.Int).Rand(g.r, new(big.Int).Lsh(one, uint(1+g.r.Intn(4096))))
	case 8:
		v = big.NewInt(int64(g.r.Intn(1000)))
	default:
		v = new(big.Int).Lsh(one, uint(g.pick(32, 63, 64, 127, 128)))
	}
	if g.r.Intn(3) == 0 {
		v.Add(v, big.NewInt(int64(g.r.Intn(5)-2)))
	}
	if g.r.Intn(2) == 0 {
		v.Neg(v)
	}
	return v
}

func b2s(b bool) string {
	if b {
		return "1"
	}
	return "0"
}

// describe a receiver: value/sign/bitlen/isint64/isuint64/cmp0
func descApd(z *apd.BigInt) string {
	var zero apd.BigInt
	return fmt.Sprintf("%s/%d/%d/%s/%s/%d", z.String(), z.Sign(), z.BitLen(), b2s(z.IsInt64()), b2s(z.IsUint64()), z.Cmp(&zero))
}
func descBig(z *big.Int) string {
	return fmt.Sprintf("%s/%d/%d/%s/%s/%d", z.String(), z.Sign(), z.BitLen(), b2s(z.IsInt64()), b2s(z.IsUint64()), z.Cmp(new(big.Int)))
}

// canon: representation invariants from the hook: inline negative => non-zero.
func canon(z *apd.BigInt) string {
	inline, neg, words := apd.VerifBigIntState(z)
	if inline && neg {
		nz := false
		for _, w := range words {
			if w != 0 {
				nz = true
			}
		}
		if !nz {
			return "negzero"
		}
	}
	if inline {
		return "i"
	}
	return "h"
}

var bigMethods = []string{"Add", "Sub", "Mul", "Quo", "Rem", "QuoRem", "Abs", "Neg", "Set", "SetInt64", "SetUint64",
	"Cmp", "CmpAbs", "Sign", "Bit", "BitLen", "IsInt64", "IsUint64", "Int64", "Uint64"}

func (rn *runner) bigSeqCase(g *gen) {
	const pool = 3
	var av [pool]*apd.BigInt
	var bv [pool]*big.Int
	var sb strings.Builder
	for i := 0; i < pool; i++ {
		v := g.bigValue()
		bv[i] = v
		av[i] = new(apd.BigInt).SetMathBigInt(v)
		fmt.Fprintf(&sb, "%s ", v.String())
	}
	n := 3 + g.r.Intn(8)
	type step struct {
		m          string
		zi, xi, yi int
	}
	var steps []step
	for i := 0; i < n; i++ {
		steps = append(steps, step{bigMethods[g.r.Intn(len(bigMethods))], g.r.Intn(pool), g.r.Intn(pool), g.r.Intn(pool)})
	}
	fmt.Fprintf(&sb, "%d", n)
	for _, s := range steps {
		fmt.Fprintf(&sb, " %s %d %d %d", s.m, s.zi, s.xi, s.yi)
	}
	rn.rawCase("bigseq", sb.String(), true, "bigseq", func() string {
		var out []string
		for _, s := range steps {
			z, x, y := av[s.zi], av[s.xi], av[s.yi]
			bz, bx, by := bv[s.zi], bv[s.xi], bv[s.yi]
			res, ref := "skip", "skip"
			// operands that must stay unchanged (when they are not the receiver)
			xBefore, yBefore := bx.String(), by.String()
			switch s.m {
			case "Add":
				z.Add(x, y)
				bz.Add(bx, by)
				res, ref = descApd(z)+"/"+canon(z), descBig(bz)
			case "Sub":
				z.Sub(x, y)
				bz.Sub(bx, by)
				res, ref = descApd(z)+"/"+canon(z), descBig(bz)
			case "Mul":
				z.Mul(x, y)
				bz.Mul(bx, by)
				res, ref = descApd(z)+"/"+canon(z), descBig(bz)
			case "Quo":
				if by.Sign() != 0 {
					z.Quo(x, y)
					bz.Quo(bx, by)
					res, ref = descApd(z)+"/"+canon(z), descBig(bz)
				}
			case "Rem":
				if by.Sign() != 0 {
					z.Rem(x, y)
					bz.Rem(bx, by)
					res, ref = descApd(z)+"/"+canon(z), descBig(bz)
				}
			case "QuoRem":
				if by.Sign() != 0 {
					var r apd.BigInt
					br := new(big.Int)
					z.QuoRem(x, y, &r)
					bz.QuoRem(bx, by, br)
					res, ref = descApd(z)+"/"+canon(z)+"|"+descApd(&r)+"/"+canon(&r), descBig(bz)+"|"+descBig(br)
				}
			case "Abs":
				z.Abs(x)
				bz.Abs(bx)
				res, ref = descApd(z)+"/"+canon(z), descBig(bz)
			case "Neg":
				z.Neg(x)
				bz.Neg(bx)
				res, ref = descApd(z)+"/"+canon(z), descBig(bz)
			case "Set":
				z.Set(x)
				bz.Set(bx)
				res, ref = descApd(z)+"/"+canon(z), descBig(bz)
			case "SetInt64":
				if bx.IsInt64() {
					z.SetInt64(bx.Int64())
					bz.SetInt64(bx.Int64())
					res, ref = descApd(z)+"/"+canon(z), descBig(bz)
				}
			case "SetUint64":
				if bx.IsUint64() {
					z.SetUint64(bx.Uint64())
					bz.SetUint64(bx.Uint64())
					res, ref = descApd(z)+"/"+canon(z), descBig(bz)
				}
			case "Cmp":
				res, ref = fmt.Sprint(z.Cmp(x)), fmt.Sprint(bz.Cmp(bx))
			case "CmpAbs":
				res, ref = fmt.Sprint(z.CmpAbs(x)), fmt.Sprint(bz.CmpAbs(bx))
			case "Sign":
				res, ref = fmt.Sprint(z.Sign()), fmt.Sprint(bz.Sign())
			case "Bit":
				res, ref = fmt.Sprint(z.Bit(0)), fmt.Sprint(bz.Bit(0))
			case "BitLen":
				res, ref = fmt.Sprint(z.BitLen()), fmt.Sprint(bz.BitLen())
			case "IsInt64":
				res, ref = b2s(z.IsInt64()), b2s(bz.IsInt64())
			case "IsUint64":
				res, ref = b2s(z.IsUint64()), b2s(bz.IsUint64())
			case "Int64":
				// math/big leaves the result undefined when it does not fit; both take the low 64 bits
				res, ref = fmt.Sprint(z.Int64()), fmt.Sprint(bz.Int64())
			case "Uint64":
				res, ref = fmt.Sprint(z.Uint64()), fmt.Sprint(bz.Uint64())
			}
			// operand immutability (operands that are not the receiver)
			mut := "ok"
			if s.xi != s.zi && (av[s.xi].String() != xBefore) {
				mut = "xchanged"
			}
			if s.yi != s.zi && (av[s.yi].String() != yBefore) {
				mut = "ychanged"
			}
			out = append(out, res+" "+ref+" "+mut)
		}
		return strings.Join(out, " ")
	})
}

// bigWrapCase compares one wrapper method (no fast path) with math/big directly.
func (rn *runner) bigWrapCase(g *gen) {
	methods := []string{"And", "Or", "Xor", "AndNot", "Not", "Lsh", "Rsh", "Div", "Mod", "DivMod", "Exp", "GCD", "Sqrt", "SetBit",
		"Text", "Bytes", "TrailingZeroBits", "SetString", "ModInverse", "MulAlias", "AddAlias", "QuoRemAlias", "SqrAlias"}
	m := methods[g.r.Intn(len(methods))]
	bx, by := g.bigValue(), g.bigValue()
	k := uint(g.r.Intn(200))
	// alias pattern between receiver and operands (math/big, the reference, is alias-safe: its result is
	// computed from the operand values on separate objects)
	pat := ""
	switch m {
	case "And", "Or", "Xor", "AndNot", "Div", "Mod", "DivMod", "Exp", "Not", "Lsh", "Rsh", "SetBit":
		pat = []string{"", "", "@z=x", "@z=y", "@x=y", "@z=x=y"}[g.r.Intn(6)]
		if (m == "Not" || m == "Lsh" || m == "Rsh" || m == "SetBit" || m == "Exp") && pat != "" {
			pat = "@z=x"
		}
	}
	if pat == "@x=y" || pat == "@z=x=y" {
		by = new(big.Int).Set(bx)
	}
	in := fmt.Sprintf("%s%s %s %s %d", m, pat, bx.String(), by.String(), k)
	rn.rawCase("bigwrap", in, true, "bigwrap-"+m+pat, func() string {
		x := new(apd.BigInt).SetMathBigInt(bx)
		y := new(apd.BigInt).SetMathBigInt(by)
		z := new(apd.BigInt).SetMathBigInt(g0)
		switch pat {
		case "@z=x":
			z = x
		case "@z=y":
			z = y
		case "@x=y":
			y = x
		case "@z=x=y":
			y = x
			z = x
		}
		bz := new(big.Int).Set(g0)
		res, ref := "skip", "skip"
		switch m {
		case "And":
			z.And(x, y)
			bz.And(bx, by)
		case "Or":
			z.Or(x, y)
			bz.Or(bx, by)
		case "Xor":
			z.Xor(x, y)
			bz.Xor(bx, by)
		case "AndNot":
			z.AndNot(x, y)
			bz.AndNot(bx, by)
		case "Not":
			z.Not(x)
			bz.Not(bx)
		case "Lsh":
			z.Lsh(x, k)
			bz.Lsh(bx, k)
		case "Rsh":
			z.Rsh(x, k)
			bz.Rsh(bx, k)
		case "Div":
			if by.Sign() == 0 {
				return "skip skip"
			}
			z.Div(x, y)
			bz.Div(bx, by)
		case "Mod":
			if by.Sign() == 0 {
				return "skip skip"
			}
			z.Mod(x, y)
			bz.Mod(bx, by)
		case "DivMod":
			if by.Sign() == 0 {
				return "skip skip"
			}
			var mm apd.BigInt
			bm := new(big.Int)
			z.DivMod(x, y, &mm)
			bz.DivMod(bx, by, bm)
			return descApd(z) + "|" + descApd(&mm) + "/" + canon(z) + canon(&mm) + " " + descBig(bz) + "|" + descBig(bm)
		case "Exp":
			// exponent small, zero or negative; modulus nil, zero, positive or NEGATIVE (math/big reduces modulo |m|;
			// nil and 0 mean "no modulus"; a negative exponent needs an inverse, else the result is nil)
			var mod *big.Int
			switch k % 4 {
			case 1:
				mod = new(big.Int)
			case 2:
				mod = new(big.Int).Abs(by)
			case 3:
				mod = new(big.Int).Neg(new(big.Int).Abs(by))
			}
			e := big.NewInt(int64(k%9) - 2)
			if mod != nil && mod.Sign() != 0 {
				e = big.NewInt(int64(k*7) - 300)
			}
			ae := new(apd.BigInt).SetMathBigInt(e)
			var am *apd.BigInt
			if mod != nil {
				am = new(apd.BigInt).SetMathBigInt(mod)
			}
			r1 := z.Exp(x, ae, am)
			r2 := bz.Exp(bx, e, mod)
			if (r1 == nil) != (r2 == nil) {
				return "nildiffers skip"
			}
			if r1 == nil {
				return "skip skip"
			}
		case "GCD":
			ax, ay := new(big.Int).Abs(bx), new(big.Int).Abs(by)
			if ax.Sign() == 0 || ay.Sign() == 0 {
				return "skip skip"
			}
			z.GCD(nil, nil, new(apd.BigInt).SetMathBigInt(ax), new(apd.BigInt).SetMathBigInt(ay))
			bz.GCD(nil, nil, ax, ay)
		case "Sqrt":
			ax := new(big.Int).Abs(bx)
			z.Sqrt(new(apd.BigInt).SetMathBigInt(ax))
			bz.Sqrt(ax)
		case "SetBit":
			z.SetBit(x, int(k), uint(k%2))
			bz.SetBit(bx, int(k), uint(k%2))
		case "Text":
			base := 2 + int(k%35)
			return x.Text(base) + "/" + string(x.Append(nil, base)) + " " + bx.Text(base) + "/" + string(bx.Append(nil, base))
		case "Bytes":
			// ... and FillBytes / SetBytes with a REUSED buffer that still holds other bytes and is longer than the
			// value needs (math/big zero-extends; a too short buffer panics in both)
			need := (bx.BitLen() + 7) / 8
			buf1, buf2 := make([]byte, need+int(k%9)), make([]byte, need+int(k%9))
			for i := range buf1 {
				buf1[i], buf2[i] = byte(0xa0+i), byte(0xa0+i)
			}
			f1, f2 := x.FillBytes(buf1), bx.FillBytes(buf2)
			var sb apd.BigInt
			sb.SetBytes(f1)
			return fmt.Sprintf("x%x/x%x/%s x%x/x%x/%s", x.Bytes(), f1, sb.String(), bx.Bytes(), f2, new(big.Int).SetBytes(f2).String())
		case "TrailingZeroBits":
			return fmt.Sprintf("%d %d", x.TrailingZeroBits(), bx.TrailingZeroBits())
		case "SetString":
			s := bx.String()
			_, ok1 := z.SetString(s, 10)
			_, ok2 := bz.SetString(s, 10)
			if ok1 != ok2 {
				return "okdiffers skip"
			}
		case "ModInverse":
			ay := new(big.Int).Abs(by)
			if ay.Sign() == 0 {
				return "skip skip"
			}
			r1 := z.ModInverse(x, new(apd.BigInt).SetMathBigInt(ay))
			r2 := bz.ModInverse(bx, ay)
			if (r1 == nil) != (r2 == nil) {
				return "nildiffers skip"
			}
			if r1 == nil {
				return "skip skip"
			}
		case "MulAlias": // z = z * z, z = z * y
			z.Set(x)
			bz.Set(bx)
			z.Mul(z, z)
			bz.Mul(bz, bz)
			z.Mul(z, y)
			bz.Mul(bz, by)
		case "AddAlias":
			z.Set(x)
			bz.Set(bx)
			z.Add(z, z)
			bz.Add(bz, bz)
			z.Sub(y, z)
			bz.Sub(by, bz)
		case "QuoRemAlias":
			if by.Sign() == 0 {
				return "skip skip"
			}
			z.Set(x)
			bz.Set(bx)
			var r apd.BigInt
			br := new(big.Int)
			z.QuoRem(z, y, &r)
			bz.QuoRem(bz, by, br)
			return descApd(z) + "|" + descApd(&r) + "/" + canon(z) + canon(&r) + " " + descBig(bz) + "|" + descBig(br)
		case "SqrAlias":
			z.Set(x)
			bz.Set(bx)
			for i := 0; i < 3; i++ {
				z.Mul(z, z)
				bz.Mul(bz, bz)
			}
			z.Quo(z, x.Abs(x).Add(x, apd.NewBigInt(1)))
			bz.Quo(bz, new(big.Int).Add(new(big.Int).Abs(bx), big.NewInt(1)))
		}
		if res == "skip" {
			res, ref = descApd(z)+"/"+canon(z), descBig(bz)
		}
		return res + " " + ref
	})
}

var g0 = big.NewInt(12345)

func (rn *runner) streamBigInt(g *gen) {
	for i := 0; i < rn.n; i++ {
		if g.r.Intn(3) == 0 {
			rn.bigWrapCase(g)
		} else {
			rn.bigSeqCase(g)
		}
	}
}
