//go:build verif

package main

import (
	"fmt"
	"strings"

	"github.com/cockroachdb/apd/v3"
)

// ---------- alias stream: every aliasing pattern and several destination pre-states (C05, C06) ----------

func sameDec(a, b *apd.Decimal) bool {
	return a.Form == b.Form && a.Negative == b.Negative && a.Exponent == b.Exponent && a.Coeff.Cmp(&b.Coeff) == 0 &&
		a.Coeff.Sign() == b.Coeff.Sign()
}

func outStr(d *apd.Decimal, r apd.Condition, e error, aux int64, traps apd.Condition) string {
	return fmt.Sprintf("%s %d %s %d", showDec(d), uint32(r), errKind(e, r, traps), aux)
}

// aliasCase runs op under the patterns: fresh destination (three different pre-states), d==x, d==y,
// x==y (when the operands are equal), d==x==y, and reports operand/context/package-state immutability.
func (rn *runner) aliasCase(op string, c *apd.Context, x, y *apd.Decimal, iarg int32) {
	def := ctxOps[op]
	in := fmt.Sprintf("%s %s %s %s %d", op, showCtx(c), showDec(x), optDec(y, def.arity), iarg)
	rn.rawCase("alias", in, true, "alias-"+op, func() string {
		var parts []string
		imm := "ok"
		snap0, _ := apd.VerifSnapshot()
		run := func(name string, mkArgs func() (d, xx, yy *apd.Decimal)) {
			cc := *c
			d, xx, yy := mkArgs()
			r, e, aux := def.run(&cc, d, xx, yy, iarg)
			parts = append(parts, name+" "+outStr(d, r, e, aux, c.Traps))
			if xx != d && !sameDec(xx, x) {
				imm = "x-modified-in-" + name
			}
			if yy != nil && yy != d && yy != xx && !sameDec(yy, y) {
				imm = "y-modified-in-" + name
			}
			if cc != *c {
				imm = "context-modified-in-" + name
			}
		}
		cp := func(d *apd.Decimal) *apd.Decimal {
			if d == nil {
				return nil
			}
			return new(apd.Decimal).Set(d)
		}
		// fresh destination with three pre-states
		run("fresh", func() (*apd.Decimal, *apd.Decimal, *apd.Decimal) { return new(apd.Decimal), cp(x), cp(y) })
		run("fresh-nan", func() (*apd.Decimal, *apd.Decimal, *apd.Decimal) {
			return &apd.Decimal{Form: apd.NaN, Negative: true}, cp(x), cp(y)
		})
		run("fresh-big", func() (*apd.Decimal, *apd.Decimal, *apd.Decimal) {
			d := mk("-123456789012345678901234567890123456789012345678901234567890E+77")
			d.Form = apd.Infinite
			return d, cp(x), cp(y)
		})
		run("d=x", func() (*apd.Decimal, *apd.Decimal, *apd.Decimal) { xx := cp(x); return xx, xx, cp(y) })
		// the same with operands whose coefficient is heap-backed whatever its size (a value that was
		// once large): struct copies and "heap means large" shortcuts show here
		run("fresh~heap", func() (*apd.Decimal, *apd.Decimal, *apd.Decimal) {
			return new(apd.Decimal), heapify(cp(x)), heapify(cp(y))
		})
		run("d=x~heap", func() (*apd.Decimal, *apd.Decimal, *apd.Decimal) { xx := heapify(cp(x)); return xx, xx, heapify(cp(y)) })
		if def.arity == 2 {
			run("d=y~heap", func() (*apd.Decimal, *apd.Decimal, *apd.Decimal) { yy := heapify(cp(y)); return yy, heapify(cp(x)), yy })
			run("d=y", func() (*apd.Decimal, *apd.Decimal, *apd.Decimal) { yy := cp(y); return yy, cp(x), yy })
			if sameDec(x, y) {
				run("x=y", func() (*apd.Decimal, *apd.Decimal, *apd.Decimal) { xx := cp(x); return new(apd.Decimal), xx, xx })
				run("d=x=y", func() (*apd.Decimal, *apd.Decimal, *apd.Decimal) { xx := cp(x); return xx, xx, xx })
			}
		}
		snap1, _ := apd.VerifSnapshot()
		sn := "ok"
		if snap0 != snap1 {
			sn = "package-state-changed"
		}
		return strings.Join(parts, " ; ") + " ; imm " + imm + " ; snap " + sn
	})
}

// heapify moves the coefficient of d to the heap without changing its value (a BigInt that has held a
// value beyond its inline array stays heap-backed).
func heapify(d *apd.Decimal) *apd.Decimal {
	if d == nil {
		return nil
	}
	d.Coeff.Lsh(&d.Coeff, 200)
	d.Coeff.Rsh(&d.Coeff, 200)
	return d
}

// methCase: Decimal.Neg/Abs/Reduce/Set/Modf with outputs aliasing the receiver.
func (rn *runner) methCase(x *apd.Decimal) {
	in := showDec(x)
	rn.rawCase("methalias", in, x.Form == apd.Finite, "methalias", func() string {
		cp := func() *apd.Decimal { return new(apd.Decimal).Set(x) }
		var parts []string
		// Neg, Abs, Reduce, Set : fresh vs in place
		{
			a, b := new(apd.Decimal), cp()
			a.Neg(cp())
			b.Neg(b)
			parts = append(parts, "neg "+showDec(a)+" "+showDec(b))
		}
		{
			a, b := junk(rn.r), cp()
			a.Abs(cp())
			b.Abs(b)
			parts = append(parts, "abs "+showDec(a)+" "+showDec(b))
		}
		{
			a, b := junk(rn.r), cp()
			_, n1 := a.Reduce(cp())
			_, n2 := b.Reduce(b)
			parts = append(parts, fmt.Sprintf("reduce %s/%d %s/%d", showDec(a), n1, showDec(b), n2))
		}
		{
			a, b := junk(rn.r), cp()
			a.Set(cp())
			b.Set(b)
			parts = append(parts, "set "+showDec(a)+" "+showDec(b))
		}
		if x.Form == apd.Finite {
			// Modf: fresh outputs; integ == receiver; frac == receiver
			i0, f0 := junk(rn.r), junk(rn.r)
			cp().Modf(i0, f0)
			d1 := cp()
			f1 := junk(rn.r)
			d1.Modf(d1, f1)
			d2 := cp()
			i2 := junk(rn.r)
			d2.Modf(i2, d2)
			parts = append(parts, fmt.Sprintf("modf %s,%s %s,%s %s,%s", showDec(i0), showDec(f0), showDec(d1), showDec(f1), showDec(i2), showDec(d2)))
		}
		return strings.Join(parts, " ; ")
	})
}

func (rn *runner) streamAlias(g *gen, opList []string) {
	if len(opList) == 0 {
		for k := range ctxOps {
			opList = append(opList, k)
		}
		sortStrings(opList)
	}
	type probe struct {
		op   string
		c    *apd.Context
		x, y *apd.Decimal
		iarg int32
		want string
	}
	var probes []probe
	probeRun := func(p probe) string {
		return rn.runOutPre(p.op, p.c, p.x, p.y, p.iarg, new(apd.Decimal))
	}
	for i := 0; i < rn.n; i++ {
		op := opList[g.r.Intn(len(opList))]
		def := ctxOps[op]
		composite := op == "exp" || op == "ln" || op == "log10" || op == "pow" || op == "sqrt" || op == "cbrt"
		var c *apd.Context
		var x, y *apd.Decimal
		if composite {
			c = g.rootCtx()
			if c.Precision > 16 {
				c.Precision = uint32(1 + g.r.Intn(16))
			}
			x = g.smallOperand(c)
			if def.arity == 2 {
				y = g.smallOperand(c)
				if g.r.Intn(4) == 0 {
					y = new(apd.Decimal).Set(x)
				}
				if op == "pow" && g.r.Intn(5) == 0 {
					// integer exponents large enough for the power to leave the working exponent range: the
					// overflow/underflow exits of the integer path, under every aliasing pattern
					x = mk([]string{"10", "0.1", "7", "1.5", "-10", "0.3", "1E+5", "1E-5"}[g.r.Intn(8)])
					y = apd.New(g.pick(150000, 200000, 400000, 99999999, 3, 2), 0)
					y.Negative = g.r.Intn(2) == 0
				} else if op == "pow" && g.r.Intn(6) == 0 {
					// fractional exponents whose FRACTIONAL part fails inside the working context (Ln/Exp/Mul of an
					// operand at the edge of the package's exponent range raise a condition that BaseContext traps):
					// the internal-error exit of Pow, under every aliasing pattern (repo 592c65a)
					c = apd.BaseContext.WithPrecision(uint32(1 + g.r.Intn(16)))
					x = mk([]string{"1E-99999", "1E-100000", "3E-99998", "1E+99999", "9.9E+99999", "1E+60000"}[g.r.Intn(6)])
					y = mk([]string{"0.9999", "1.5", "0.5", "2.0001", "1.99999", "0.99"}[g.r.Intn(6)])
					y.Negative = g.r.Intn(3) == 0
				}
			}
		} else {
			c = g.ctx(def.p0, false)
			switch {
			case (op == "quo" || op == "quoint" || op == "rem") && g.r.Intn(3) == 0:
				x, y = g.divPair(c)
			case def.arity == 2:
				x = g.decimal(c, false)
				y = g.related(c, x, false)
				if g.r.Intn(4) == 0 {
					y = new(apd.Decimal).Set(x)
				}
			default:
				x = g.decimal(c, false)
			}
		}
		if g.r.Intn(4) == 0 {
			c.Traps = g.traps()
		}
		var iarg int32
		if def.hasInt {
			iarg = int32(int64(x.Exponent) + int64(g.r.Intn(int(x.NumDigits())+3)) - 1)
		}
		rn.aliasCase(op, c, x, y, iarg)
		if i%7 == 0 {
			rn.methCase(g.decimal(c, false))
		}
		// history probes: remember some calls and re-run them later
		if len(probes) < 40 && i%11 == 0 {
			p := probe{op: op, c: c, x: x, y: y, iarg: iarg}
			p.want = probeRun(p)
			probes = append(probes, p)
		}
		if i%500 == 499 {
			for _, p := range probes {
				got := probeRun(p)
				st := "same"
				if got != p.want {
					st = "differs"
				}
				in := fmt.Sprintf("%s %s %s %s %d", p.op, showCtx(p.c), showDec(p.x), optDec(p.y, ctxOps[p.op].arity), p.iarg)
				rn.rawCase("history", in, true, "history", func() string { return st })
			}
		}
	}
}
