//go:build verif

package main

import (
	"fmt"
	"strings"
	"sync"

	"github.com/cockroachdb/apd/v3"
)

// The decision tape: what Exp and Ln decided in float64 arithmetic during one call (hook
// apd.VerifTape). The Lean model replays the call with these decisions and computes everything else.
var (
	tapeMu  sync.Mutex
	tapeBuf []string
	tapeOn  bool
)

var tapeOps = map[string]bool{"exp": true, "ln": true, "log10": true, "pow": true, "sqrt": true, "cbrt": true}

func init() {
	apd.VerifTape = func(kind string, n int64, d *apd.Decimal) {
		tapeMu.Lock()
		defer tapeMu.Unlock()
		if !tapeOn {
			return
		}
		switch kind {
		case "exp.cp":
			tapeBuf = append(tapeBuf, fmt.Sprintf("c%d", n))
		case "exp.n":
			tapeBuf = append(tapeBuf, fmt.Sprintf("n%d", n))
		case "ln.est":
			tapeBuf = append(tapeBuf, "e"+showDec(d))
		case "sqrt.iter":
			// observation point, not a decision: the iterate the precision-doubling loop of Sqrt ended with
			tapeBuf = append(tapeBuf, "a"+showDec(d))
		case "cbrt.iter":
			// observation point: the iterate the Newton loop of Cbrt ended with (loop.done reported convergence)
			tapeBuf = append(tapeBuf, "b"+showDec(d))
		}
	}
}

func tapeStart() {
	tapeMu.Lock()
	tapeBuf, tapeOn = nil, true
	tapeMu.Unlock()
}

func tapeStop() string {
	tapeMu.Lock()
	defer tapeMu.Unlock()
	tapeOn = false
	return "T=" + strings.Join(tapeBuf, ",")
}
