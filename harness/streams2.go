package main

import (
	"fmt"
	"hash/fnv"
	"math"
	"math/big"
	"sort"
	"strconv"
	"strings"

	"github.com/cockroachdb/apd/v3"
)

// rawCase emits one line of a non-ctxop kind; f returns the text after "=>".
func (rn *runner) rawCase(kind, input string, nontrivial bool, tag string, f func() string) {
	rn.snapCheck(false)
	res := guarded(func() callResult {
		return callResult{panic: "", d: nil, err: nil, aux: 0, res: 0, hang: false, text: f()}
	})
	rn.lines++
	id := strconv.Itoa(rn.lines)
	full := kind + " " + input
	switch {
	case res.hang:
		rn.st.Hangs++
		rn.st.note(kind, full, "hang", 0, true, "hang")
		fmt.Fprintf(rn.w, "%s %s => HANG\n", id, full)
	case res.panic != "":
		rn.st.Panics++
		rn.st.note(kind, full, "panic", 0, true, "panic")
		fmt.Fprintf(rn.w, "%s %s => PANIC\n", id, full)
	default:
		rn.st.note(kind, full, "none", 0, nontrivial, tag)
		fmt.Fprintf(rn.w, "%s %s => %s\n", id, full, res.text)
	}
}

// ---------- digits stream: NumDigits on integers of every bit length, Decimal.Reduce ----------

func (rn *runner) numDigitsCase(b *big.Int, tag string) {
	in := b.String()
	rn.rawCase("numdigits", in, true, tag, func() string {
		var z apd.BigInt
		z.SetMathBigInt(b)
		dv := apd.NumDigits(&z)
		// the same value with a heap-backed representation (a wide value shrunk in place): the digit count is a
		// function of the value, not of where it is stored; a differing count is reported in place of the direct one
		var h, w apd.BigInt
		wide := new(big.Int).Mul(b, pow10(50))
		h.SetMathBigInt(wide)
		w.SetMathBigInt(pow10(50))
		h.Quo(&h, &w)
		if hv := apd.NumDigits(&h); hv != dv {
			return strconv.FormatInt(hv, 10)
		}
		return strconv.FormatInt(dv, 10)
	})
}

func (rn *runner) reducedCase(x *apd.Decimal) {
	in := showDec(x)
	rn.rawCase("reduced", in, x.Form == apd.Finite, "reduce", func() string {
		xc := new(apd.Decimal).Set(x)
		d := junk(rn.r)
		_, n := d.Reduce(xc)
		return showDec(d) + " " + strconv.Itoa(n)
	})
}

// tightBitLengths returns the n bit lengths bl <= max for which bl*log10(2) is closest to an integer, from
// above and from below (computed with 300-bit floats: exact enough for every bl considered).
func tightBitLengths(max, n int) []int {
	l2 := new(big.Float).SetPrec(300)
	// log10(2) to 80 digits
	l2.SetString("0.30102999566398119521373889472449302676818988146210854131042746112710818927442450948")
	type cand struct {
		bl   int
		dist float64
	}
	var cs []cand
	for bl := 129; bl <= max; bl++ {
		x := new(big.Float).SetPrec(300).Mul(l2, big.NewFloat(float64(bl)))
		ip, _ := x.Int(nil)
		fr, _ := new(big.Float).Sub(x, new(big.Float).SetInt(ip)).Float64()
		d := fr
		if 1-fr < d {
			d = 1 - fr
		}
		cs = append(cs, cand{bl, d})
	}
	sort.Slice(cs, func(i, j int) bool { return cs[i].dist < cs[j].dist })
	var out []int
	for i := 0; i < n && i < len(cs); i++ {
		out = append(out, cs[i].bl)
	}
	sort.Ints(out)
	return out
}

func (rn *runner) streamDigits(g *gen, thorough bool) {
	one := big.NewInt(1)
	// every bit length 1..maxbl at 2^(k-1), 2^k-1, and the decimal boundaries inside, both signs
	maxbl := 140
	if thorough {
		maxbl = 700
	}
	for k := 1; k <= maxbl; k++ {
		lo := new(big.Int).Lsh(one, uint(k-1))
		hi := new(big.Int).Sub(new(big.Int).Lsh(one, uint(k)), one)
		for _, v := range []*big.Int{lo, hi} {
			rn.numDigitsCase(v, "pow2-boundary")
			rn.numDigitsCase(new(big.Int).Neg(v), "pow2-boundary-neg")
		}
		// powers of ten within [lo, hi]
		nd := len(lo.String())
		for j := nd - 1; j <= nd+1; j++ {
			if j < 0 {
				continue
			}
			p := pow10(j)
			for _, v := range []*big.Int{p, new(big.Int).Sub(p, one)} {
				if v.Cmp(lo) >= 0 && v.Cmp(hi) <= 0 {
					rn.numDigitsCase(v, "pow10-boundary")
					rn.numDigitsCase(new(big.Int).Neg(v), "pow10-boundary-neg")
				}
			}
		}
	}
	rn.numDigitsCase(big.NewInt(0), "zero")
	// 10^j-1, 10^j for many j (multi-thousand-bit values)
	top := 400
	if thorough {
		top = 6000
	}
	for j := 1; j <= top; j += 1 + j/40 {
		p := pow10(j)
		rn.numDigitsCase(p, "pow10")
		rn.numDigitsCase(new(big.Int).Sub(p, one), "nines")
		rn.numDigitsCase(new(big.Int).Neg(p), "pow10-neg")
	}
	// powers of two at large bit lengths (the float estimate is used above 128 bits)
	for k := 129; k <= top*3; k += 1 + k/30 {
		v := new(big.Int).Lsh(one, uint(k))
		rn.numDigitsCase(v, "pow2-large")
		rn.numDigitsCase(new(big.Int).Sub(v, one), "pow2-large")
		rn.numDigitsCase(new(big.Int).Neg(v), "pow2-large-neg")
	}
	// the bit lengths at which a digit count derived from the bit length is tightest: 2^bl just above (or
	// 2^bl - 1 just below) a power of ten. Any estimate bl*log10(2) with a truncated or rounded constant
	// goes wrong first here.
	maxTight, nTight := 60000, 40
	if thorough {
		maxTight, nTight = 120000, 150
	}
	for _, bl := range tightBitLengths(maxTight, nTight) {
		k := int(float64(bl) * 0.30102999566398119521)
		for _, j := range []int{k - 1, k, k + 1} {
			if j < 1 {
				continue
			}
			p := pow10(j)
			for _, v := range []*big.Int{p, new(big.Int).Sub(p, one), new(big.Int).Add(p, one)} {
				rn.numDigitsCase(v, "tight-pow10")
				rn.numDigitsCase(new(big.Int).Neg(v), "tight-pow10-neg")
			}
		}
		v := new(big.Int).Lsh(one, uint(bl))
		rn.numDigitsCase(v, "tight-pow2")
		rn.numDigitsCase(new(big.Int).Sub(v, one), "tight-pow2")
	}
	// random
	for i := 0; i < rn.n; i++ {
		bits := 1 + g.r.Intn(300)
		if g.r.Intn(10) == 0 {
			bits = 1 + g.r.Intn(5000)
		}
		v := new(big.Int).Rand(g.r, new(big.Int).Lsh(one, uint(bits)))
		if g.r.Intn(2) == 0 {
			v.Neg(v)
		}
		rn.numDigitsCase(v, "random")
		// Decimal.Reduce
		c := g.ctx(false, false)
		x := g.decimal(c, false)
		if g.r.Intn(3) == 0 && x.Form == apd.Finite {
			// force trailing zeros
			k := g.r.Intn(30)
			var p apd.BigInt
			p.SetMathBigInt(pow10(k))
			x.Coeff.Mul(&x.Coeff, &p)
		}
		rn.reducedCase(x)
	}
}

// ---------- order stream: Cmp / CmpTotal on triples ----------

func (rn *runner) orderCase(x, y, z *apd.Decimal) {
	in := showDec(x) + " " + showDec(y) + " " + showDec(z)
	nontrivial := x.Form == apd.Finite && y.Form == apd.Finite
	rn.rawCase("order3", in, nontrivial, "order", func() string {
		xc, yc, zc := new(apd.Decimal).Set(x), new(apd.Decimal).Set(y), new(apd.Decimal).Set(z)
		// the same values with heap-backed coefficients (a BigInt that once outgrew its inline array stays on the
		// heap): which operands, is a function of the input line, so that a replay repeats it
		hs := fnv.New32a()
		hs.Write([]byte(in))
		switch hs.Sum32() % 6 {
		case 1:
			heapify(xc)
		case 2:
			heapify(yc)
		case 3:
			heapify(xc)
			heapify(zc)
		case 4:
			heapify(xc)
			heapify(yc)
			heapify(zc)
		}
		var sb strings.Builder
		fmt.Fprintf(&sb, "%d %d %d %d %d %d %d %d", xc.Cmp(yc), yc.Cmp(xc), yc.Cmp(zc), xc.Cmp(zc),
			xc.CmpTotal(yc), yc.CmpTotal(xc), yc.CmpTotal(zc), xc.CmpTotal(zc))
		return sb.String()
	})
}

// variant returns a decimal related to x: same value at another exponent, a neighbour, a sign flip,
// or one whose digits+exponent sum coincides with x's.
func (g *gen) variant(c *apd.Context, x *apd.Decimal) *apd.Decimal {
	y := new(apd.Decimal).Set(x)
	if x.Form != apd.Finite {
		if g.r.Intn(2) == 0 {
			y.Negative = !y.Negative
		}
		if x.Form == apd.Infinite && g.r.Intn(2) == 0 {
			// two infinities left by different overflows in the same context: the unused fields differ in
			// the coefficient only (same exponent), in the exponent only, or in both - and carry no value
			switch g.r.Intn(3) {
			case 0:
				y.Coeff.SetInt64(int64(1 + g.r.Intn(999999)))
			case 1:
				y.Exponent = x.Exponent + int32(g.pick(1, -1, 7, -7))
			default:
				y.Coeff.SetInt64(int64(g.r.Intn(99)))
				y.Exponent = int32(g.r.Intn(41) - 20)
			}
		}
		return y
	}
	switch g.r.Intn(8) {
	case 0: // same value, more trailing zeros
		k := 1 + g.r.Intn(40)
		var p apd.BigInt
		p.SetMathBigInt(pow10(k))
		y.Coeff.Mul(&y.Coeff, &p)
		y.Exponent -= int32(k)
	case 1: // same digits+exponent sum, different digits
		n := int(x.NumDigits())
		co := g.coeff(n)
		y.Coeff.SetMathBigInt(co)
	case 2: // same sum with a different split
		n := int(x.NumDigits())
		m := 1 + g.r.Intn(n+5)
		y.Coeff.SetMathBigInt(g.coeff(m))
		y.Exponent = x.Exponent + int32(n) - int32(m)
	case 3:
		y.Negative = !y.Negative
	case 4: // neighbour
		var one apd.BigInt
		one.SetInt64(1)
		y.Coeff.Add(&y.Coeff, &one)
	case 5: // zero with some exponent
		y.Coeff.SetInt64(0)
	case 6: // big exponent gap
		y = g.finite(c, false)
		y.Exponent = x.Exponent + int32(g.pick(1, -1, 50, -50, 200, -200, 1000, -1000))
	default:
		y = g.decimal(c, false)
	}
	if y.Exponent > 99000 || y.Exponent < -99000 {
		y.Exponent = x.Exponent
	}
	return y
}

func (rn *runner) streamOrder(g *gen) {
	for i := 0; i < rn.n; i++ {
		c := g.ctx(false, false)
		x := g.decimal(c, false)
		if g.r.Intn(25) == 0 {
			x = g.garbageInf()
		}
		if g.r.Intn(12) == 0 {
			x = special(apd.Form(g.r.Intn(4)), g.r.Intn(2) == 0)
			if x.Form == apd.NaN || x.Form == apd.NaNSignaling {
				x.Coeff.SetInt64(int64(g.r.Intn(3))) // payload
			}
		}
		y := g.variant(c, x)
		z := g.variant(c, y)
		if g.r.Intn(3) == 0 {
			z = g.variant(c, x)
		}
		rn.orderCase(x, y, z)
		if i%25 == 0 {
			// zeros (and one non-zero value against zeros) with exponents anywhere in int32: the total order
			// ranks equal values by exponent, whatever the distance between the exponents
			es := []int64{math.MaxInt32, math.MinInt32, 1500000000, -1500000000, 1 << 30, -(1 << 30), 0, 1, -1, 100000, -100000}
			mkz := func() *apd.Decimal {
				d := apd.New(0, int32(es[g.r.Intn(len(es))]))
				d.Negative = g.r.Intn(2) == 0
				return d
			}
			a, b, cc := mkz(), mkz(), mkz()
			if g.r.Intn(4) == 0 {
				cc = apd.New(int64(g.r.Intn(9)+1), int32(g.r.Intn(7)-3))
			}
			rn.orderCase(a, b, cc)
		}
	}
}

// ---------- conv stream: Int64, Modf ----------

func (rn *runner) int64Case(d *apd.Decimal) {
	rn.rawCase("int64", showDec(d), true, "int64", func() string {
		dc := new(apd.Decimal).Set(d)
		v, err := dc.Int64()
		if err != nil {
			return "err"
		}
		return strconv.FormatInt(v, 10)
	})
}

func (rn *runner) modfCase(d *apd.Decimal, which int) {
	rn.rawCase("modf", showDec(d), d.Form == apd.Finite, "modf", func() string {
		dc := new(apd.Decimal).Set(d)
		integ, frac := junk(rn.r), junk(rn.r)
		switch which {
		case 0:
			dc.Modf(integ, frac)
			return showDec(integ) + " " + showDec(frac)
		case 1:
			dc.Modf(integ, nil)
			return showDec(integ) + " -"
		default:
			dc.Modf(nil, frac)
			return "- " + showDec(frac)
		}
	})
}

// f64Case: Decimal.Float64 must return the float64 nearest to the decimal value (reference: math/big.Rat).
func (rn *runner) f64Case(d *apd.Decimal) {
	rn.rawCase("f64", showDec(d), true, "f64", func() string {
		got, err := new(apd.Decimal).Set(d).Float64()
		r, ok := new(big.Rat).SetString(d.Text('E'))
		if !ok {
			return "noref"
		}
		want, _ := r.Float64()
		if err != nil {
			// strconv reports a range error for values that overflow float64; the value is still +-Inf
			if got == want {
				return "same"
			}
			return "err"
		}
		if got == want || (got != got && want != want) {
			return "same"
		}
		return fmt.Sprintf("differs:%v:%v", got, want)
	})
}

func (rn *runner) streamConv(g *gen) {
	maxI := new(big.Int).SetInt64(1<<63 - 1)
	minI := new(big.Int).Neg(new(big.Int).Lsh(big.NewInt(1), 63))
	for i := 0; i < rn.n; i++ {
		// values around the int64 boundaries times powers of ten
		var v *big.Int
		switch g.r.Intn(8) {
		case 0:
			v = new(big.Int).Add(maxI, big.NewInt(int64(g.r.Intn(5)-2)))
		case 1:
			v = new(big.Int).Add(minI, big.NewInt(int64(g.r.Intn(5)-2)))
		case 2:
			v = new(big.Int).Rand(g.r, new(big.Int).Lsh(big.NewInt(1), 66))
		case 3:
			v = new(big.Int).Lsh(big.NewInt(1), uint(60+g.r.Intn(8)))
			v.Add(v, big.NewInt(int64(g.r.Intn(3)-1)))
		case 4:
			v = big.NewInt(g.r.Int63())
		case 5:
			v = big.NewInt(int64(g.r.Intn(2000) - 1000))
		default:
			v = g.coeff(1 + g.r.Intn(22))
		}
		if g.r.Intn(2) == 0 {
			v = new(big.Int).Neg(v)
		}
		// represent v with a shifted exponent: v = coeff * 10^e, possibly with extra trailing zeros / digits
		d := new(apd.Decimal)
		k := g.r.Intn(6)
		co := new(big.Int).Abs(v)
		exp := int32(0)
		switch g.r.Intn(5) {
		case 0: // trailing zeros moved into the exponent
			for k > 0 && new(big.Int).Mod(co, big.NewInt(10)).Sign() == 0 && co.Sign() != 0 {
				co.Div(co, big.NewInt(10))
				exp++
				k--
			}
		case 1: // extra zeros with negative exponent
			co.Mul(co, pow10(k))
			exp = -int32(k)
		case 2: // a fractional part
			co.Mul(co, pow10(k))
			co.Add(co, big.NewInt(int64(g.r.Intn(3))))
			exp = -int32(k)
		case 3: // positive exponent
			exp = int32(g.r.Intn(4))
		}
		d.Coeff.SetMathBigInt(co)
		d.Negative = v.Sign() < 0
		d.Exponent = exp
		if g.r.Intn(30) == 0 {
			d = special(apd.Form(1+g.r.Intn(3)), g.r.Intn(2) == 0)
		}
		if g.r.Intn(40) == 0 {
			d.Coeff.SetInt64(0)
			d.Exponent = int32(g.pick(0, 5, -5, 100000, -100000, 19, 20))
		}
		rn.int64Case(d)
		c := g.ctx(false, false)
		m := g.decimal(c, false)
		if g.r.Intn(2) == 0 {
			m = d
		}
		rn.modfCase(m, g.r.Intn(3))
		// Float64 of decimals with up to 20 digits and moderate exponents (incl. 16-digit coefficients above 2^53)
		nd := 1 + g.r.Intn(20)
		if g.r.Intn(3) == 0 {
			nd = 16
		}
		fd := decFromBig(g.coeff(nd), int64(g.r.Intn(61)-30), g.r.Intn(2) == 0)
		if g.r.Intn(3) == 0 {
			fd.Exponent = int32(g.r.Intn(700) - 350)
		}
		rn.f64Case(fd)
		rn.f64Case(g.nearFloatMidpoint())
	}
}

// nearFloatMidpoint returns a decimal at, or a far digit away from, the exact midpoint of two
// adjacent float64 values (or a float64 itself): the inputs on which "nearest float64" is decided by a
// digit arbitrarily far down the coefficient.
func (g *gen) nearFloatMidpoint() *apd.Decimal {
	var f float64
	switch g.r.Intn(4) {
	case 0:
		f = float64(uint64(1)<<53 + uint64(g.r.Intn(1<<20))) // integers above 2^53
	case 1:
		f = math.Float64frombits(g.r.Uint64()&0x000fffffffffffff | uint64(1023-40+g.r.Intn(100))<<52)
	case 2:
		f = math.Float64frombits(g.r.Uint64()&0x000fffffffffffff | uint64(1+g.r.Intn(2046))<<52) // any normal
	default:
		f = math.Float64frombits(g.r.Uint64() & 0x000fffffffffffff) // subnormal
	}
	next := math.Nextafter(f, math.Inf(1))
	m := new(big.Float).SetPrec(2000).SetFloat64(f)
	if g.r.Intn(5) != 0 && !math.IsInf(next, 0) {
		m.Add(m, new(big.Float).SetPrec(2000).SetFloat64(next))
		m.Quo(m, big.NewFloat(2))
	}
	d := new(apd.Decimal)
	if _, _, err := d.SetString(m.Text('e', 1100)); err != nil {
		return apd.New(1, 0)
	}
	d.Reduce(d) // the exact decimal expansion of the midpoint
	// move a far digit: append k zeros and add -1, 0 or +1
	k := int64(g.pick(1, 2, 5, 17, 18, 20, 34, 35, 40, 60, 100, 300))
	delta := int64(g.r.Intn(3) - 1)
	co := d.Coeff.MathBigInt()
	co.Mul(co, pow10(int(k)))
	co.Add(co, big.NewInt(delta))
	d.Coeff.SetMathBigInt(co)
	d.Exponent -= int32(k)
	d.Negative = g.r.Intn(2) == 0
	return d
}
