package main

import (
	"math/big"
	"math/rand"
	"os"
	"strings"

	"github.com/cockroachdb/apd/v3"
)

// All randomness comes from one *rand.Rand seeded from VERIF_SEED / -seed.
type gen struct {
	r *rand.Rand
}

var modes = []apd.Rounder{
	apd.RoundDown, apd.RoundHalfUp, apd.RoundHalfEven, apd.RoundCeiling,
	apd.RoundFloor, apd.RoundHalfDown, apd.RoundUp, apd.Round05Up, "",
}

func (g *gen) pick(xs ...int64) int64 { return xs[g.r.Intn(len(xs))] }

// ctx generates a well-formed context: 1 <= P <= Emax <= 100000, -100000 <= Emin <= 0.
// allowP0 permits Precision 0 occasionally.
// narrow gives c a narrow exponent range, MaxExponent below Precision. Nothing in the package forbids
// it; C01/C07 exclude it from their domain ("Precision <= MaxExponent"), C09/C10 quantify over all contexts.
func (g *gen) narrow(c *apd.Context) {
	if c.Precision > 1 {
		c.MaxExponent = int32(g.r.Intn(int(c.Precision)))
	}
}

// exploreNarrow (env VERIF_NARROW=1) lets every stream draw contexts with MaxExponent < Precision; an
// exploration aid, off in the registered checks (C01/C07 exclude such contexts from their domain).
var exploreNarrow = os.Getenv("VERIF_NARROW") == "1"

func (g *gen) ctx(allowP0 bool, big bool) *apd.Context {
	var p int64
	switch g.r.Intn(10) {
	case 0, 1:
		p = g.pick(1, 2, 3)
	case 2, 3, 4:
		p = g.pick(4, 5, 6, 7, 9)
	case 5, 6:
		p = g.pick(16, 34)
	case 7:
		p = int64(1 + g.r.Intn(60))
	case 8:
		p = int64(1 + g.r.Intn(12))
	default:
		// ... and the precisions next to a machine-word boundary of the coefficient (10^19 < 2^64 < 10^20,
		// 10^38 < 2^128 < 10^39): a fast path on uint64 / the inline words has its last case there
		p = g.pick(1, 2, 3, 5, 9, 18, 19, 19, 20, 38, 39)
	}
	if allowP0 && g.r.Intn(12) == 0 {
		p = 0
	}
	var emax, emin int64
	switch g.r.Intn(8) {
	case 0:
		emax = p
	case 1:
		emax = p + 1
	case 2:
		emax = 2*p + 1
	case 3:
		emax = 99
	case 4:
		emax = 999
	case 5:
		emax = 6144
	case 6:
		if big {
			emax = 100000
		} else {
			emax = 384
		}
	default:
		emax = p + int64(g.r.Intn(20))
	}
	if emax < p {
		emax = p
	}
	if emax < 1 {
		emax = 1
	}
	if exploreNarrow && p > 1 && g.r.Intn(6) == 0 {
		emax = int64(g.r.Intn(int(p)))
	}

	switch g.r.Intn(9) {
	case 0:
		emin = 0
	case 1:
		emin = -1
	case 2:
		emin = -3
	case 3:
		emin = -p
	case 4:
		emin = -99
	case 5:
		emin = -999
	case 6:
		emin = -6143
	case 7:
		if big {
			emin = -100000
		} else {
			emin = -383
		}
	default:
		emin = -int64(g.r.Intn(20))
	}
	c := &apd.Context{
		Precision:   uint32(p),
		MaxExponent: int32(emax),
		MinExponent: int32(emin),
		Rounding:    modes[g.r.Intn(len(modes))],
	}
	return c
}

func (g *gen) traps() apd.Condition {
	switch g.r.Intn(6) {
	case 0:
		return 0
	case 1:
		return apd.Condition(1) << uint(g.r.Intn(12))
	case 2:
		return apd.DefaultTraps
	case 3:
		return apd.Condition(4095)
	case 4:
		return apd.Condition(g.r.Intn(4096))
	default:
		return apd.Inexact | apd.Rounded
	}
}

func pow10(k int) *big.Int {
	return new(big.Int).Exp(big.NewInt(10), big.NewInt(int64(k)), nil)
}

// digits chooses a digit count relative to the precision p.
func (g *gen) digits(p int) int {
	if p < 1 {
		p = 7
	}
	var n int
	switch g.r.Intn(16) {
	case 0, 1:
		n = 1 + g.r.Intn(3)
	case 2:
		n = p - 1
	case 3, 4:
		n = p
	case 5, 6:
		n = p + 1
	case 7:
		n = 2 * p
	case 8:
		n = 2*p + 1
	case 9:
		n = int(g.pick(18, 19, 20, 21))
	case 10:
		n = int(g.pick(37, 38, 39, 40))
	case 11:
		n = 1 + g.r.Intn(60)
	case 12:
		n = p + 2 + g.r.Intn(5)
	case 13:
		if g.r.Intn(8) == 0 {
			n = 100 + g.r.Intn(200)
		} else {
			n = 1 + g.r.Intn(2*p+2)
		}
	default:
		n = 1 + g.r.Intn(p+3)
	}
	if n < 1 {
		n = 1
	}
	return n
}

// coeff builds an n-digit coefficient with an interesting shape.
func (g *gen) coeff(n int) *big.Int {
	randDigits := func(n int) *big.Int {
		var sb strings.Builder
		sb.WriteByte(byte('1' + g.r.Intn(9)))
		for i := 1; i < n; i++ {
			sb.WriteByte(byte('0' + g.r.Intn(10)))
		}
		z, _ := new(big.Int).SetString(sb.String(), 10)
		return z
	}
	one := big.NewInt(1)
	switch g.r.Intn(14) {
	case 0: // 10^(n-1)
		return pow10(n - 1)
	case 1: // 10^(n-1)+1
		return new(big.Int).Add(pow10(n-1), one)
	case 2: // all nines
		return new(big.Int).Sub(pow10(n), one)
	case 3: // ties: d..d5 0..0 with k kept digits
		k := 1 + g.r.Intn(n)
		if k >= n {
			return randDigits(n)
		}
		z := randDigits(k)
		z.Mul(z, pow10(n-k))
		z.Add(z, new(big.Int).Mul(big.NewInt(5), pow10(n-k-1)))
		return z
	case 4: // near tie below: kept digits then 49..9
		k := 1 + g.r.Intn(n)
		if k >= n {
			return randDigits(n)
		}
		z := randDigits(k)
		z.Mul(z, pow10(n-k))
		z.Add(z, new(big.Int).Sub(new(big.Int).Mul(big.NewInt(5), pow10(n-k-1)), one))
		return z
	case 5: // near tie above: kept digits then 50..01
		k := 1 + g.r.Intn(n)
		if k >= n {
			return randDigits(n)
		}
		z := randDigits(k)
		z.Mul(z, pow10(n-k))
		z.Add(z, new(big.Int).Add(new(big.Int).Mul(big.NewInt(5), pow10(n-k-1)), one))
		return z
	case 6: // nines then something: 99..9x..
		k := 1 + g.r.Intn(n)
		z := new(big.Int).Sub(pow10(k), one)
		if k < n {
			z.Mul(z, pow10(n-k))
			z.Add(z, new(big.Int).Rand(g.r, pow10(n-k)))
		}
		return z
	case 7: // trailing zeros
		k := 1 + g.r.Intn(n)
		z := randDigits(k)
		z.Mul(z, pow10(n-k))
		return z
	case 8: // even / odd kept digit then exact half
		if n < 2 {
			return randDigits(n)
		}
		z := randDigits(n - 1)
		z.Mul(z, big.NewInt(10))
		z.Add(z, big.NewInt(5))
		return z
	default:
		return randDigits(n)
	}
}

// finite generates a finite decimal whose adjusted exponent is steered towards the interesting
// places of context c. extreme allows exponents near the package limits.
func (g *gen) finite(c *apd.Context, extreme bool) *apd.Decimal {
	p := int(c.Precision)
	n := g.digits(p)
	co := g.coeff(n)
	n = len(co.String())
	emin := int64(c.MinExponent)
	emax := int64(c.MaxExponent)
	etiny := emin - int64(p) + 1
	var adj int64
	switch g.r.Intn(20) {
	case 0, 1, 2:
		adj = int64(g.r.Intn(9)) - 4
	case 3:
		adj = emin - 1
	case 4:
		adj = emin
	case 5:
		adj = emin + 1
	case 6:
		adj = etiny - 1 + int64(g.r.Intn(3))
	case 7:
		adj = etiny - int64(g.r.Intn(6))
	case 8:
		adj = etiny + int64(g.r.Intn(p+1))
	case 9:
		adj = emax
	case 10:
		adj = emax + 1
	case 11:
		adj = emax - 1
	case 12:
		adj = emin - int64(g.r.Intn(p+3))
	case 13:
		if extreme {
			adj = g.pick(100000, -100000, 99999, -99999)
		} else {
			adj = int64(g.r.Intn(41)) - 20
		}
	case 14:
		adj = int64(g.r.Intn(2*p+4)) - int64(p+2)
	default:
		adj = int64(g.r.Intn(21)) - 10
	}
	exp := adj - int64(n-1)
	// keep well-formed: |exp| and |adj| within the package limits
	if exp < -100000 {
		exp = -100000
	}
	if exp > 100000 {
		exp = 100000
	}
	if exp+int64(n-1) > 100000 {
		exp = 100000 - int64(n-1)
	}
	if exp+int64(n-1) < -100000 {
		exp = -100000
	}
	d := apd.NewWithBigInt(new(apd.BigInt).SetMathBigInt(co), int32(exp))
	d.Negative = g.r.Intn(2) == 0
	if g.r.Intn(25) == 0 {
		// a zero with this exponent
		d.Coeff.SetInt64(0)
	}
	return d
}

func special(form apd.Form, neg bool) *apd.Decimal {
	return &apd.Decimal{Form: form, Negative: neg}
}

// garbageInf is an infinity whose unused Coeff/Exponent fields are not zero, as produced by an
// operation that overflowed.
func (g *gen) garbageInf() *apd.Decimal {
	d := apd.New(int64(1+g.r.Intn(999999)), int32(g.r.Intn(4001)-2000))
	d.Form = apd.Infinite
	d.Negative = g.r.Intn(2) == 0
	return d
}

// decimal generates any well-formed decimal (mostly finite).
func (g *gen) decimal(c *apd.Context, extreme bool) *apd.Decimal {
	switch g.r.Intn(40) {
	case 0:
		if g.r.Intn(3) == 0 {
			return g.garbageInf()
		}
		return special(apd.Infinite, g.r.Intn(2) == 0)
	case 1:
		return special(apd.NaN, g.r.Intn(2) == 0)
	case 2:
		return special(apd.NaNSignaling, g.r.Intn(2) == 0)
	}
	return g.finite(c, extreme)
}

// related generates y related to x (equal, negated, nearby exponent gap, cancellation).
func (g *gen) related(c *apd.Context, x *apd.Decimal, extreme bool) *apd.Decimal {
	if x.Form != apd.Finite {
		return g.decimal(c, extreme)
	}
	p := int64(c.Precision)
	y := new(apd.Decimal)
	switch g.r.Intn(10) {
	case 0:
		y.Set(x)
	case 1:
		y.Set(x)
		y.Negative = !y.Negative
	case 2: // same coefficient +-1, opposite sign: cancellation
		y.Set(x)
		y.Negative = !y.Negative
		var one apd.BigInt
		one.SetInt64(1)
		y.Coeff.Add(&y.Coeff, &one)
	case 3, 4: // exponent gap
		y = g.finite(c, false)
		gap := g.pick(0, 1, 2, p-1, p, p+1, 2*p, 2*p+1, 40, 128, 129)
		if g.r.Intn(2) == 0 {
			gap = -gap
		}
		e := int64(x.Exponent) + gap
		if e > 99000 || e < -99000 {
			e = int64(x.Exponent)
		}
		y.Exponent = int32(e)
	default:
		y = g.decimal(c, extreme)
	}
	return y
}

// divPair builds x = q*y + r shapes for Quo / QuoInteger / Rem.
func (g *gen) divPair(c *apd.Context) (*apd.Decimal, *apd.Decimal) {
	p := int(c.Precision)
	if p < 1 {
		p = 5
	}
	y := g.finite(c, false)
	if y.Coeff.Sign() == 0 {
		y.Coeff.SetInt64(int64(1 + g.r.Intn(999)))
	}
	yc := y.Coeff.MathBigInt()
	q := g.coeff(g.digits(p))
	var r *big.Int
	switch g.r.Intn(6) {
	case 0:
		r = big.NewInt(0)
	case 1:
		r = big.NewInt(1)
	case 2:
		r = new(big.Int).Rsh(yc, 1)
	case 3:
		r = new(big.Int).Add(new(big.Int).Rsh(yc, 1), big.NewInt(1))
	case 4:
		r = new(big.Int).Sub(yc, big.NewInt(1))
	default:
		r = new(big.Int).Rand(g.r, yc)
	}
	if r.Cmp(yc) >= 0 || r.Sign() < 0 {
		r = big.NewInt(0)
	}
	xc := new(big.Int).Mul(q, yc)
	xc.Add(xc, r)
	x := apd.NewWithBigInt(new(apd.BigInt).SetMathBigInt(xc), y.Exponent)
	// shift x's exponent so the quotient lands in interesting places
	sh := g.pick(0, 0, 0, 1, -1, 2, -2, int64(p), -int64(p))
	e := int64(x.Exponent) + sh
	if e > 99000 || e < -99000 {
		e = int64(x.Exponent)
	}
	x.Exponent = int32(e)
	x.Negative = g.r.Intn(2) == 0
	return x, y
}
