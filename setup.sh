#!/bin/sh
# Build the verification framework from files on disk only (offline): translator, regenerated Lean
# definitions, every Lean module (model, driver executable, theorems), and a first harness build.
set -e
cd "$(dirname "$0")"
export GOFLAGS=-mod=mod GOPROXY=off GOSUMDB=off GOTOOLCHAIN=local CGO_ENABLED=0
mkdir -p work evidence lean/ApdVerif/Gen
cp /repo/go.sum harness/go.sum
(cd harness && go build -o ../work/xlate ./cmd/xlate)
./work/xlate -repo /repo -out lean/ApdVerif/Gen
(cd harness && go build -tags verif -o ../work/harness_setup .)
mods=$(python3 - <<'P'
import sys
sys.path.insert(0,'tools')
import props
ms=[]
for p in props.PROPS.values():
    for m in p.get('lean_modules',[]):
        if m not in ms: ms.append(m)
print(' '.join(ms))
P
)
(cd lean && lake build driver $mods)
echo setup-ok
