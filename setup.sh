#!/bin/sh
# Build the verification framework from files on disk only (offline): translator, regenerated Lean
# definitions, the model driver executable, the theorem modules of every claimed property, and a first
# harness build. A theorem module that fails to build does not fail the setup: the property's own
# check reports it.
set -e
cd "$(dirname "$0")"
export GOFLAGS=-mod=mod GOPROXY=off GOSUMDB=off GOTOOLCHAIN=local CGO_ENABLED=0
mkdir -p work evidence lean/ApdVerif/Gen
cp /repo/go.sum harness/go.sum
(cd harness && go build -o ../work/xlate ./cmd/xlate)
./work/xlate -repo /repo -out lean/ApdVerif/Gen || echo "setup: translator reported unsupported constructs"
(cd harness && go build -tags verif -o ../work/harness_setup .)
(cd lean && lake build driver)
mods=$(python3 - <<'P'
import sys, json
sys.path.insert(0,'tools')
import props
claimed=[c['property_id'] for c in json.load(open('MANIFEST.json'))['checks']]
ms=[]
for pid in claimed:
    for m in props.PROPS.get(pid,{}).get('lean_modules',[]):
        if m not in ms: ms.append(m)
print(' '.join(ms))
P
)
(cd lean && lake build $mods) || echo "setup: some theorem modules did not build; the checks will report them"
echo setup-ok
