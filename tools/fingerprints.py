#!/usr/bin/env python3
"""Source tie by structural fingerprint.

The Lean model is written by hand from one particular text of each Go function. harness/cmd/xlate hashes the syntax tree
(comments and layout ignored) of every top-level declaration of /repo; tools/fingerprints.json holds the hashes of the
text the model was validated against; RULES says which properties a declaration bears on. A declaration that changed,
appeared or disappeared breaks the tie of those properties: their checks widen the search and, if no failing input turns
up, report `no-failing-input-found` naming the declaration - the property is no longer shown to hold for that source.
C04 and C18 are not gated (they are decided by exploration of the compiled code, whatever its text).

    python3 tools/fingerprints.py update      rewrite tools/fingerprints.json from /repo (after a reviewed change)
"""
import json, os, re, subprocess, sys
ROOT = os.path.dirname(os.path.dirname(os.path.abspath(__file__)))
EXPECTED = os.path.join(ROOT, 'tools', 'fingerprints.json')

RULES = [  # first match wins: (regex on the declaration key, properties)
    (r'^(BigInt_|type:BigInt|var:big|const:inline|var:negSentinel|negSentinel|.*[Ii]nline$|mulInline|addInline|subInline|quoInline|remInline|NewBigInt|noescape|type:intStruct|const:(bigIntSize|mathBigIntSize|mathWordSize|wordsInUint64))', ['C16', 'C05']),
    (r'^(Context_Sqrt|sqrtSettle|Context_Cbrt|Context_rootSpecials|loop_|Context_newLoop|type:loop|var:decimalCbrt|const:digitsToBitsRatio|const:strCbrt)', ['C11', 'C03', 'C07', 'C08', 'C05', 'C02']),
    (r'^(Context_Ln|Context_Log10|Context_Exp|Context_Pow|Context_integerPower|Context_logSpecials|constWithPrecision_|type:constWithPrecision|makeConst|var:decimal(Ln|InvLn|Log|E$)|var:ln10|const:strLn|const:strInvLn)', ['C12', 'C03', 'C07', 'C08', 'C02', 'C05', 'C06']),
    (r'^(Context_Quantize|Context_quantize|Context_toIntegral|Context_RoundToIntegral|Context_Ceil|Context_Floor)', ['C09', 'C20', 'C03', 'C05', 'C06', 'C08', 'C02']),
    (r'^(Context_QuoInteger|Context_Rem)$', ['C10', 'C02', 'C03', 'C05', 'C06', 'C07', 'C08']),
    (r'^(Context_Add|Context_add|Context_Sub|Context_Mul|Context_Quo|Context_quoSpecials|Context_Abs|Context_Neg|Context_Round|Context_round|Rounder_|round[A-Z0]|roundAddOne|Decimal_setExponent|upscale|type:Rounder|const:Round|var:roundings)', ['C01', 'C02', 'C07', 'C20', 'C03', 'C05', 'C06', 'C08', 'C09', 'C10']),
    (r'^(Context_Reduce|Decimal_Reduce|ErrDecimal_Reduce)$', ['C19', 'C06', 'C03']),
    (r'^(NumDigits|Decimal_NumDigits|makeDigitsLookupTable|tableExp10|makePow10LookupTable|setBigWithPow|exp10|type:tableVal|var:(digitsLookupTable|pow10LookupTable)|const:(digitsTableSize|powerTenTableSize))', ['C19', 'C06', 'C01', 'C15']),
    (r'^(Decimal_Cmp|Decimal_CmpTotal|Decimal_cmpOrder|Context_Cmp)$', ['C15', 'C08']),
    (r'^(Decimal_setString|Decimal_SetString|NewFromString|Context_NewFromString|Context_SetString|consumePrefix|asciiLower)$', ['C14', 'C13', 'C01', 'C07']),
    (r'^(Decimal_Text|Decimal_String|Decimal_Append|Decimal_Format|fmtE|fmtF|writeMultiple|const:lowestZero)', ['C14', 'C13']),
    (r'^(Decimal_Decompose|Decimal_Compose|Decimal_Scan|Decimal_Value|Decimal_MarshalText|Decimal_UnmarshalText|NullDecimal_|type:NullDecimal|type:decomposer)', ['C13']),
    (r'^(Decimal_SetFloat64|Decimal_Float64)$', ['C13', 'C17']),
    (r'^(Decimal_Int64|Decimal_Modf|Decimal_SetInt64|Decimal_SetFinite|Decimal_setCoefficient|New|NewWithBigInt)$', ['C17', 'C05', 'C09']),
    (r'^(Decimal_Set|Decimal_setSlow|Decimal_Neg|Decimal_Abs|Decimal_setBig|Decimal_Sign|Decimal_IsZero|Context_setAsNaN|Context_shouldSetAsNaN|type:Decimal|type:Form|const:(Finite|Infinite|NaN|NaNSignaling))', ['C05', 'C06', 'C08']),
    (r'^(Condition_|type:Condition|const:(SystemOverflow|SystemUnderflow|Overflow|Underflow|Inexact|Subnormal|Rounded|DivisionUndefined|DivisionByZero|DivisionImpossible|InvalidOperation|Clamped|DefaultTraps))', ['C02', 'C03']),
    (r'^(Context_goError|Context_WithPrecision|Context_etiny|ErrDecimal_|MakeErrDecimal|type:ErrDecimal|type:Context|var:BaseContext|const:err)', ['C03', 'C06']),
    (r'^(const:(MaxExponent|MinExponent|unknownNumDigits)|var:decimal|var:errExponent|const:adjExponent)', ['C01', 'C07', 'C14']),
    (r'^(init(#\\d+)?|verifTape)$', ['C06', 'C12', 'C11']),
    (r'^(Form_String|const:_Form_name|var:_Form_index|Decimal_Size|const:decimalSize)$', ['C13']),
]
_compiled = [(re.compile(p), props) for p, props in RULES]

def props_of(key):
    for rx, props in _compiled:
        if rx.search(key):
            return props
    return []

def broken_for(pid, actual):
    """declarations bearing on property `pid` whose fingerprint differs from the recorded one"""
    exp = json.load(open(EXPECTED))
    out = []
    for k in sorted(set(exp) | set(actual)):
        if pid not in props_of(k):
            continue
        if k not in actual: out.append(k + ' (removed)')
        elif k not in exp: out.append(k + ' (new)')
        elif exp[k] != actual[k]: out.append(k)
    return out

if __name__ == '__main__':
    if sys.argv[1:] == ['update']:
        env = dict(os.environ, GOFLAGS='-mod=mod', GOPROXY='off', GOSUMDB='off', GOTOOLCHAIN='local')
        xl = os.path.join(ROOT, 'work', 'xlate')
        subprocess.run(['go', 'build', '-o', xl, './cmd/xlate'], cwd=os.path.join(ROOT, 'harness'), env=env, check=True)
        subprocess.run([xl, '-repo', '/repo', '-out', os.path.join(ROOT, 'work', 'gen_fp'), '-fingerprints', EXPECTED], env=env)
        exp = json.load(open(EXPECTED))
        un = [k for k in exp if not props_of(k)]
        print('%d declarations recorded; %d bear on no gated property: %s' % (len(exp), len(un), ' '.join(sorted(un))))
    else:
        print(__doc__)
