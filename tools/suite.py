#!/usr/bin/env python3
"""Run /repo's test suite (guard off) and compare with the pinned baseline's stable_pass list."""
import json, subprocess, sys, os
env=dict(os.environ, GOFLAGS='-mod=mod', GOPROXY='off', GOSUMDB='off', GOTOOLCHAIN='local')
tags=sys.argv[1:] 
cmd=['go','test','-json','-vet=off','-count=1','-timeout','25m']+tags+['./...']
p=subprocess.run(cmd,cwd='/repo',env=env,capture_output=True,text=True)
res={}
for l in p.stdout.splitlines():
    try: e=json.loads(l)
    except Exception: continue
    if e.get('Action') in ('pass','fail','skip') and e.get('Test'):
        res[e['Package']+'::'+e['Test']]=e['Action']
b=json.load(open('/root/.vp/BASELINE.json'))
bad=[t for t in b['stable_pass'] if res.get(t)!='pass']
print('tests run',len(res),'baseline',len(b['stable_pass']),'not passing',len(bad))
for t in bad[:20]: print('  ',t,res.get(t))
sys.exit(1 if bad else 0)
