#!/usr/bin/env python3
"""Second wave of proof-agent prompts (model-writing tasks). Writes /tmp/ag/<name>/PROMPT.md."""
import os
pre = open('/verif/tools/agent_preamble.md').read()
pre = pre.replace("YOUR JOB: replace every `sorry` in ApdVerif/Props/{FILE}.lean by a real proof.",
                  "YOUR JOB is described under SPECIFIC TASK below (this time you also WRITE new model/spec files, not only proofs).")
pre = pre.replace("Work ONLY inside {WS}. Never touch /verif or /repo.",
                  "Work ONLY inside {WS}. Never modify /verif or /repo (you MAY READ the Go source under /repo - it is the code being modelled; the fixes already applied there are part of it).")
proto = open('/verif/DESIGN.md').read().split('### A.2 Store-level layer')[1].split('### A.4 Throughput')[0]

tasks = {}
tasks['spec'] = ('Rational', '''SPECIFIC TASK: relate the executable integer-level specification oracle (ApdVerif/Oracle/Round.lean, Oracle/Exact.lean) to a
READABLE specification over the rationals Q. Create ApdVerif/Spec/Rational.lean (Mathlib allowed there) and
ApdVerif/Props/Rational.lean with:
  1. `noncomputable def Exact.toRat (v : Exact) : Q := (if v.neg then -1 else 1) * (v.num / v.den) * 10^v.e10` (zpow), and
     `Dec.toRat` for finite decimals; `SpecOut.toRat` for finite results (m * 10^q with sign).
  2. the readable spec, written from the property text, NOT from the algorithm:
       IsAdj v a  :=  10^a <= v /\\ v < 10^(a+1)                      (v > 0; existence/uniqueness lemma)
       quantum c a := max (a - prec + 1) (emin - prec + 1)
       roundInt mode neg t := let n := floor t; if t = n then n else if specAddOne mode n.toNat neg (compare (t - n) (1/2)) then n+1 else n
       roundedMag c neg v a := (roundInt c.mode neg (v / 10^(quantum c a)) : Q) * 10^(quantum c a)
  3. theorems (for v = num/den*10^e10 with num, den > 0, and c.prec >= 1):
       `adjRat_isAdj`      : IsAdj (num/den) (adjRat num den)      (ApdVerif/Lemmas/C20Lemmas.lean already proves a version: `adjRat_spec`; reuse it - namespace Apd.C20L)
       `specRound_value`   : not overflow -> (specRound c v).m * 10^(specRound c v).q = roundedMag c v.neg |v| (adj)
       `specRound_overflow`: (specRound c v).inf <-> roundedMag ... >= 10^(emax+1)   (the rounded magnitude's adjusted exponent exceeds emax)
       `specRound_inexact` : (specRound c v).inexact <-> (overflow \\/ rounded value != exact value)
       `specRound_subnormal`: (specRound c v).subnormal <-> |v| < 10^emin  (v != 0)
       `specRound_bracket` : the rounded magnitude is one of the two multiples of 10^q enclosing |v|, and equals |v| when |v| is a multiple of 10^q
     and for the exact-value builders (Oracle/Exact.lean):
       `exactAdd_toRat`  : (exactAdd c x y sub).toRat = x.toRat +- y.toRat  (finite x y), plus the sign-of-zero rule stated separately
       `exactMul_toRat`, `exactQuo_toRat` (y.coeff != 0), `exactRound_toRat`, `exactAbs_toRat`, `exactNeg_toRat`
       `matches_iff` : for a finite d, `s.matches d = true <-> not s.inf /\\ d.neg = s.neg /\\ d.coeff * 10^d.exp = s.m * 10^s.q` (as rationals).
  Put the definitions in Spec/Rational.lean, the theorems in Props/Rational.lean (prefix every main theorem name with `Rat_`, e.g.
  `Rat_specRound_value`). Where a statement above turns out to need an extra hypothesis, add it and say so in the report; keep the
  statements as strong as you can. Finish with `#print axioms` for each.''')

tasks['imp'] = ('C05', '''SPECIFIC TASK: build the STORE-LEVEL layer used for properties C05 (any argument may alias the destination or another
argument), C06 (results depend only on operands and context; operands, context and shared constants are never modified)
and C18 (concurrent use). Everything you need is here:

(1) ApdVerif/Imp/Prog.lean (core only, executable): a free monad `Prog a` of field reads/writes on Decimal cells
    (`getForm/getNeg/getExp/getCoeff : Cell -> (val -> Prog a) -> Prog a`, `setForm/...: Cell -> val -> Prog a -> Prog a`, `ret`),
    `Cell := Nat`, `Heap := Cell -> Dec` (Dec from ApdVerif/Model/Basic.lean, coefficient is a Nat), `run : Prog a -> Heap -> a x Heap`,
    monad instance, `run_bind`, predicates `WritesOnly (S : Cell -> Prop)` and `Foot R W` (reads within R u W, writes within W), a
    small-step `step1`, `solo`, schedules `runSched` and the generic interleaving theorem `interleave_inv` (if the threads' write
    sets are pairwise disjoint from the other threads' read and write sets, then under EVERY schedule each thread's program
    and its view of the heap is a prefix of its solo run). A previous prototype of exactly this (for a 4-field Dec with Int
    coefficient) elaborated in this toolchain; its text is appended below as PROTOTYPE - port it (coeff : Nat).
(2) ApdVerif/Imp/Ops.lean (core only, executable): one store-level program per Go method, transcribed from /repo
    (decimal.go, context.go, round.go) with the STATEMENT ORDER and the read/write order at field granularity PRESERVED,
    pointer parameters as cells, Go locals (`var tmp Decimal`, BigInt temporaries) as Lean lets, the *Context passed as a
    value `Ctx` (no method writes it). Required: Decimal.Set, Neg, Abs, Reduce, Modf (outputs `Option Cell`); setAsNaN;
    Decimal.setExponent (on the destination cell); Rounder.Round(c,d,x) ; Context.Add/Sub (add), Abs, Neg, Round, Mul, Quo,
    QuoInteger, Rem, Cmp, Reduce, Quantize (+ quantize), RoundToIntegralValue/Exact, Ceil, Floor. Numeric kernels that work on
    values already read (e.g. the integer division inside Quo, `upscale`) may call the pure helpers of ApdVerif/Model/*.lean.
    Each program returns `(Cond x ErrKind x Int)` (flags, error class, aux int) and is packaged as
        def Imp.runCtxOp (op : String) (c : Ctx) (d x y : Cell) (iarg : Int) : Option (Prog (Cond x ErrKind x Int))
    with the same op names as `runCtxOp` in Driver.lean of your workspace ("add","sub","mul","quo","quoint","rem","abs","neg",
    "round","reduce","cmp","quantize","rtie","rtiv","ceil","floor"); y is ignored by unary ops.
    Package constants (decimalOne etc.) are Lean values, not cells.
(3) ApdVerif/Props/C05.lean: for every op above, every heap h and EVERY choice of cells d x y (so all aliasing patterns
    d==x, d==y, x==y, all equal, all distinct are covered by one statement):
        let ((fl, err, aux), h') := run (prog c d x y) h
        err = (model op c (h x) (h y)).err /\\ (Delivered err -> fl = (model ...).fl /\\ h' d = (model ...).d /\\ aux = ...) /\\
        (forall cell != d, h' cell = h cell)      -- C06 frame: operands (when not the destination) and all other cells unchanged
    where `model` is the value-level function of ApdVerif/Model/Arith.lean (addOp, mulOp, ...). For non-delivered outcomes (system
    limit errors) only the error class and the frame clause are claimed. For Modf: hypothesis integ != frac, either may be the
    receiver or absent. Name the theorems `C05_<op>`. Also ApdVerif/Props/C06.lean with `C06_<op>`: the same run does not depend
    on the previous contents of the destination when d is not in {x, y} (corollary), and `WritesOnly (. = d)` for each program.
    ApdVerif/Props/C18.lean: `C18_interleave` (the generic theorem) and `C18_ctxops`: any family of context operations whose
    destination cells are pairwise distinct and distinct from every operand cell has, under every schedule, per-thread results
    equal to the solo runs (instantiate the generic theorem with the footprints R = {x,y}, W = {d} proved for each program).
If a program you transcribed faithfully does NOT satisfy the alias theorem, that is a finding about the Go code: report the
concrete cells/heap (check with `#eval`/`decide`), prove the theorem under the weakest extra hypothesis (`_partial`) and say so.
Proof pattern that worked in the prototype: `unfold prog modelOp; simp only [run_bind, rForm, ..., run]`, then `by_cases` on each
branch condition BEFORE `simp` (a plain `split` does not find an `if` under `run`), then `simp [upd, ...]`; use callee theorems
as rewrite rules for calls (`Round(d,d)`, `x.Modf(d,&frac)`, `c.Add(d,d,one)`).
Work in stages and keep everything compiling: Prog + Set/Neg/Abs/Modf/Reduce first, then setExponent/Round, then add/Mul/...
In your final report list precisely which ops are done, and the names of the executable entry points.

PROTOTYPE (core Lean, elaborated fine with a 4-field Dec whose coeff was Int):
''' + proto)

tasks['bigint'] = ('C16', '''SPECIFIC TASK: model apd.BigInt (/repo/bigint.go - read it) and prove it behaves like math/big.Int (property C16).
(1) ApdVerif/Model/BigInt.lean (core only, executable). Representation
        inductive Tag | inlinePos | inlineNeg | heap      -- _inner = nil / negSentinel / a heap big.Int
        structure Rep where tag : Tag; w0 w1 : Nat (the two 64-bit inline words, < 2^64); big : Int (value when tag = heap)
    abstraction `Rep.abs : Rep -> Int` (inline: +- (w0 + 2^64*w1); heap: big) and an invariant `Rep.Canon r : Prop`
    (words < 2^64; tag = inlineNeg -> magnitude != 0, i.e. zero is never negative). Model what the code does: read
    `inner`/`updateInner` carefully - `updateInner` switches to a heap big.Int exactly when math/big had to reallocate because
    the result does not fit the 2-word inline array (|v| >= 2^128), otherwise the value is stored inline; once `_inner` is a real
    *big.Int results are computed through it and stay there. State the rule you model in comments.
    For every method with a uint64 fast path write the model function following the Go control flow (fast path via
    `innerAsUint64` -> inline helper -> `updateInnerFromUint64`; otherwise "big path" = exact Int arithmetic followed by
    `updateInner`): Add, Sub, Mul, Quo, Rem, QuoRem, Cmp, CmpAbs, Abs, Neg, Set, SetInt64, SetUint64, Sign, Bit (i=0 fast path),
    BitLen, IsInt64, IsUint64, Int64, Uint64 (results of Int64/Uint64 as the wrapped machine values). The inline helpers
    `addInline mulInline quoInline remInline` must be written by hand here in the model AND proved equal to the GENERATED
    versions in ApdVerif/Gen/Inline.lean (regenerated from the Go source on every run; uses ApdVerif/Gen/Prelude.lean) in
    ApdVerif/Props/GenTieInline.lean (theorems `GenTie_addInline` ... for all xVal yVal < 2^64).
    Go's `Quo`/`Rem` are truncated division (Int.tdiv / Int.tmod); division by zero panics in math/big - exclude y = 0 as
    math/big documents.
    Provide an executable entry point for the driver:
        def BigInt.step (r : Rep) (method : String) (a b : Rep) : Option (Rep x String)   -- new receiver state and a printed result
(2) ApdVerif/Props/C16.lean: for each method `abs (op r s) = <Int operation> (abs r) (abs s)`, `Canon` preserved, boolean/int
    results equal to those of `Int` (Sign, Cmp, CmpAbs, IsInt64, IsUint64, Bit 0, BitLen = bit length of |v|), operands unchanged
    (immediate in a functional model - say so), and `C16_zero_never_negative : Canon r -> abs r = 0 -> Sign r = 0 /\\ Cmp r zero = 0`.
    Name the theorems `C16_<method>`.
Say in the report exactly which methods are covered and how the remaining ~40 wrapper methods (`updateInner(big.op(inner ...))`)
relate (one lemma about inner/updateInner: value preserved, canonical form restored).''')

tasks['text'] = ('C13', '''SPECIFIC TASK: model the text layer of apd and prove properties C13 (round trips) and C14 (String is the GDA
to-scientific-string; the parser accepts exactly the numeric-string grammar). Read /repo/format.go and /repo/decimal.go
(setString, consumePrefix, asciiLower, SetString, NewFromString) and /repo/bigint.go (SetString) first.
(1) ApdVerif/Model/Text.lean (core only, executable; strings as `String`/`List Char`, ASCII):
      def natDigits (n : Nat) : List Char                  -- decimal digits of n ("0" for 0); you may use Nat.toDigits / Nat.repr
      def Text.append (d : Dec) (verb : Char) : String      -- Decimal.Append for verbs 'e' 'E' 'f' 'g' 'G' (fmtE, fmtF, the
                                                             -- adjExponentLimit = -6 rule and the zero special case with
                                                             -- lowestZeroNegativeCoefficientCockroach = -2000), NaN/sNaN/Infinity texts, sign
      def Text.string (d : Dec) : String := Text.append d 'G'
      def Text.parse (s : String) : Option (Dec x Int)      -- Decimal.setString up to (but excluding) setExponent/round: form, sign,
                                                             -- coefficient and the summed exponent exp10; none = parse error.
                                                             -- Model strconv.ParseInt(...,10,32) for the exponent (optional sign, digits,
                                                             -- range of int32, no underscores), BigInt.SetString base 10 for the mantissa
                                                             -- (digits only after the sign check; empty string is an error), NaN payload
                                                             -- digits ignored, "inf"/"infinity", case-insensitive on ASCII only.
      def Text.setString (c : Ctx) (s : String) : Option Out -- Decimal.setString: parse, then `setExponent c d {} [exp10]`, goError (none = parse error)
      def Text.ctxSetString (c : Ctx) (s : String) : Option Out   -- Context.SetString: setString then ctxRound, flags OR-ed (see decimal.go)
      def Text.format (d : Dec) (verb : Char) (plus minus space zero : Bool) (width : Option Nat) : String   -- Decimal.Format for
                                                             -- e E f F g G v s (sign, padding rules exactly as format.go: '-' overrides '0')
(2) ApdVerif/Spec/Grammar.lean (core): the GDA numeric-string grammar as a decidable recogniser written from the
    specification text (sign? (digits with at most one '.' and at least one digit) (e|E sign? digits)? | sign? inf|infinity | sign? nan|snan digits*,
    case-insensitive), plus `Spec.toSci (d : Dec) : String` = the GDA to-scientific-string written from the spec text.
(3) ApdVerif/Props/C13.lean and C14.lean (Mathlib allowed): theorems
      `C14_string_toSci` : Text.string d = Spec.toSci d for every finite d except zeros with exp in [-2000,-1] (plain form there), and for specials
      `C14_parse_accepts_iff` : (Text.parse s).isSome <-> GdaNumeric s /\\ (written exponent within ParseInt's int32 range)
      `C14_setString_limits` : BaseContext.SetString succeeds iff grammar /\\ the denoted exponent and adjusted exponent are within +-100000
      `C13_roundtrip_G` : for every d (Dec.WF from Spec/Defs.lean, any form/sign): Text.parse (Text.append d 'G') = some (d', e) with
                          d' and e reproducing d field-wise (form, sign, coefficient, exponent; for NaN/Infinity only form and sign: state precisely),
                          same for 'E' 'e' 'g';
      `C13_roundtrip_f`  : parse (append d 'f') denotes the same value and sign.
    These are big; do them in this order and report exactly what is proved: model first (must be executable and faithful),
    then C14_string_toSci, then the round trips, then the grammar equivalence.
The driver will call `Text.append`, `Text.format`, `Text.setString`, `Text.ctxSetString`; keep those names.''')

for k, (f, t) in tasks.items():
    ws = '/tmp/ag/%s/lean' % k
    os.makedirs('/tmp/ag/%s' % k, exist_ok=True)
    open('/tmp/ag/%s/PROMPT.md' % k, 'w').write(pre.replace('{WS}', ws).replace('{FILE}', f) + '\n\n' + t + '\n')
print('ok')
