"""Per-property configuration of ./check: Lean modules holding the obligations, harness streams,
the projections of the model/implementation correspondence that matter for the property, and the
specification-oracle tags that decide it on implementation outputs."""
import json, os, re

ROOT = os.path.dirname(os.path.dirname(os.path.abspath(__file__)))

TRUSTED_BASE = [
    "Lean 4.33 kernel (thorough tier: re-checked by leanchecker); axioms propext, Classical.choice, Quot.sound only, audited per theorem by #print axioms on every run",
    "the statements in lean/ApdVerif/Props and the specification in lean/ApdVerif/Oracle + Spec say what properties.jsonl says",
    "hand-written executable Lean model (lean/ApdVerif/Model) tied to /repo by the differential correspondence run (Go harness built from the working tree -> compiled Lean driver) on this run's cases",
    "regenerated tie: harness/cmd/xlate (go/ast) re-extracts constants and leaf decision functions from /repo into lean/ApdVerif/Gen on every run; lean/ApdVerif/Props/GenTie.lean proves them equal to the model's",
    "modelled, not verified: math/big (as Lean Nat/Int), strconv, fmt, the Go compiler and runtime",
    "the compiled Lean driver (Lean compiler, not the kernel) evaluates model and oracle",
]
ASSUMPTIONS = [
    "correspondence is differential testing: it bounds what is seen to the generated cases (distribution in coverage.streams)",
    "operands and contexts are well-formed as stated in properties.jsonl (non-negative coefficient, exponents within +-100000, 1<=Precision<=MaxExponent unless stated)",
]

ARITH_OPS = ["add", "sub", "mul", "quo", "abs", "neg", "round"]
GEN_TIE = "ApdVerif.Props.GenTie"

PROPS = {
    "C01": {
        "level": "proof",
        "lean_modules": ["ApdVerif.Props.C01", "ApdVerif.Props.GenTieRound", "ApdVerif.Props.GenTieMisc"],
        "theorem_prefixes": ["C01_", "GenTie_"],
        "streams": [
            {"stream": "arith", "ops": ARITH_OPS, "n": {"quick": 40000, "thorough": 600000}},
            {"stream": "arith", "ops": ARITH_OPS, "n": {"quick": 300, "thorough": 4000}, "args": ["-extreme"]},
        ],
        "projections": ["value", "err"],
        "oracle_tags": ["C01"],
        "explanation": "theorems: model = specification (exact result rounded once) for Round/Abs/Neg/Add/Sub/Mul/Quo; tie: correspondence on value+error projection; search: specification oracle on implementation outputs",
    },
    "C02": {
        "level": "proof",
        "lean_modules": ["ApdVerif.Props.C02", "ApdVerif.Props.GenTieRound", "ApdVerif.Props.GenTieCond"],
        "theorem_prefixes": ["C02_", "GenTie_"],
        "streams": [
            {"stream": "arith", "ops": ["add", "sub", "mul", "quo", "quoint", "rem", "round", "quantize", "rtie", "reduce"],
             "n": {"quick": 40000, "thorough": 600000}},
        ],
        "projections": ["flags"],
        "oracle_tags": ["C02"],
    },
    "C07": {
        "level": "proof",
        "lean_modules": ["ApdVerif.Props.C07", "ApdVerif.Props.GenTieRound", "ApdVerif.Props.GenTieMisc"],
        "theorem_prefixes": ["C07_", "GenTie_"],
        "streams": [
            {"stream": "arith", "ops": ["add", "sub", "mul", "quo", "abs", "neg", "round", "rem", "reduce", "quantize", "quoint"],
             "n": {"quick": 40000, "thorough": 600000}},
        ],
        "projections": ["value", "repr"],
        "oracle_tags": ["C07"],
    },
    "C09": {
        "level": "proof",
        "lean_modules": ["ApdVerif.Props.C09", "ApdVerif.Props.GenTieRound"],
        "theorem_prefixes": ["C09_", "GenTie_"],
        "streams": [
            {"stream": "arith", "ops": ["quantize", "rtie", "rtiv", "ceil", "floor"], "n": {"quick": 40000, "thorough": 600000}},
        ],
        "projections": ["value", "repr", "flags", "err"],
        "oracle_tags": ["C09"],
    },
    "C10": {
        "level": "proof",
        "lean_modules": ["ApdVerif.Props.C10", "ApdVerif.Props.GenTieRound"],
        "theorem_prefixes": ["C10_", "GenTie_"],
        "streams": [
            {"stream": "arith", "ops": ["quoint", "rem"], "n": {"quick": 40000, "thorough": 600000}},
        ],
        "projections": ["value", "repr", "flags", "err"],
        "oracle_tags": ["C10"],
    },
}

PROPS.update({
    "C15": {
        "level": "proof",
        "lean_modules": ["ApdVerif.Props.C15", "ApdVerif.Props.GenTieMisc"],
        "theorem_prefixes": ["C15_", "GenTie_"],
        "streams": [{"stream": "order", "n": {"quick": 40000, "thorough": 800000}}],
        "projections": ["result"],
        "oracle_tags": ["C15"],
        "explanation": "theorems: Decimal.Cmp = sign of the exact difference on all non-NaN operands (all three code paths); CmpTotal antisymmetric, transitive, zero iff same representation, agrees with Cmp, exponent tie-break, form order. tie: order stream (triples) through the model; search: the same laws evaluated on implementation outputs",
    },
    "C17": {
        "level": "proof",
        "lean_modules": ["ApdVerif.Props.C17"],
        "streams": [{"stream": "conv", "n": {"quick": 30000, "thorough": 600000}}],
        "projections": ["result", "integ", "frac"],
        "oracle_tags": ["C17"],
    },
    "C19": {
        "level": "proof",
        "lean_modules": ["ApdVerif.Props.C19"],
        "streams": [{"stream": "digits", "n": {"quick": 15000, "thorough": 300000}, "thorough_args": ["-extreme"]},
                    {"stream": "arith", "ops": ["reduce"], "n": {"quick": 15000, "thorough": 200000}}],
        "projections": ["result", "count", "value", "repr", "aux"],
        "oracle_tags": ["C19"],
        "trusted_extra": ["the float expression int64(float64(bl)/digitsToBitsRatio) of NumDigits' estimate path is modelled as ndigits(2^bl)-1; the digits stream checks NumDigits itself at 2^k, 2^k-1, 10^j, 10^j-1 for every bit length it covers"],
    },
})
PROPS["C20"] = {
    "level": "proof",
    "lean_modules": ["ApdVerif.Props.C20", "ApdVerif.Props.C01", "ApdVerif.Props.GenTieRound"],
    "theorem_prefixes": ["C20_", "GenTie_"],
    "streams": [{"stream": "modes", "n": {"quick": 30000, "thorough": 500000}}],
    "projections": ["modes", "rel"],
    "oracle_tags": ["C20"],
    "explanation": "theorems: on the specification every mode returns the RoundDown or RoundUp result, floor/ceiling are those by sign, modes coincide iff exact, down/up adjacent, mirror law, monotonicity; on the model Add/Mul commute and Sub = Add of the negation. C01 ties the operations to the specification. search: the relations are evaluated directly on implementation outputs of the same call under the eight modes and under sign/scale/order transformations (scaling law: checked, not proved)",
}

_known = None


def known_findings():
    global _known
    if _known is None:
        p = os.path.join(ROOT, 'known_findings.json')
        _known = json.load(open(p)).get('findings', []) if os.path.exists(p) else []
    return _known


def match_known(pid, rec):
    """rec = (kind, input line, driver message). An entry matches by property, by a regex on the
    input line (call site / operand shape) and by a regex on the oracle's reason."""
    kind, line, msg = rec
    for k in known_findings():
        if k.get('status') != 'open' or k.get('property') != pid:
            continue
        if re.search(k['input_regex'], line) and re.search(k['reason_regex'], msg):
            return k
    return None
