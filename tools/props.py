"""Per-property configuration of ./check: Lean modules holding the obligations, harness streams,
the projections of the model/implementation correspondence that matter for the property, and the
specification-oracle tags that decide it on implementation outputs."""
import json, os, re

ROOT = os.path.dirname(os.path.dirname(os.path.abspath(__file__)))

TRUSTED_BASE = [
    "Lean 4.33 kernel (thorough tier: re-checked by leanchecker); axioms propext, Classical.choice, Quot.sound only, audited per theorem by #print axioms on every run",
    "the statements in lean/ApdVerif/Props and the specification in lean/ApdVerif/Oracle + Spec say what properties.jsonl says",
    "hand-written executable Lean model (lean/ApdVerif/Model) tied to /repo by the differential correspondence run (Go harness built from the working tree -> compiled Lean driver) on this run's cases",
    "regenerated tie: harness/cmd/xlate (go/ast) re-extracts constants and leaf decision functions from /repo into lean/ApdVerif/Gen on every run; lean/ApdVerif/Props/GenTie.lean proves them equal to the model's",
    "modelled, not verified: math/big (as Lean Nat/Int), strconv, fmt, the Go compiler and runtime",
    "the compiled Lean driver (Lean compiler, not the kernel) evaluates model and oracle",
]
ASSUMPTIONS = [
    "correspondence is differential testing: it bounds what is seen to the generated cases (distribution in coverage.streams)",
    "operands and contexts are well-formed as stated in properties.jsonl (non-negative coefficient, exponents within +-100000, 1<=Precision<=MaxExponent unless stated)",
]

ARITH_OPS = ["add", "sub", "mul", "quo", "abs", "neg", "round"]
GEN_TIE = "ApdVerif.Props.GenTie"

PROPS = {
    "C01": {
        "level": "proof",
        "lean_modules": ["ApdVerif.Props.C01", "ApdVerif.Props.GenTieRound", "ApdVerif.Props.GenTieMisc", "ApdVerif.Props.C01Parse"],
        "theorem_prefixes": ["C01_", "GenTie_"],
        "streams": [
            {"stream": "arith", "ops": ARITH_OPS, "n": {"quick": 40000, "thorough": 600000}},
            {"stream": "arith", "ops": ARITH_OPS, "n": {"quick": 300, "thorough": 4000}, "args": ["-extreme"]},
            # the same oracle judges every outcome of the alias stream (aliased calls, other destination pre-states)
            {"stream": "alias", "ops": ARITH_OPS, "n": {"quick": 5000, "thorough": 80000}, "projections": []},
            # context-aware parsing: the denoted value of a grammatical string, rounded once (C01_value_parse_partial)
            {"stream": "strings", "n": {"quick": 8000, "thorough": 120000}},
        ],
        "projections": ["value", "err"],
        "oracle_tags": ["C01"],
        "explanation": "theorems: model = specification (exact result rounded once) for Round/Abs/Neg/Add/Sub/Mul/Quo; tie: correspondence on value+error projection; search: specification oracle on implementation outputs",
    },
    "C02": {
        "level": "proof",
        "lean_modules": ["ApdVerif.Props.C02", "ApdVerif.Props.GenTieRound", "ApdVerif.Props.GenTieCond", "ApdVerif.Props.TransLog"],
        "theorem_prefixes": ["C02_", "GenTie_", "C02T_"],
        "streams": [
            {"stream": "arith", "ops": ["add", "sub", "mul", "quo", "quoint", "rem", "round", "quantize", "rtie", "reduce"],
             "n": {"quick": 40000, "thorough": 600000}},
            {"stream": "alias", "ops": ["add", "sub", "mul", "quo", "round", "reduce", "sqrt"], "n": {"quick": 5000, "thorough": 80000}, "projections": []},
            {"stream": "roots", "n": {"quick": 5000, "thorough": 80000}, "projections": []},
            {"stream": "translog", "n": {"quick": 6000, "thorough": 80000}, "projections": ["flags", "tape"]},
        ],
        "projections": ["flags"],
        "oracle_tags": ["C02"],
    },
    "C07": {
        "level": "proof",
        "lean_modules": ["ApdVerif.Props.C07", "ApdVerif.Props.GenTieRound", "ApdVerif.Props.GenTieMisc", "ApdVerif.Props.TransLog", "ApdVerif.Props.C07Roots"],
        "theorem_prefixes": ["C07_", "GenTie_", "C07T_"],
        "streams": [
            {"stream": "arith", "ops": ["add", "sub", "mul", "quo", "abs", "neg", "round", "rem", "reduce", "quantize", "quoint"],
             "n": {"quick": 40000, "thorough": 600000}},
            {"stream": "roots", "n": {"quick": 6000, "thorough": 100000}},
            {"stream": "translog", "n": {"quick": 6000, "thorough": 100000}},
            {"stream": "strings", "n": {"quick": 6000, "thorough": 100000}},
            {"stream": "specials", "n": {"quick": 1, "thorough": 3}},
            {"stream": "alias", "ops": ["add", "mul", "quo", "rem", "reduce", "sqrt", "cbrt", "quantize"], "n": {"quick": 2000, "thorough": 30000}},
        ],
        # the property is a decidable predicate of each returned value: it is evaluated on every
        # implementation output; no projection of the model correspondence is needed to decide it
        "projections": [],
        "oracle_tags": ["C07"],
    },
    "C09": {
        "level": "proof",
        "lean_modules": ["ApdVerif.Props.C09", "ApdVerif.Props.GenTieRound"],
        "theorem_prefixes": ["C09_", "GenTie_"],
        "streams": [
            {"stream": "arith", "ops": ["quantize", "rtie", "rtiv", "ceil", "floor"], "n": {"quick": 40000, "thorough": 600000}},
            # exponents at the package limits and exponent gaps of exactly 99999/100000 (100000-digit coefficients)
            {"stream": "arith", "ops": ["quantize", "rtie", "rtiv", "ceil", "floor"], "n": {"quick": 150, "thorough": 2000}, "args": ["-extreme"]},
        ],
        "projections": ["value", "repr", "flags", "err"],
        "oracle_tags": ["C09"],
    },
    "C10": {
        "level": "proof",
        "lean_modules": ["ApdVerif.Props.C10", "ApdVerif.Props.GenTieRound"],
        "theorem_prefixes": ["C10_", "GenTie_"],
        "streams": [
            {"stream": "arith", "ops": ["quoint", "rem"], "n": {"quick": 40000, "thorough": 600000}},
        ],
        "projections": ["value", "repr", "flags", "err"],
        "oracle_tags": ["C10"],
    },
}

PROPS.update({
    "C15": {
        "level": "proof",
        "lean_modules": ["ApdVerif.Props.C15", "ApdVerif.Props.GenTieMisc"],
        "theorem_prefixes": ["C15_", "GenTie_"],
        "streams": [{"stream": "order", "n": {"quick": 40000, "thorough": 800000}}],
        "projections": ["result"],
        "oracle_tags": ["C15"],
        "explanation": "theorems: Decimal.Cmp = sign of the exact difference on all non-NaN operands (all three code paths); CmpTotal antisymmetric, transitive, zero iff same representation, agrees with Cmp, exponent tie-break, form order. tie: order stream (triples) through the model; search: the same laws evaluated on implementation outputs",
    },
    "C17": {
        "level": "proof",
        "lean_modules": ["ApdVerif.Props.C17"],
        "streams": [{"stream": "conv", "n": {"quick": 30000, "thorough": 600000}}],
        "projections": ["result", "integ", "frac"],
        "oracle_tags": ["C17"],
    },
    "C19": {
        "level": "proof",
        "lean_modules": ["ApdVerif.Props.C19"],
        "streams": [{"stream": "digits", "n": {"quick": 15000, "thorough": 300000}, "thorough_args": ["-extreme"]},
                    {"stream": "arith", "ops": ["reduce"], "n": {"quick": 15000, "thorough": 200000}}],
        "projections": ["result", "count", "value", "repr", "aux"],
        "oracle_tags": ["C19"],
        "trusted_extra": ["the float expression int64(float64(bl)/digitsToBitsRatio) of NumDigits' estimate path is modelled as ndigits(2^bl)-1; the digits stream checks NumDigits itself at 2^k, 2^k-1, 10^j, 10^j-1 for every bit length it covers"],
    },
})
PROPS["C20"] = {
    "level": "proof",
    "lean_modules": ["ApdVerif.Props.C20", "ApdVerif.Props.C01", "ApdVerif.Props.GenTieRound", "ApdVerif.Props.C20Scale"],
    "theorem_prefixes": ["C20_", "GenTie_"],
    "streams": [{"stream": "modes", "n": {"quick": 30000, "thorough": 500000}}],
    "projections": ["modes", "rel"],
    "oracle_tags": ["C20"],
    "explanation": "theorems: on the specification every mode returns the RoundDown or RoundUp result, floor/ceiling are those by sign, modes coincide iff exact, down/up adjacent, mirror law, monotonicity; on the model Add/Mul commute and Sub = Add of the negation. C01 ties the operations to the specification. search: the relations are evaluated directly on implementation outputs of the same call under the eight modes and under sign/scale/order transformations; the scaling law is a theorem too (C20_scale_spec on the specification without side conditions on the value, C20_scale_mul/_quo/_add on the model)",
}
COMPOSITE_NOTE = "Exp/Ln/Log10/Pow: only the special-value prologues are modelled (the series are steered by float64 estimates); their numeric results are judged by oracles"

PROPS.update({
    "C03": {
        "level": "proof",
        "lean_modules": ["ApdVerif.Props.C03", "ApdVerif.Props.GenTieCond", "ApdVerif.Props.TransLog", "ApdVerif.Props.C07Roots"],
        "theorem_prefixes": ["C03_", "GenTie_", "C03T_"],
        "streams": [{"stream": "traps", "n": {"quick": 30000, "thorough": 500000}},
                    {"stream": "errdec", "n": {"quick": 15000, "thorough": 200000}}],
        "projections": ["traps", "errdec"],
        "oracle_tags": ["C03"],
        "trusted_extra": [COMPOSITE_NOTE],
    },
    "C04": {
        "level": "other",
        "lean_modules": ["ApdVerif.Props.C04", "ApdVerif.Props.C11", "ApdVerif.Props.C14", "ApdVerif.Props.C04Cbrt"],
        "theorem_prefixes": ["C04_", "C11_sqrtLoop", "C14_parse_accepts_iff", "C14_setString_limits"],
        "streams": [{"stream": "total", "n": {"quick": 20000, "thorough": 300000}},
                    {"stream": "strings", "n": {"quick": 20000, "thorough": 400000}},
                    {"stream": "digits", "n": {"quick": 3000, "thorough": 50000}},
                    {"stream": "traps", "n": {"quick": 8000, "thorough": 150000}},
                    {"stream": "specials", "n": {"quick": 1, "thorough": 60000}},
                    {"stream": "bigint", "n": {"quick": 5000, "thorough": 100000}}],
        "projections": [],
        "oracle_tags": ["C04"],
        "explanation": "partial: Lean proves that the modelled entry points are total functions whose loops run on proved-sufficient fuel (Sqrt precision doubling, integer roots, NumDigits, Reduce) and that a successfully parsed decimal is well-formed; the runtime part (no panic / no hang of the compiled code, every exported entry point) is explored under recover + watchdog on generated well-formed inputs and arbitrary byte strings",
    },
    "C11": {
        "level": "proof",
        "lean_modules": ["ApdVerif.Props.C11", "ApdVerif.Props.C11Settle", "ApdVerif.Props.C11Sqrt", "ApdVerif.Props.C11SqrtExact", "ApdVerif.Props.C11Cbrt", "ApdVerif.Props.C11CbrtObs", "ApdVerif.Props.C11CbrtConv"],
        "streams": [{"stream": "roots", "n": {"quick": 20000, "thorough": 400000}},
                    # the same oracles judge every aliased outcome (d == x, heap-backed operands, junk destinations)
                    {"stream": "alias", "ops": ["sqrt", "cbrt"], "n": {"quick": 3000, "thorough": 40000}, "projections": []}],
        "projections": ["value", "repr", "flags", "err", "iter"],
        "oracle_tags": ["C11"],
        "explanation": "Sqrt: correctness theorem for every operand incl. Inexact iff not exactly representable (C11_sqrt_correct_partial, C11_sqrt_inexact_iff; side condition proved necessary by C11_sqrt_sys). Cbrt: within one ulp and exact on perfect cubes whenever the call returns without error (C11_cbrt_within_ulp, C11_cbrt_exact). Also: integer-root oracles, specSqrt is the half-even nearest multiple stated on squares, the Cbrt ulp test, perfect-cube detection, loop termination, special operands. Cbrt returns without error (C11_cbrt_returns: the scaling loops end, the polynomial estimate is within 3%, the rounded Newton map contracts, loop.done fires by round Precision+9 of the Precision+11 allowed, the re-check multiplications are exact) under the decidable side condition CbrtSide, every clause of which excludes a real failure of the Go code (C11_cbrt_sys, C11_cbrt_traps_needed; at Precision 1 the iteration really fails to converge for exponents below -40000: known finding). The executable models are correspondence-checked (incl. the Sqrt iterate and the last Cbrt iterate at observation points inside the real loops; C11_cbrt_obs_factor: the model's result is computed from exactly that iterate) and every generated case is judged by the proved oracles",
    },
    "C13": {
        "level": "proof",
        "lean_modules": ["ApdVerif.Props.C13", "ApdVerif.Props.C14", "ApdVerif.Props.C13Decompose"],
        "theorem_prefixes": ["C13_"],
        "streams": [{"stream": "text", "n": {"quick": 20000, "thorough": 400000}},
                    {"stream": "strings", "n": {"quick": 8000, "thorough": 100000}}],
        "projections": ["text", "format", "parse"],
        "oracle_tags": ["C13"],
        "trusted_extra": ["SetFloat64/Float64 rely on strconv's shortest formatting and correctly rounded parsing (contract assumed); the stream checks the bit-exact round trip and the shortest-coefficient claim on generated bit patterns"],
    },
    "C14": {
        "level": "proof",
        "lean_modules": ["ApdVerif.Props.C14"],
        "theorem_prefixes": ["C14_"],
        "streams": [{"stream": "strings", "n": {"quick": 30000, "thorough": 600000}},
                    {"stream": "text", "n": {"quick": 10000, "thorough": 200000}}],
        "projections": ["text", "format", "parse"],
        "oracle_tags": ["C14"],
    },
    "C16": {
        "level": "proof",
        "lean_modules": ["ApdVerif.Props.C16", "ApdVerif.Props.GenTieInline"],
        "theorem_prefixes": ["C16_", "GenTie_"],
        "streams": [{"stream": "bigint", "n": {"quick": 30000, "thorough": 500000}}],
        "projections": ["bigint"],
        "oracle_tags": ["C16"],
        "trusted_extra": ["math/big is the reference semantics by definition of the property; the ~40 wrapper methods without a fast path are updateInner(big.op(inner ...)) - covered by C16_wrapper in the model and compared with math/big directly in the bigint stream; receiver/argument aliasing of BigInt is implemented by math/big's own overlap detection over the shared inline array and is carried by the stream only"],
    },
})
PROPS["C08"] = {
    "level": "proof",
    "lean_modules": ["ApdVerif.Props.C08", "ApdVerif.Props.TransLog", "ApdVerif.Props.C09"],
    "theorem_prefixes": ["C08_", "C08T_"],
    "streams": [{"stream": "specials", "n": {"quick": 20000, "thorough": 300000}},
                {"stream": "arith", "ops": ["add", "sub"], "n": {"quick": 8000, "thorough": 100000}},
                # sign of zero results of the integral roundings (C08_ceil_zero_sign, C08_floor_zero_sign)
                {"stream": "arith", "ops": ["ceil", "floor", "rtiv", "rtie"], "n": {"quick": 6000, "thorough": 80000}},
                {"stream": "alias", "n": {"quick": 12000, "thorough": 150000}, "projections": []}],
    "projections": ["value", "repr", "flags", "err"],
    "oracle_tags": ["C08"],
    "trusted_extra": [COMPOSITE_NOTE],
}
PROPS.update({
    "C05": {
        "level": "proof",
        "lean_modules": ["ApdVerif.Props.C05", "ApdVerif.Props.GenTieImp", "ApdVerif.Props.C05Trans", "ApdVerif.Props.GenTieImpTrans"],
        "theorem_prefixes": ["C05_", "GenTieImp_", "GenTieImpT_"],
        "streams": [{"stream": "alias", "n": {"quick": 20000, "thorough": 400000}},
                    {"stream": "bigint", "n": {"quick": 8000, "thorough": 150000}}],
        "projections": ["alias", "alias-imp", "methalias", "bigint"],
        "oracle_tags": ["C05"],
        "trusted_extra": ["store-level programs (lean/ApdVerif/Imp/Ops.lean) transcribed by hand from the Go statement order at field granularity, tied by running each program under every aliasing pattern against the real code; BigInt aliasing (math/big overlap detection over the shared inline array) is carried by the bigint stream only", COMPOSITE_NOTE],
    },
    "C06": {
        "level": "proof",
        "lean_modules": ["ApdVerif.Props.C06", "ApdVerif.Props.GenTieImp", "ApdVerif.Props.C06Trans", "ApdVerif.Props.GenTieImpTrans"],
        "theorem_prefixes": ["C06_", "GenTieImp_", "GenTieImpT_"],
        "streams": [{"stream": "alias", "n": {"quick": 20000, "thorough": 400000}},
                    # every other stream, for the shared-state snapshots only (C06: constants and lookup tables unchanged by any call)
                    {"stream": "digits", "n": {"quick": 2000, "thorough": 40000}, "projections": []},
                    {"stream": "bigint", "n": {"quick": 6000, "thorough": 100000}, "projections": []},
                    {"stream": "conv", "n": {"quick": 5000, "thorough": 100000}, "projections": []},
                    {"stream": "text", "n": {"quick": 4000, "thorough": 80000}, "projections": []},
                    {"stream": "strings", "n": {"quick": 5000, "thorough": 100000}, "projections": []},
                    {"stream": "total", "n": {"quick": 4000, "thorough": 80000}, "projections": []},
                    {"stream": "translog", "n": {"quick": 3000, "thorough": 60000}, "projections": []},
                    {"stream": "order", "n": {"quick": 5000, "thorough": 100000}, "projections": []}],
        "projections": ["alias", "alias-imp", "methalias"],
        "oracle_tags": ["C06"],
        "trusted_extra": ["package tables and constants are observed through the verif hook VerifSnapshot before/after every call of the alias stream; history probes re-run recorded calls later in the process", COMPOSITE_NOTE],
    },
    "C18": {
        "level": "other",
        "lean_modules": ["ApdVerif.Props.C18", "ApdVerif.Props.C06", "ApdVerif.Props.GenTieImp", "ApdVerif.Props.C06Trans", "ApdVerif.Props.C18All"],
        "theorem_prefixes": ["C18_", "C06_foot_", "C06_writes_ctxOp", "C06_writes_transOp", "GenTieImp_"],
        "streams": [{"stream": "race", "n": {"quick": 400, "thorough": 6000}},
                    {"stream": "alias", "n": {"quick": 8000, "thorough": 100000}}],
        "projections": ["alias-imp"],
        "oracle_tags": ["C18", "C06"],
        "explanation": "partial: Lean proves, for the store-level programs of the 16 single-rounding Context operations, the footprints (reads within {x,y,d}, writes within {d}) and the generic interleaving theorem: for any family of calls with pairwise distinct destinations that are distinct from every other call's operands, under EVERY schedule of their primitive field accesses each call returns its solo result (= the value-level model's) - hence no conflicting accesses at the model's granularity. Whether the compiled code confines its writes (BigInt.inner temporaries pointing into shared inline arrays through unsafe, math/big never writing through operands, word tearing) lives in the runtime: the footprint is validated on the real code by the alias stream (operands, context and package state unchanged) and a -race build runs 16 goroutines x shared contexts/operands (inline and heap coefficients), comparing every result with the sequential baseline",
    },
})
PROPS["C12"] = {
    "level": "other",
    "lean_modules": ["ApdVerif.Props.C12", "ApdVerif.Props.C12Interval", "ApdVerif.Props.GenTieConsts", "ApdVerif.Props.TransLog", "ApdVerif.Props.C12ExpAcc", "ApdVerif.Props.C12LnAcc", "ApdVerif.Props.C12Log10Acc"],
    "theorem_prefixes": ["C12_", "C12I_", "GenTie_ln10", "GenTie_constVals", "C12T_"],
    "streams": [{"stream": "translog", "n": {"quick": 25000, "thorough": 500000}}],
    "projections": ["value", "repr", "flags", "err", "tape", "consts"],
    "oracle_tags": ["C12"],
    "explanation": "partial: proved in Lean for all inputs - Exp in full: every delivered finite result of Context.Exp is within 1.2 ulp of exp(x), within 0.93 ulp for x > 0, whatever the rounding mode, for every operand and every decision tape that satisfies the decidable adequacy condition ExpTapeOK (C12_exp_accurate, C12_exp_accurate_pos, C12_exp_accurate_delivered, C12_exp_accurate_tiny; stages C12_exp_series_trunc, C12_exp_horner_rounded, C12_exp_power_rounded); the driver evaluates ExpTapeOK on the float64 decisions of every real Exp call, a call outside it breaks the correspondence. Also the exact cases (exp(0), ln(1), log10(1), x**0, x**1, integer powers whose exact value fits) on the modelled part of the code (special-value prologues and the float-free integer-power path of Pow, which is correspondence-checked), and the soundness of the outward-rounded interval arithmetic behind the oracles (see Props/C12Interval.lean for how far). NOT proved: a bound below one ulp for negative arguments of Exp (a worst-case analysis at the code's working precision cannot give one: first-order worst case about 1.05 ulp; observed maximum 0.544 ulp), and the accuracy of Ln, Log10 and fractional Pow (Halley/atanh series steered by a float64 estimate). Every generated case (operands with more digits than Precision, ln near 1, exp near the over/underflow thresholds, integer, half-integer and fractional powers, Precision 1..34) is judged by rational enclosures of exp and ln: a failure is reported only when the result is certainly more than one ulp from every point of the enclosure; claimed overflow/underflow is checked against the enclosure",
    "trusted_extra": [COMPOSITE_NOTE, "strLn10/strInvLn10 digit strings: their leading digits are compared with the interval enclosure of ln 10 through every Ln/Log10 case that is rescaled by ln 10"],
}

_known = None


def known_findings():
    global _known
    if _known is None:
        p = os.path.join(ROOT, 'known_findings.json')
        _known = json.load(open(p)).get('findings', []) if os.path.exists(p) else []
    return _known


def match_known(pid, rec):
    """rec = (kind, input line, driver message). An entry matches by property, by a regex on the
    input line (call site / operand shape) and by a regex on the oracle's reason."""
    kind, line, msg = rec
    for k in known_findings():
        if k.get('status') != 'open' or k.get('property') != pid:
            continue
        if re.search(k['input_regex'], line) and re.search(k['reason_regex'], msg):
            return k
    return None
