#!/usr/bin/env python3
"""Panic/loop site inventory for property C04 ("no panic, no hang").

C04 is decided by exploring the compiled code (streams total, strings, digits, traps, specials, bigint under recover +
watchdog) plus totality/fuel theorems about the model. What ties that exploration to the SOURCE is this inventory:
harness/cmd/sites lists, from the syntax tree of /repo, every place where the Go runtime can panic (explicit panic, index,
slice, integer division by a non-constant, unchecked type assertion, math/big and BigInt methods that panic on a zero
divisor / negative argument / short buffer) and every `for` loop without a syntactic bound. tools/sites.json records the
inventory of the source text the exploration was validated against; REASONS below says, for every site, why it cannot
fire or run forever - a guard in the code, a theorem about the model, or the stream that exercises it. A site that
appears, disappears or changes text breaks the tie of C04: the check widens its search and, if nothing fails, reports
`no-failing-input-found` naming the site.

    python3 tools/sites.py update     rewrite tools/sites.json from /repo (after a reviewed change; every site must have a reason)
"""
import json, os, re, subprocess, sys
ROOT = os.path.dirname(os.path.dirname(os.path.abspath(__file__)))
EXPECTED = os.path.join(ROOT, 'tools', 'sites.json')

REASONS = [  # first match wins: (regex on func, regex on kind, regex on expr, reason)
    (r'^BigInt_(Quo|Rem|QuoRem|Div|Mod|DivMod)$', r'^big\.', r'', 'same contract as math/big.Int: panics exactly when math/big panics (zero divisor); every caller inside the package is listed separately below; bigint stream compares panic/no-panic with math/big'),
    (r'^BigInt_(Sqrt|SetBit|Binomial|MulRange|Lsh|Rsh|FillBytes|Text|Append|SetString)$', r'^big\.', r'', 'same contract as math/big.Int (negative operand / short buffer / base out of range panic there too); bigint stream mirrors each call on math/big under recover'),
    (r'^BigInt_(Bit|inner|innerAsUint64|updateInner|updateInnerFromUint64|BitLen)$', r'^(index|slice)$', r'_inline\[(0|1|i|bitsLen)\]|_inline\[0\]\)\)\)\[:\]', 'index into the fixed inline array: constant 0/1 < inlineWords = 2 (Gen/Consts: inlineWords, checked by init), or a loop variable bounded by len(z._inline)'),
    (r'^BigInt_updateInner$', r'^index$', r'^bits\[0\]$', 'guarded by bitsLen > 0 on the line above (cap/len of the same slice)'),
    (r'^BigInt_updateInner$', r'^loop$', r'bitsLen < len', 'bitsLen is incremented in the body; bounded by the array length 2'),
    (r'^Condition_String$', r'', r'', 'loop shifts a single bit left while r != 0 and clears the bit from r when it names a condition: r < 2^12 for every flag set the package produces (C02_flags_range: no bit beyond the twelve); the panic is the default branch for an unknown bit; total stream formats every returned Condition'),
    (r'^Context_Cbrt$', r'^loop$', r'z\.Cmp\(decimalOne(Eighth)?\)', 'scaling loops: each round multiplies z by 8 (1/8) through the ErrDecimal and then tests ed.Err() (repair of a real hang: a failed step leaves z unchanged and the loop used to spin for operands with more than ~100000 digits); a round that does not fail moves the value by a factor >= 7 inside [1E-100001, 1E+100001), so at most 2*100001 rounds follow the first: C04_cbrt_total (every operand), C11_cbrt_returns'),
    (r'^Context_Cbrt$', r'^loop$', r'exp8', 'counted by exp8 towards 0'),
    (r'^Context_Cbrt$', r'^loop$', r'newLoop', 'left by loop.done: converged, or error after 10 + (Precision+1) rounds (loop.go maxIterations); ed.Err() tested every round'),
    (r'^Context_Ln$', r'^loop$', r'n := 1', 'series loop: leaves when the term no longer changes the sum, or on ed.Err() (fix d234447: used to spin once the ErrDecimal held an error), n bounded by the working precision; C03T_ln_err, translog + traps streams'),
    (r'^Context_Ln$', r'^loop$', r'newLoop', 'left by loop.done: converged, or error after 10 + (Precision+1) rounds'),
    (r'^Context_Sqrt$', r'^loop$', r'maxp', 'precision doubling p -> min(2p-2, maxp) from p = 3: strictly increasing until maxp (C11_sqrtLoop_terminates)'),
    (r'^Context_integerPower$', r'', r'', 'b is shifted right once per round (b.Rsh(&b,1), shift count constant 1): at most bitlen(y) rounds (C12_integer_power_exact uses the same recursion; intPowLoop fuel = bit length)'),
    (r'^Context_Quo$', r'^big\.QuoRem$', r'', 'divisor = y.Coeff * 10^k with y.Coeff != 0: a zero divisor returns earlier in quoSpecials (C08_specials, C10 DivisionByZero/Undefined clauses)'),
    (r'^Context_(QuoInteger|Rem)$', r'^big\.', r'', 'b is the upscaled y.Coeff, non-zero: y.IsZero() returns earlier (quoSpecials / the DivisionUndefined|InvalidOperation prologue; C10_quoInteger, C10_rem)'),
    (r'^Rounder_Round$', r'^big\.QuoRem$', r'', 'divisor e = 10^diff with 0 < diff <= MaxExponent (guards above the call): positive'),
    (r'^Decimal_Modf$', r'^big\.', r'', 'divisor e = 10^(-Exponent) from tableExp10: positive'),
    (r'^Decimal_Reduce$', r'^loop$', r'i >= 10000|i%10 == 0', 'fast path on a non-zero uint64 (zero returns earlier): i shrinks by a factor 10/10000 per round'),
    (r'^Decimal_Reduce$', r'^loop$', r'^for \{', 'big path: leaves as soon as the remainder of the division by ten is non-zero; the coefficient is non-zero (zero returns earlier), so at most NumDigits rounds (C19_reduce: fuel = digit count suffices)'),
    (r'^Decimal_Reduce$', r'^big\.QuoRem$', r'bigTen', 'constant divisor ten'),
    (r'^(round05Up|roundAddOne|sqrtSettle)$', r'^big\.', r'big(Five|Ten)', 'constant divisor five / ten (C06: package constants are never written; VerifSnapshot digest in every stream)'),
    (r'^roundAddOne$', r'^panic$', r'', 'coefficients handed to roundAddOne are quotients of non-negative coefficients (Dec.coeff : Nat in the model; C04_parsed_wellformed: parsing never yields a negative coefficient; C16_zero_never_negative)'),
    (r'^Decimal_(Append|Text|SetFloat64)$', r'^(slice|big\.Append)$', r'\[:0\]|Append\(scratch', 'reslice to length 0 of a local buffer; base 10'),
    (r'^Decimal_Append$', r'^slice$', r'len\(buf\)-1', 'drops the "s" of "sNaN"/... : buf is non-empty there (a form name was just appended)'),
    (r'^Decimal_Decompose$', r'^panic$', r'', 'default branch of the switch over the four Forms (C13_decompose: every Form value of a well-formed Decimal is handled; text stream)'),
    (r'^Decimal_Decompose$', r'^(slice|big\.FillBytes)$', r'', 'buf is grown to sizeInBytes = ceil(BitLen/8) before the reslice; FillBytes gets exactly that many bytes (C13_decompose_compose; text stream decomp lines incl. caller buffers of every capacity)'),
    (r'^Decimal_Format$', r'^(index|slice)$', r'buf\[(0|1:)\]', 'buf holds the Append/fmtE/fmtF text of a Decimal, never empty; the sign test is guarded by len(buf) > 0 in the same condition (C14_format_*; text stream: every verb, flag, width)'),
    (r'^Decimal_setString$', r'^(index|slice)$', r's\[', 'i comes from strings.IndexAny/IndexByte >= 0 on the same string, or the index follows a len(s) > 0 / HasPrefix test (C14_parse_accepts_iff models the same cuts on List Char; strings stream: 1-edit mutants, empty string, lone signs/points/exponents)'),
    (r'^Decimal_setString$', r'^big\.SetString$', r'', 'base 10'),
    (r'^Form_String$', r'', r'', 'stringer-generated: guarded by i >= len(_Form_index)-1 above'),
    (r'^NumDigits$', r'^index$', r'digitsLookupTable\[bl(\+1)?\]', 'guarded by bl < digitsTableSize-ish test above the lookup (C19_numDigits: table path for every bit length below the table size, estimate path beyond; digits stream covers every bit length around the boundary)'),
    (r'^asciiLower$', r'', r'', 'i < len(s) / i < len(b) in the loop headers; counted'),
    (r'^constWithPrecision_get$', r'^loop$', r'', 'precision is divided by 16 / 2 per round'),
    (r'^constWithPrecision_get$', r'^index$', r'', 'guarded by i >= len(c.vals) fallback above (seeded change C04-constget-index-gap-panic is the negation; total stream: precision-boundary probes at every power of two up to 4096 and around the constants\' digit-string length)'),
    (r'^consumePrefix$', r'^slice$', r'', 'after a successful case-insensitive prefix test of the same length'),
    (r'^fmtE$', r'^(index|slice)$', r'digits\[(0|1:)\]', 'digits = Coeff.Append(...) in base 10: at least one byte'),
    (r'^fmtF$', r'^slice$', r'digits\[(:offset|offset:)\]', '0 < offset < len(digits) in that branch (C13_roundtrip_f / C14_format_f model the same split; text stream)'),
    (r'^(init|makeConst|makeConstWithPrecision|makeDigitsLookupTable|makePow10LookupTable)$', r'', r'', 'package initialisation only: runs once with constant inputs before any call (every harness run executes it; GenTieConsts compares the resulting tables)'),
    (r'^(quoInline|remInline)$', r'^intdiv$', r'', 'callers test y != 0 first: a zero divisor takes the math/big path, which panics like math/big (GenTie_quoInline/remInline; bigint stream)'),
    (r'^tableExp10$', r'^index$', r'', 'guarded by x <= powerTenTableSize above; negative x is excluded by every caller (exponent differences after the sign test)'),
    (r'^writeMultiple$', r'^loop$', r'', 'counted down to 0'),
]
_compiled = [(re.compile(f), re.compile(k), re.compile(e), why) for f, k, e, why in REASONS]

def reason_of(site):
    for f, k, e, why in _compiled:
        if f.search(site['func']) and k.search(site['kind']) and e.search(site['expr']):
            return why
    return None

def current(repo='/repo'):
    env = dict(os.environ, GOFLAGS='-mod=mod', GOPROXY='off', GOSUMDB='off', GOTOOLCHAIN='local', CGO_ENABLED='0')
    exe = os.path.join(ROOT, 'work', 'sites')
    os.makedirs(os.path.join(ROOT, 'work'), exist_ok=True)
    subprocess.run(['go', 'build', '-o', exe, './cmd/sites'], cwd=os.path.join(ROOT, 'harness'), env=env, check=True)
    out = subprocess.run([exe, '-repo', repo], env=env, capture_output=True, text=True, check=True).stdout
    return json.loads(out)

def key(s): return '%s | %s | %s' % (s['func'], s['kind'], s['expr'])

def broken(repo='/repo'):
    """differences between the recorded inventory and /repo's: list of strings (empty = tie holds)"""
    exp = [key(s) for s in json.load(open(EXPECTED))['sites']]
    act_sites = current(repo)
    act = [key(s) for s in act_sites]
    out = []
    from collections import Counter
    ce, ca = Counter(exp), Counter(act)
    for k in sorted(set(ce) | set(ca)):
        if ca[k] > ce[k]: out.append('new panic/loop site: ' + k)
        elif ca[k] < ce[k]: out.append('site gone or changed: ' + k)
    for s in act_sites:
        if reason_of(s) is None: out.append('site without a recorded reason: ' + key(s))
    return out, len(act)

if __name__ == '__main__':
    if sys.argv[1:] == ['update']:
        sites = current()
        missing = [key(s) for s in sites if reason_of(s) is None]
        for s in sites: s['why'] = reason_of(s)
        json.dump({'sites': sites}, open(EXPECTED, 'w'), indent=1)
        print('%d sites recorded; %d without a reason' % (len(sites), len(missing)))
        for m in missing: print('  NO REASON:', m)
        sys.exit(1 if missing else 0)
    else:
        b, n = broken()
        print('%d sites; %d differences' % (n, len(b)))
        for x in b: print(' ', x)
