#!/usr/bin/env python3
"""Regenerate MANIFEST.json from tools/props.py + tools/claims.py (claimed properties and their texts)."""
import json, sys, os
ROOT=os.path.dirname(os.path.dirname(os.path.abspath(__file__)))
sys.path.insert(0, os.path.join(ROOT,'tools'))
import props, claims
plist=[json.loads(l) for l in open(os.path.join(ROOT,'properties.jsonl'))]
checks=[]
for pid in sorted(claims.CLAIMS):
    lvl,text,note,tech=claims.CLAIMS[pid]
    assert pid in props.PROPS, pid
    checks.append({
      'property_id':pid,
      'quick_cmd':'./check %s --tier quick'%pid,
      'thorough_cmd':'./check %s --tier thorough'%pid,
      'evidence_file':'/verif/evidence/%s.json'%pid,
      'replay_cmd_template':'./check %s --replay {path}'%pid,
      'engine':'lean-model+correspondence',
      'level_claimed':{'category':lvl,'text':text,'design_ref':'DESIGN.md §6 '+pid},
      'level_note':note,
      'technique':tech,
    })
na=[{'property_id':p['id'],'reason':claims.NOT_CLAIMED.get(p['id'],'check not yet built; not claimed until it passes on the unchanged tree')} for p in plist if p['id'] not in claims.CLAIMS]
hooks=json.load(open(os.path.join(ROOT,'tools','hooks.json'))) if os.path.exists(os.path.join(ROOT,'tools','hooks.json')) else {'source_commits':[]}
m={'version':1,
 'setup_cmd':'./setup.sh',
 'hooks':{'guard':'verif','enable':'go build -tags verif (harness module with replace github.com/cockroachdb/apd/v3 => /repo)','baseline_off_cmd':'cd /repo && GOFLAGS=-mod=mod GOPROXY=off GOSUMDB=off GOTOOLCHAIN=local go test -json -vet=off -count=1 -timeout 25m ./...','source_commits':hooks['source_commits'],'add_only':True},
 'engines':[{'name':'lean-model+correspondence','path':'/verif/check','serves_properties':sorted(claims.CLAIMS),'kind_free_text':'Lean 4 theorems about a hand-written executable model (lean/ApdVerif); Go harness (harness/) + compiled Lean driver for the model/implementation correspondence and the failing-input search by specification oracles; go/ast translator (harness/cmd/xlate) for regenerated leaf definitions, regenerated store-level programs (Gen/Imp.lean, Gen/ImpTrans.lean; Props/GenTieImp*.lean) and declaration fingerprints; go/ast inventory of panic/loop sites (harness/cmd/sites) for C04'}],
 'checks':checks,
 'notes':'See DESIGN.md. Each check: regenerate Gen/*.lean from /repo, lake build + #print axioms audit of the property theorems, rebuild harness against /repo, run streams through real code and model, classify.',
 'not_applicable':na}
json.dump(m,open(os.path.join(ROOT,'MANIFEST.json'),'w'),indent=1)
print('claimed',len(checks),'not claimed',len(na))
