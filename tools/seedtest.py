#!/usr/bin/env python3
"""seedtest.py <worktree> <name> <prop> [more props...]
Confirm a seeded change produced by a sub-agent (suite passes with it; demo fails with it and passes without),
store it under /verif/seeded/<name>/, then apply it to /repo, run the given checks, and undo it."""
import sys, os, subprocess, json, shutil, time
wt, name, props = sys.argv[1], sys.argv[2], sys.argv[3:]
env = dict(os.environ, GOFLAGS='-mod=mod', GOPROXY='off', GOSUMDB='off', GOTOOLCHAIN='local')
def sh(cmd, cwd=None, **kw):
    return subprocess.run(cmd, cwd=cwd, env=env, capture_output=True, text=True, shell=isinstance(cmd, str), **kw)
seed = os.path.join(wt, '_seed')
patch = open(os.path.join(seed, 'patch.diff')).read()
meta = json.load(open(os.path.join(seed, 'meta.json')))
log = {}
# 1. confirm in the scratch worktree
sh('git checkout -- . && git clean -fdq -e _seed', cwd=wt)
r = sh(['git', 'apply', os.path.join(seed, 'patch.diff')], cwd=wt); assert r.returncode == 0, r.stderr
r = sh('go build ./... && go test -count=1 ./... 2>&1 | tail -5', cwd=wt)
suite_ok = ('FAIL' not in r.stdout) or all(('TestFormatFlags' in l or l.strip() in ('FAIL',) or l.startswith('FAIL\tgithub.com')) for l in r.stdout.splitlines() if 'FAIL' in l)
log['suite_with_change'] = r.stdout.strip()[-300:]
shutil.copy(os.path.join(seed, 'demo_test.go'), os.path.join(wt, 'zz_seed_demo_test.go'))
race = '-race ' if meta.get('property') == 'C18' else ''   # C18 demonstrations are run under the race detector
r1 = sh("go test %s-count=1 -run 'TestSeeded' . 2>&1 | tail -3" % race, cwd=wt)
demo_fails_with = 'FAIL' in r1.stdout
sh(['git', 'apply', '-R', os.path.join(seed, 'patch.diff')], cwd=wt)
r2 = sh("go test %s-count=1 -run 'TestSeeded' . 2>&1 | tail -3" % race, cwd=wt)
demo_passes_without = r2.stdout.strip().startswith('ok') or '\nok' in r2.stdout
sh(['git', 'apply', os.path.join(seed, 'patch.diff')], cwd=wt)
os.remove(os.path.join(wt, 'zz_seed_demo_test.go'))
print('suite passes with change:', suite_ok, '| demo fails with:', demo_fails_with, '| demo passes without:', demo_passes_without)
if not (suite_ok and demo_fails_with and demo_passes_without):
    print('NOT CONFIRMED'); print(log); print(r1.stdout, r2.stdout); sys.exit(1)
# 2. store
dst = os.path.join('/verif/seeded', name)
os.makedirs(dst, exist_ok=True)
shutil.copy(os.path.join(seed, 'patch.diff'), dst)
shutil.copy(os.path.join(seed, 'demo_test.go'), os.path.join(dst, 'demo_test.go.txt'))
# 3. run the checks against /repo with the change applied
assert sh('git status --porcelain', cwd='/repo').stdout.strip() == '', '/repo not clean'
r = sh(['git', 'apply', os.path.join(dst, 'patch.diff')], cwd='/repo'); assert r.returncode == 0, r.stderr
results = {}
try:
    for p in props:
        t0 = time.time()
        r = subprocess.run(['./check', p], cwd='/verif', env=dict(env, VERIF_NO_FPGATE='1'), capture_output=True, text=True)
        viol = [l for l in r.stdout.splitlines() if l.startswith('VIOLATION')]
        results[p] = {'exit': r.returncode, 'line': viol[0] if viol else '', 'wall_s': round(time.time() - t0, 1)}
        print(p, r.returncode, viol[0] if viol else r.stdout.strip()[-200:])
        if viol:
            rp = viol[0].split('replay=')[1].split()[0]
            results[p]['replay_head'] = open(rp).read()[:600]
finally:
    sh('git checkout -- .', cwd='/repo')
meta.update({'confirmed': {'suite_passes_with_change': suite_ok, 'demo_fails_with_change': demo_fails_with, 'demo_passes_without_change': demo_passes_without},
             'checks_run': results, 'ran': 'tools/seedtest.py %s %s %s' % (wt, name, ' '.join(props))})
json.dump(meta, open(os.path.join(dst, 'meta.json'), 'w'), indent=1)
# restore evidence of the unchanged tree for the checks we ran
if os.environ.get('SEEDTEST_NO_RESTORE') != '1':   # a batch restores the evidence once, at its end
    for p in props:
        sh(['./check', p], cwd='/verif')
